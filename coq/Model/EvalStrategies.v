(* C33 -- evaluation STRATEGIES of datafusion-physical-expr as Gallina functions over a column of rows,
   next to the row-by-row SQL semantics of RefSQL (Model/RefSQL.v: tv, and3/or3/not3, eq3, in3, eval_expr).

   Modelled code (datafusion/physical-expr/src/expressions):
   * in_list.rs + in_list/{result.rs, primitive_filter.rs, branchless_filter.rs, array_static_filter.rs}
       static filters = a set of the non-NULL list values + the separate `null_count > 0` flag, combined
       by the bitmap formulas of `build_result_from_contains` ([inlist_result]);  scalar needle path of
       InListExpr::evaluate ([inlist_set_scalar]);  the dynamic path (no static filter): per-element
       `eq` columns folded with `or_kleene` and the "every row already true" early exit ([inlist_or_chain]).
   * case.rs  CaseBody::case_when_no_expr: remainder rows + remainder batch, per branch: evaluate WHEN on
       the remainder, skip when no row is true, finish when all are true, else filter / evaluate THEN on
       the filtered rows / ResultBuilder::add_branch_result / continue with the rows that were not true;
       ELSE on what is left; ResultBuilder::finish fills NULL ([case_mask]).
   * case/literal_lookup_table: non-NULL WHEN literals, first occurrence wins, THEN values ++ [ELSE],
       NULL operand -> else index, take ([case_lookup]).
   * binary.rs  check_short_circuit / ShortCircuitStrategy / uniform_pre_selection_result /
       pre_selection_scatter for AND and OR ([logic_vec]).
   * physical-expr-common physical_expr.rs  PhysicalExpr::evaluate_selection ([eval_selection]).

   An expression evaluated on a batch is modelled as `mapM f rows` for a row function f : A -> res _ :
   it fails iff it fails on some row of THAT batch (which rows are in the batch is exactly what the
   strategies decide).  Definitions only; proofs in Proofs/EvalStrategiesProofs.v. *)
From Coq Require Import List ZArith Bool.
From DF Require Import Base.Prelude Model.RefSQL.
Import ListNotations.
Open Scope Z_scope.

Definition is_TT (t : tv) : bool := tv_eqb t TT.
Definition is_TF (t : tv) : bool := tv_eqb t TF.
Definition is_TU (t : tv) : bool := tv_eqb t TU.

(* a BooleanArray element from its value bit and validity bit *)
Definition mk_tv (value valid : bool) : tv := if valid then tv_of_bool value else TU.

(* values without VRat: on them structural equality is SQL equality *)
Definition plain (v : value) : bool := match v with VRat _ _ => false | _ => true end.

(* ------------------------------------------------------------------ 1. IN list *)
(* in_list/result.rs build_result_from_contains: (needle_nulls, haystack_has_nulls, negated) -> bitmaps *)
Definition inlist_result (needle_valid haystack_has_nulls negated contains : bool) : tv :=
  match haystack_has_nulls, negated with
  | true, false => mk_tv (needle_valid && contains) (needle_valid && contains)
  | true, true => mk_tv (needle_valid && negb contains) (needle_valid && contains)
  | false, false => mk_tv (needle_valid && contains) needle_valid
  | false, true => mk_tv (needle_valid && negb contains) needle_valid
  end.

Definition null_count (vs : list value) : Z := len (filter is_null vs).
(* the static filter built at planning time from the constant list: (set of non-NULL values, null_count) *)
Definition static_filter (vs : list value) : list value * Z := (nonnull vs, null_count vs).
Definition set_contains (set : list value) (x : value) : bool := existsb (value_eqb x) set.
Definition filter_contains (flt : list value * Z) (neg : bool) (x : value) : tv :=
  inlist_result (negb (is_null x)) (0 <? snd flt) neg (set_contains (fst flt) x).
Definition inlist_set (neg : bool) (vs : list value) (x : value) : tv :=
  filter_contains (static_filter vs) neg x.
Definition inlist_set_col (neg : bool) (vs : list value) (xs : list value) : list tv :=
  let flt := static_filter vs in map (filter_contains flt neg) xs.
(* scalar needle: NULL -> all NULL; otherwise a 1-row array is looked up and the result broadcast *)
Definition inlist_set_scalar (neg : bool) (vs : list value) (s : value) (n : nat) : list tv :=
  if is_null s then repeat TU n
  else match inlist_set_col neg vs [s] with
       | [t] => repeat t n
       | _ => []
       end.

(* the specification: the three-valued OR chain *)
Definition in_spec (neg : bool) (x : value) (vs : list value) : tv :=
  if neg then not_in3 x vs else in3 x vs.

Fixpoint map2 {A B C} (f : A -> B -> C) (a : list A) (b : list B) : list C :=
  match a, b with
  | x :: a', y :: b' => f x y :: map2 f a' b'
  | _, _ => []
  end.

(* dynamic path: found = eq(value, e1); for e in rest: if found is all-true: break; found = or_kleene(found, eq(value, e)) *)
Definition col_all_true (c : list tv) : bool := forallb is_TT c.
Fixpoint or_chain_go (found : list tv) (xs : list value) (cols : list (list value)) : list tv :=
  match cols with
  | [] => found
  | c :: rest => if col_all_true found then found else or_chain_go (map2 or3 found (map2 eq3 xs c)) xs rest
  end.
Definition inlist_or_chain (neg : bool) (xs : list value) (cols : list (list value)) : list tv :=
  let found := match cols with
               | [] => map (fun _ => TF) xs
               | c :: rest => or_chain_go (map2 eq3 xs c) xs rest
               end in
  if neg then map not3 found else found.

(* ------------------------------------------------------------------ 2. searched CASE by remainder masks *)
Fixpoint select {X} (mask : list bool) (l : list X) : list X :=
  match mask, l with
  | m :: mask', x :: l' => if m then x :: select mask' l' else select mask' l'
  | _, _ => []
  end.

Section CaseMask.
  Context {A : Type}.
  Definition cond := A -> res tv.
  Definition rexpr := A -> res value.

  (* ResultBuilder: row index -> value; rows without an entry are NULL at the end *)
  Definition partial := list (nat * value).
  Definition add_branch_result (rows : list nat) (vals : list value) (acc : partial) : partial :=
    combine rows vals ++ acc.
  Definition lookupv (i : nat) (acc : partial) : value :=
    match find (fun p => Nat.eqb (fst p) i) acc with Some p => snd p | None => VNull end.
  Definition finish (n : nat) (acc : partial) : list value := map (fun i => lookupv i acc) (seq 0 n).

  (* rem = (remainder_rows, remainder_batch) zipped *)
  Fixpoint case_mask_go (ws : list (cond * rexpr)) (els : option rexpr) (rem : list (nat * A)) (acc : partial)
    : res partial :=
    match ws with
    | [] => match els with
            | Some e => vs <- mapM (fun p => e (snd p)) rem;; Ok (add_branch_result (map fst rem) vs acc)
            | None => Ok acc
            end
    | (w, t) :: ws' =>
        c <- mapM (fun p => w (snd p)) rem;;
        if negb (existsb is_TT c) then case_mask_go ws' els rem acc
        else if forallb is_TT c then
          vs <- mapM (fun p => t (snd p)) rem;; Ok (add_branch_result (map fst rem) vs acc)
        else
          let sel := select (map is_TT c) rem in
          vs <- mapM (fun p => t (snd p)) sel;;
          let acc' := add_branch_result (map fst sel) vs acc in
          match ws', els with
          | [], None => Ok acc'
          | _, _ => case_mask_go ws' els (select (map (fun x => negb (is_TT x)) c) rem) acc'
          end
    end.
  Definition case_mask (ws : list (cond * rexpr)) (els : option rexpr) (rows : list A) : res (list value) :=
    let n := length rows in
    acc <- case_mask_go ws els (combine (seq 0 n) rows) [];; Ok (finish n acc).

  (* row-by-row SQL semantics: the first branch whose condition is TRUE, else ELSE, else NULL *)
  Fixpoint case_row (ws : list (cond * rexpr)) (els : option rexpr) (r : A) : res value :=
    match ws with
    | [] => match els with Some e => e r | None => Ok VNull end
    | (w, t) :: ws' => c <- w r;; match c with TT => t r | _ => case_row ws' els r end
    end.

  (* ---------------------------------------------------------------- 4. AND / OR short circuit *)
  Inductive strategy := SNone | SReturnLeft | SReturnRight | SPreSelection.
  Definition count_tt (c : list tv) : Z := len (filter is_TT c).
  (* PRE_SELECTION_THRESHOLD = 0.2f32: `count as f32 / len as f32 <= 0.2` is `5 * count <= len`
     for every len < 2^20 (the quotient of two exactly represented integers is correctly rounded and
     k/n <> 1/5 differs from it by at least 1/(5n)) *)
  Definition check_short_circuit (is_and : bool) (lv : list tv) : strategy :=
    if existsb is_TU lv then SNone
    else
      let n := len lv in
      if n =? 0 then SNone
      else
        let tc := count_tt lv in
        if is_and then
          if tc =? 0 then SReturnLeft
          else if tc =? n then SReturnRight
          else if 5 * tc <=? n then SPreSelection else SNone
        else
          if tc =? n then SReturnLeft
          else if tc =? 0 then SReturnRight
          else if 5 * (n - tc) <=? n then SPreSelection else SNone.

  Definition binop (is_and : bool) : tv -> tv -> tv := if is_and then and3 else or3.
  Definition neutral (is_and : bool) : tv := if is_and then TT else TF.   (* rows whose result depends on the RHS *)
  Definition absorb (is_and : bool) : tv := if is_and then TF else TT.    (* fill_value *)

  Fixpoint scatter (mask : list bool) (rv : list tv) (fill : tv) : list tv :=
    match mask with
    | [] => []
    | true :: mask' => match rv with
                       | y :: rv' => y :: scatter mask' rv' fill
                       | [] => TU :: scatter mask' [] fill
                       end
    | false :: mask' => fill :: scatter mask' rv fill
    end.

  (* the PreSelection arm of BinaryExpr::evaluate *)
  Definition pre_selection_finish (is_and : bool) (lv : list tv) (mask : list bool) (rv : list tv) : list tv :=
    let fill_value := negb is_and in        (* false for AND, true for OR *)
    let scat := scatter mask rv (absorb is_and) in
    if existsb is_TU rv then scat
    else
      let rhs_value := if negb (existsb is_TF rv) then Some true
                       else if negb (existsb is_TT rv) then Some false else None in
      match rhs_value with
      | Some b => if Bool.eqb b fill_value then map (fun _ => absorb is_and) lv else lv
      | None => scat
      end.

  Definition logic_vec (is_and : bool) (l r : cond) (rows : list A) : res (list tv) :=
    lv <- mapM l rows;;
    match check_short_circuit is_and lv with
    | SNone => rv <- mapM r rows;; Ok (map2 (binop is_and) lv rv)
    | SReturnLeft => Ok lv
    | SReturnRight => mapM r rows
    | SPreSelection =>
        let mask := map (tv_eqb (neutral is_and)) lv in
        rv <- mapM r (select mask rows);;
        Ok (pre_selection_finish is_and lv mask rv)
    end.

  (* SQL semantics on one row: both operands evaluated ... *)
  Definition logic_strict (is_and : bool) (l r : cond) (a : A) : res tv :=
    x <- l a;; y <- r a;; Ok (binop is_and x y).
  (* ... or the right operand only when the left one does not already decide the result *)
  Definition logic_lazy (is_and : bool) (l r : cond) (a : A) : res tv :=
    x <- l a;; if tv_eqb x (absorb is_and) then Ok x else y <- r a;; Ok (binop is_and x y).

  (* ---------------------------------------------------------------- 5. evaluate_selection *)
  Fixpoint scatter_opt {X} (mask : list bool) (vs : list X) : list (option X) :=
    match mask with
    | [] => []
    | true :: mask' => match vs with
                       | v :: vs' => Some v :: scatter_opt mask' vs'
                       | [] => None :: scatter_opt mask' []
                       end
    | false :: mask' => None :: scatter_opt mask' vs
    end.
  (* result: Some v at selected rows, None (unspecified / NULL) elsewhere *)
  Definition eval_selection (f : rexpr) (sel : list bool) (rows : list A) : res (list (option value)) :=
    if forallb (fun b => b) sel then vs <- mapM f rows;; Ok (map Some vs)
    else if negb (existsb (fun b => b) sel) then Ok (scatter_opt sel [])
    else vs <- mapM f (select sel rows);; Ok (scatter_opt sel vs).
End CaseMask.

(* ------------------------------------------------------------------ 3. CASE x WHEN lit THEN lit ... lookup table *)
(* LiteralLookupTable::maybe_new: drop NULL WHEN literals, keep the first occurrence of each literal *)
Fixpoint dedup_first (ws : list (value * value)) (seen : list value) : list (value * value) :=
  match ws with
  | [] => []
  | (w, t) :: ws' => if existsb (value_eqb w) seen then dedup_first ws' seen
                     else (w, t) :: dedup_first ws' (w :: seen)
  end.
Definition lookup_table (ws : list (value * value)) : list (value * value) :=
  dedup_first (filter (fun p => negb (is_null (fst p))) ws) [].
Fixpoint index_of (x : value) (keys : list value) : option nat :=
  match keys with
  | [] => None
  | k :: keys' => if value_eqb x k then Some O else option_map S (index_of x keys')
  end.
(* map_to_when_indices + take(then_and_else_values) *)
Definition case_lookup (ws : list (value * value)) (els : value) (x : value) : value :=
  let tbl := lookup_table ws in
  let then_and_else := map snd tbl ++ [els] in
  let else_index := length tbl in
  let idx := if is_null x then else_index
             else match index_of x (map fst tbl) with Some i => i | None => else_index end in
  nth idx then_and_else VNull.
(* row-by-row: CASE x WHEN w1 THEN t1 ... ELSE els END = first branch with x = wi TRUE *)
Fixpoint case_simple_row (ws : list (value * value)) (els : value) (x : value) : value :=
  match ws with
  | [] => els
  | (w, t) :: ws' => match eq3 x w with TT => t | _ => case_simple_row ws' els x end
  end.

(* ------------------------------------------------------------------ the correspondence check *)
Definition c33_fuel : nat := 60.
Definition ev (e : expr) (r : row) : res value := eval_expr c33_fuel [] [r] e.
Definition evc (e : expr) (r : row) : res tv := v <- ev e r;; tv_of_value v.

Definition lit_value (e : expr) : option value := match e with ELit v => Some v | _ => None end.
Fixpoint lit_values (l : list expr) : option (list value) :=
  match l with
  | [] => Some []
  | e :: l' => match lit_value e, lit_values l' with
               | Some v, Some vs => Some (v :: vs)
               | _, _ => None
               end
  end.
(* CASE a WHEN lit THEN lit ... rendered as the searched CASE  WHEN a = lit THEN lit *)
Fixpoint simple_case_branches (ws : list (expr * expr)) : option (list (value * value)) :=
  match ws with
  | [] => Some []
  | (ECmp CEq _ (ELit w), ELit t) :: ws' =>
      match simple_case_branches ws' with Some l => Some ((w, t) :: l) | None => None end
  | _ => None
  end.
Definition simple_case_operand (ws : list (expr * expr)) : option expr :=
  match ws with (ECmp CEq a _, _) :: _ => Some a | _ => None end.

(* strategy kinds: 0 none (row-by-row only), 1 IN static filter, 2 IN dynamic or-chain, 3 CASE masks,
   4 CASE lookup table, 5 AND/OR short circuit, 6 IN static filter with a scalar (literal) needle *)
Definition strat_eval (kind : Z) (e : expr) (rows : list row) : option (res (list value)) :=
  match kind, e with
  | 1, EInList neg a l =>
      match lit_values l with
      | Some vs => Some (xs <- mapM (ev a) rows;; Ok (map value_of_tv (inlist_set_col neg vs xs)))
      | None => None
      end
  | 6, EInList neg (ELit s) l =>
      match lit_values l with
      | Some vs => Some (Ok (map value_of_tv (inlist_set_scalar neg vs s (length rows))))
      | None => None
      end
  | 2, EInList neg a l =>
      Some (xs <- mapM (ev a) rows;;
            cols <- mapM (fun e' => mapM (ev e') rows) l;;
            Ok (map value_of_tv (inlist_or_chain neg xs cols)))
  | 3, ECase ws els =>
      Some (case_mask (map (fun wt => (evc (fst wt), ev (snd wt))) ws)
                      (match els with Some e' => Some (ev e') | None => None end) rows)
  | 4, ECase ws els =>
      match simple_case_operand ws, simple_case_branches ws, els with
      | Some a, Some br, Some (ELit d) => Some (xs <- mapM (ev a) rows;; Ok (map (case_lookup br d) xs))
      | Some a, Some br, None => Some (xs <- mapM (ev a) rows;; Ok (map (case_lookup br VNull) xs))
      | _, _, _ => None
      end
  | 5, EAnd a b => Some (ts <- logic_vec true (evc a) (evc b) rows;; Ok (map value_of_tv ts))
  | 5, EOr a b => Some (ts <- logic_vec false (evc a) (evc b) rows;; Ok (map value_of_tv ts))
  | 0, _ => Some (mapM (ev e) rows)
  | _, _ => None
  end.

Definition col_eqb (a b : list value) : bool := list_eqb value_eqb a b.

(* obs: the engine's column (None: the engine returned an error);
   sel: None = evaluate, Some mask = evaluate_selection (obs holds the values at the selected rows) *)
Inductive c33_case := C33Case (kind : Z) (rows : list row) (sel : option (list bool)) (e : expr) (obs : option (list value)).

(* 0 agree; 1 disagree; 2 the reference (and the strategy model) raise a run-time error on some row (not compared);
   3 ill-formed (renderer / generator defect) *)
Definition c33_verdict (c : c33_case) : Z :=
  match c with
  | C33Case kind rows sel e obs =>
      let rows' := match sel with Some m => select m rows | None => rows end in
      match mapM (ev e) rows' with
      | Err er =>
          (* the strict reference fails on some row; a strategy that evaluates lazily (guarded right side of
             AND / OR under a short-circuit strategy) may still succeed: then its prediction is compared *)
          if runtime_err er then
            match sel, strat_eval kind e rows with
            | None, Some (Ok s) => match obs with Some o => if col_eqb s o then 0 else 1 | None => 1 end
            | _, _ => 2
            end
          else 3
      | Ok vs =>
          match obs with
          | None => 1
          | Some o =>
              if negb (col_eqb o vs) then 1
              else match sel with
                   | Some m =>
                       match eval_selection (ev e) m rows with
                       | Ok out => if list_eqb (opt_eqb value_eqb) (select m out) (map Some o) then 0 else 1
                       | Err _ => 1
                       end
                   | None =>
                       match strat_eval kind e rows with
                       | Some (Ok s) => if col_eqb s o then 0 else 1
                       | Some (Err _) => 1
                       | None => 3
                       end
                   end
          end
      end
  end.
Definition c33_check (c : c33_case) : bool := let v := c33_verdict c in (v =? 0) || (v =? 2).
