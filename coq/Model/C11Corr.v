(* C11 correspondence: agreement tests between the GENERATED model and the
   observations the harness made on the real StrengthReducedU64 (via verif_hooks). *)
From DF Require Import Base.Prelude Base.Bits Gen.StrengthReduced.
Open Scope Z_scope.

Inductive c11_case :=
  | CNew (d : Z) (pow2 : bool) (a r : Z)          (* new(d) = PowerOfTwo{a} / Reciprocal{a, r} *)
  | CQuot (v r q : Z)                             (* quotient(v, r) = q *)
  | CPidx (d : Z) (hashes parts : list Z).        (* partition_indices put hash i into parts[i] *)

Definition sr_eqb (x y : sr) : bool :=
  match x, y with
  | PowerOfTwo a, PowerOfTwo b => a =? b
  | Reciprocal a r, Reciprocal b s => (a =? b) && (r =? s)
  | _, _ => false
  end.

Definition c11_check (c : c11_case) : bool :=
  match c with
  | CNew d pow2 a r =>
      opt_eqb sr_eqb (sr_new d) (Some (if pow2 then PowerOfTwo a else Reciprocal a r))
  | CQuot v r q => zopt_eqb (sr_quotient v r) (Some q)
  | CPidx d hashes parts =>
      list_eqb zopt_eqb (map (partition_of d) hashes) (map Some parts)
  end.
