(* C48 -- DataFrame operations compute the same results as the equivalent SQL.

   Anchors: datafusion/core/src/dataframe/mod.rs (select, filter, aggregate, join, join_on, sort, limit, distinct,
   distinct_on, union[_distinct], union_by_name[_distinct], intersect[_distinct], except[_distinct], with_column,
   with_column_renamed, drop_columns, alias), datafusion/expr/src/logical_plan/builder.rs and plan.rs
   (Union::try_new_by_name / rewrite_inputs_from_schema / derive_schema_from_inputs_by_name).

   Model: a DataFrame-operation AST [dfop] whose columns have NAMES (a qualifier and a name, like DFSchema), and a
   translation [tr : dfop -> option (schema * query)] into the positional reference algebra of Model/RefSQL.v -- "the SQL
   statement with the same meaning".  The name-based operations are translated the way the builder does it:
     with_column      every column whose UNQUALIFIED name equals the new name is replaced by the expression, in place
                      (two such columns make the projection ambiguous: None); otherwise the expression is appended;
     with_column_renamed   a column reference is resolved (qualified: exact; unqualified: must be unique), the column keeps
                      its position and qualifier; an unknown column is a no-op;
     drop_columns     an unqualified reference drops EVERY column of that name, a qualified one exactly that column;
     union_by_name    output columns = the names of the left input followed by the new names of the right input; every
                      input is projected onto them, a missing column is NULL;
     distinct_on      first row per key under the given order ([distinct_on_rel]).
   [None] = the DataFrame call is rejected (ambiguous / unknown column) -- the generator avoids these.
   Definitions only; the theorems about the translation are in Proofs/DataFrameOpsProofs.v. *)
From Coq Require Import List ZArith Bool.
From DF Require Import Base.Prelude Model.RefSQL.
Import ListNotations.
Open Scope Z_scope.

(* ------------------------------------------------------------------ named columns *)
Definition cref := (option Z * Z)%type.            (* (qualifier, name) *)
Definition schema := list cref.

Definition qual_eqb (a b : option Z) : bool :=
  match a, b with Some x, Some y => x =? y | None, None => true | _, _ => false end.
Definition cref_eqb (a b : cref) : bool := qual_eqb (fst a) (fst b) && (snd a =? snd b).
(* a user-supplied reference: unqualified = every column of that name; qualified = exactly that column *)
Definition ref_matches (x c : cref) : bool :=
  (snd x =? snd c) && match fst x with None => true | Some q => qual_eqb (Some q) (fst c) end.
Definition names (s : schema) : list Z := map snd s.
Definition zmem (c : Z) (l : list Z) : bool := existsb (Z.eqb c) l.

Fixpoint index_of (c : Z) (l : list Z) : option nat :=
  match l with
  | [] => None
  | x :: l' => if x =? c then Some O else match index_of c l' with Some i => Some (S i) | None => None end
  end.

Definition col (i : nat) : expr := ECol 0 (Z.of_nat i).
Definition cols (n : nat) : list expr := map col (seq 0 n).

(* ------------------------------------------------------------------ with_column *)
Definition wc_hit (nm : Z) (c : cref) : bool := snd c =? nm.
Definition wc_schema (s : schema) (nm : Z) : schema :=
  map (fun c => if wc_hit nm c then (None, nm) else c) s ++ (if existsb (wc_hit nm) s then [] else [(None, nm)]).
Fixpoint wc_exprs_from (i : nat) (s : schema) (nm : Z) (e : expr) : list expr :=
  match s with
  | [] => []
  | c :: s' => (if wc_hit nm c then e else col i) :: wc_exprs_from (S i) s' nm e
  end.
Definition wc_exprs (s : schema) (nm : Z) (e : expr) : list expr :=
  wc_exprs_from 0 s nm e ++ (if existsb (wc_hit nm) s then [] else [e]).
(* the row it denotes: the value v of the expression replaces the columns named nm, or is appended *)
Fixpoint wc_row (s : schema) (nm : Z) (v : value) (r : row) : row :=
  match s, r with
  | c :: s', x :: r' => (if wc_hit nm c then v else x) :: wc_row s' nm v r'
  | _, _ => []
  end.
Definition wc_row_full (s : schema) (nm : Z) (v : value) (r : row) : row :=
  wc_row s nm v r ++ (if existsb (wc_hit nm) s then [] else [v]).

(* ------------------------------------------------------------------ with_column_renamed *)
Fixpoint positions_from (i : nat) (f : cref -> bool) (s : schema) : list nat :=
  match s with
  | [] => []
  | c :: s' => (if f c then [i] else []) ++ positions_from (S i) f s'
  end.
Definition positions (f : cref -> bool) (s : schema) : list nat := positions_from 0 f s.
Fixpoint rename_at (i : nat) (new : Z) (s : schema) : schema :=
  match s, i with
  | [], _ => []
  | c :: s', O => (fst c, new) :: s'
  | c :: s', S i' => c :: rename_at i' new s'
  end.

(* ------------------------------------------------------------------ drop_columns *)
Definition dropped (cs : list cref) (c : cref) : bool := existsb (fun x => ref_matches x c) cs.
Definition drop_schema (s : schema) (cs : list cref) : schema := filter (fun c => negb (dropped cs c)) s.
Definition drop_exprs (s : schema) (cs : list cref) : list expr :=
  map col (positions (fun c => negb (dropped cs c)) s).
Fixpoint drop_row (s : schema) (cs : list cref) (r : row) : row :=
  match s, r with
  | c :: s', x :: r' => if dropped cs c then drop_row s' cs r' else x :: drop_row s' cs r'
  | _, _ => []
  end.

(* ------------------------------------------------------------------ union_by_name *)
Fixpoint new_names (seen : list Z) (l : list Z) : list Z :=
  match l with
  | [] => []
  | c :: l' => if zmem c seen then new_names seen l' else c :: new_names (c :: seen) l'
  end.
(* derive_schema_from_inputs_by_name: first occurrence order over the inputs *)
Definition ubn_names (sl sr : list Z) : list Z := new_names [] (sl ++ sr).
(* rewrite_inputs_from_schema: the column of that name, or NULL *)
Definition ubn_exprs (out : list Z) (s : list Z) : list expr :=
  map (fun c => match index_of c s with Some i => col i | None => ELit VNull end) out.
(* declaratively: the row re-arranged by name, missing columns NULL *)
Definition align (out : list Z) (s : list Z) (r : row) : row :=
  map (fun c => match index_of c s with Some i => nth i r VNull | None => VNull end) out.
Definition ubn_query (all : bool) (sl sr : list Z) (ql qr : query) : query :=
  let out := ubn_names sl sr in
  QSetOp SUnion all (QProject (ubn_exprs out sl) ql) (QProject (ubn_exprs out sr) qr).
(* value of the column named c in a row laid out by [s] *)
Definition get_named (s : list Z) (r : row) (c : Z) : value :=
  match index_of c s with Some i => nth i r VNull | None => VNull end.

(* ------------------------------------------------------------------ distinct_on *)
Section DistinctOn.
  Context (keyf : row -> row) (leb : row -> row -> bool).
  (* the least row of a non-empty group; the earlier row wins a tie *)
  Definition least (x : row) (l : list row) : row := fold_left (fun b r => if leb b r then b else r) l x.
  (* operational: group by key (first-appearance order of the keys), keep the least row of each group *)
  Definition distinct_on_rel (R : rel) : rel :=
    map (fun g : row * rel => match snd g with [] => fst g | x :: l => least x l end)
        (group_pairs (map (fun r => (keyf r, r)) R)).
End DistinctOn.
Definition pick (is : list Z) (r : row) : row := map (fun i => nth (Z.to_nat i) r VNull) is.
(* DataFrame::distinct_on(on, select, sort) with column arguments: key = the [on] columns, order = the sort columns
   (the harness makes it total by sorting on every column), output = the [sel] columns of the first row of each key *)
Definition distinct_on_cols (on sel : list Z) (sort : list (Z * (bool * bool))) (R : rel) : rel :=
  map (pick sel)
      (distinct_on_rel (pick on)
                       (fun a b => keys_leb (map snd sort) (pick (map fst sort) a) (pick (map fst sort) b)) R).

(* ------------------------------------------------------------------ limit *)
(* DataFrame::limit(skip, fetch) = LIMIT fetch OFFSET skip *)

(* ------------------------------------------------------------------ the operation AST and its translation *)
Inductive sel_item := SCol (i : Z) | SExpr (e : expr) (nm : Z).

Inductive dfop :=
| DTable (n alias w : Z)                                     (* ctx.table("t<n>").alias("a<alias>"): w columns c0.. *)
| DFilter (p : expr) (d : dfop)
| DSelect (items : list sel_item) (d : dfop)                 (* select(col / e.alias(nm)) *)
| DWithColumn (nm : Z) (e : expr) (d : dfop)
| DRename (old : cref) (new : Z) (d : dfop)
| DDrop (cs : list cref) (d : dfop)
| DJoin (k : join_kind) (lk rk : list Z) (filt : option expr) (l r : dfop)   (* join(right, k, left_cols, right_cols, filter) *)
| DJoinOn (k : join_kind) (ons : list expr) (l r : dfop)                     (* join_on(right, k, exprs) *)
| DAggregate (keys : list Z) (aggs : list ((agg_fn * expr) * Z)) (d : dfop) (* aggregate(cols, agg.alias(nm)) *)
| DSort (keys : list (expr * (bool * bool))) (d : dfop)
| DLimit (skip : Z) (fetch : option Z) (d : dfop)
| DDistinct (d : dfop)
| DUnion (all : bool) (l r : dfop)                           (* union / union_distinct *)
| DUnionByName (all : bool) (l r : dfop)                     (* union_by_name / union_by_name_distinct *)
| DIntersect (all : bool) (l r : dfop)                       (* intersect / intersect_distinct *)
| DExcept (all : bool) (l r : dfop).                         (* except / except_distinct *)

Definition obind {A B} (x : option A) (f : A -> option B) : option B := match x with Some a => f a | None => None end.
Fixpoint omap {A B} (f : A -> option B) (l : list A) : option (list B) :=
  match l with
  | [] => Some []
  | x :: l' => obind (f x) (fun y => obind (omap f l') (fun ys => Some (y :: ys)))
  end.

Fixpoint conj (es : list expr) : expr :=
  match es with
  | [] => ELit (VBool true)
  | [e] => e
  | e :: es' => EAnd e (conj es')
  end.
Definition key_eqs (wl : Z) (lk rk : list Z) : list expr :=
  map (fun p : Z * Z => ECmp CEq (ECol 0 (fst p)) (ECol 0 (wl + snd p))) (combine lk rk).
Definition nodup_names (s : schema) : bool := Nat.eqb (length (new_names [] (names s))) (length s).

Fixpoint tr (d : dfop) : option (schema * query) :=
  match d with
  | DTable n a w => Some (map (fun i => (Some a, Z.of_nat i)) (seq 0 (Z.to_nat w)), QTable n)
  | DFilter p d1 => obind (tr d1) (fun sq => Some (fst sq, QFilter p (snd sq)))
  | DSelect items d1 =>
      obind (tr d1) (fun sq =>
      obind (omap (fun it => match it with
                             | SCol i => nth_error (fst sq) (Z.to_nat i)
                             | SExpr _ nm => Some (None, nm)
                             end) items) (fun sch =>
      Some (sch, QProject (map (fun it => match it with SCol i => ECol 0 i | SExpr e _ => e end) items) (snd sq))))
  | DWithColumn nm e d1 =>
      obind (tr d1) (fun sq =>
      if (2 <=? length (positions (wc_hit nm) (fst sq)))%nat then None
      else Some (wc_schema (fst sq) nm, QProject (wc_exprs (fst sq) nm e) (snd sq)))
  | DRename old new d1 =>
      obind (tr d1) (fun sq =>
      match positions (ref_matches old) (fst sq) with
      | [] => Some sq
      | [i] => Some (rename_at i new (fst sq), snd sq)
      | _ => None
      end)
  | DDrop cs d1 =>
      obind (tr d1) (fun sq =>
      if forallb (fun x => match fst x with Some _ => existsb (ref_matches x) (fst sq) | None => true end) cs
      then Some (drop_schema (fst sq) cs, QProject (drop_exprs (fst sq) cs) (snd sq))
      else None)
  | DJoin k lk rk filt l r =>
      obind (tr l) (fun a => obind (tr r) (fun b =>
      let wl := len (fst a) in
      Some (fst a ++ fst b,
            QJoin k wl (len (fst b)) (conj (key_eqs wl lk rk ++ match filt with Some f => [f] | None => [] end)) (snd a) (snd b))))
  | DJoinOn k ons l r =>
      obind (tr l) (fun a => obind (tr r) (fun b =>
      Some (fst a ++ fst b, QJoin k (len (fst a)) (len (fst b)) (conj ons) (snd a) (snd b))))
  | DAggregate keys aggs d1 =>
      obind (tr d1) (fun sq =>
      obind (omap (fun i => nth_error (fst sq) (Z.to_nat i)) keys) (fun ks =>
      Some (ks ++ map (fun a : (agg_fn * expr) * Z => (None, snd a)) aggs,
            QGroup (map (fun i => ECol 0 i) keys) (map fst aggs) None (snd sq))))
  | DSort keys d1 => obind (tr d1) (fun sq => Some (fst sq, QSort keys (snd sq)))
  | DLimit skip fetch d1 => obind (tr d1) (fun sq => Some (fst sq, QLimit skip fetch (snd sq)))
  | DDistinct d1 => obind (tr d1) (fun sq => Some (fst sq, QDistinct (snd sq)))
  | DUnion all l r =>
      obind (tr l) (fun a => obind (tr r) (fun b =>
      if Nat.eqb (length (fst a)) (length (fst b)) && nodup_names (fst a)
      then Some (map (fun c => (None, snd c)) (fst a), QSetOp SUnion all (snd a) (snd b)) else None))
  | DUnionByName all l r =>
      obind (tr l) (fun a => obind (tr r) (fun b =>
      if nodup_names (fst a) && nodup_names (fst b)
      then Some (map (fun c => (None, c)) (ubn_names (names (fst a)) (names (fst b))),
                 ubn_query all (names (fst a)) (names (fst b)) (snd a) (snd b))
      else None))
  | DIntersect all l r =>
      obind (tr l) (fun a => obind (tr r) (fun b =>
      if Nat.eqb (length (fst a)) (length (fst b)) && nodup_names (fst a) && nodup_names (fst b)
      then Some (fst a, QSetOp SIntersect all (snd a) (snd b)) else None))
  | DExcept all l r =>
      obind (tr l) (fun a => obind (tr r) (fun b =>
      if Nat.eqb (length (fst a)) (length (fst b)) && nodup_names (fst a) && nodup_names (fst b)
      then Some (fst a, QSetOp SExcept all (snd a) (snd b)) else None))
  end.

Definition to_query (d : dfop) : option query := option_map snd (tr d).
Definition schema_of (d : dfop) : option schema := option_map fst (tr d).

(* ------------------------------------------------------------------ correspondence with the harness
   One case: the tables, the operation pipeline (optionally finished by distinct_on), the field names of the DataFrame's
   schema, and the rows returned by ONE execution (DataFrame API, or the SQL text rendered from the translation).
   verdict: 0 agree, 1 rows disagree, 2 reference run-time error, 3 ill-formed, 4 pipeline not translatable, 6 names differ *)
Inductive c48_tail := TNone | TDistinctOn (on sel : list Z) (sort : list (Z * (bool * bool))).
Inductive c48_case := C48Case (d : db) (p : dfop) (t : c48_tail) (obs_names : option (list Z)) (obs : option rel).

Definition pick_names (sel : list Z) (s : schema) : list Z := map (fun i => snd (nth (Z.to_nat i) s (None, -1))) sel.
Definition c48_verdict (c : c48_case) : Z :=
  match c with
  | C48Case d p t obs_names obs =>
      match tr p with
      | None => 4
      | Some (s, q) =>
          let names_ok := match obs_names, t with
                          | None, _ => true
                          | Some ns, TNone => list_eqb Z.eqb ns (names s)
                          | Some ns, TDistinctOn _ sel _ => list_eqb Z.eqb ns (pick_names sel s)
                          end in
          if negb names_ok then 6 else
          match t with
          | TNone => c01_verdict (C01Case d q obs)
          | TDistinctOn on sel sort =>
              match run_query d q, obs with
              | Ok R, Some o => if bag_eqb o (distinct_on_cols on sel sort R) then 0 else 1
              | Ok _, None => 1
              | Err e, _ => if runtime_err e then 2 else 3
              end
          end
      end
  end.
Definition c48_check (c : c48_case) : bool := let v := c48_verdict c in (v =? 0) || (v =? 2).
Definition c48_agree (c : c48_case) : bool := c48_verdict c =? 0.
Definition c48_wellformed (c : c48_case) : bool := let v := c48_verdict c in (v =? 0) || (v =? 1) || (v =? 2).
