(* C44 -- files whose physical schema differs from the table schema are read faithfully.

   Model of
     datafusion/physical-expr-adapter/src/schema_rewriter.rs
       DefaultPhysicalExprAdapterRewriter::{rewrite_expr, rewrite_column, resolve_physical_column}
       BatchAdapterFactory::make_adapter / BatchAdapter::adapt_batch  (the successor of the removed
       SchemaAdapter / SchemaMapping::map_batch of datafusion/datasource/src/schema_adapter.rs, which in the
       pinned tree only returns not_impl errors)
   for flat schemas over the type lattice {Int32, Int64} / {Utf8, LargeUtf8} / {Boolean}.

   Definitions only (proofs: Proofs/SchemaAdaptProofs.v). *)
From DF Require Import Base.Prelude.
Open Scope Z_scope.

(* ---------- schemas ---------- *)
Inductive ty := TInt32 | TInt64 | TUtf8 | TLargeUtf8 | TBool.

Definition ty_eqb (a b : ty) : bool :=
  match a, b with
  | TInt32, TInt32 | TInt64, TInt64 | TUtf8, TUtf8 | TLargeUtf8, TLargeUtf8 | TBool, TBool => true
  | _, _ => false
  end.

Definition name := list Z.            (* UTF-8 bytes; comparison is exact (case sensitive) as Schema::index_of *)

Record field := mkField { fname : name; fty : ty; fnullable : bool }.
Definition schema := list field.

(* arrow Field == Field : name, data type, nullability (metadata: none in the modelled fragment) *)
Definition field_eqb (a b : field) : bool :=
  zlist_eqb (fname a) (fname b) && ty_eqb (fty a) (fty b) && Bool.eqb (fnullable a) (fnullable b).

(* Schema::index_of / field_with_name : the FIRST field with that name *)
Fixpoint find_from (n : name) (s : schema) (i : nat) : option (nat * field) :=
  match s with
  | [] => None
  | f :: r => if zlist_eqb (fname f) n then Some (i, f) else find_from n r (S i)
  end.
Definition find_field (n : name) (s : schema) : option (nat * field) := find_from n s 0%nat.

(* ---------- values ---------- *)
Inductive value :=
| VNull
| VI32 (z : Z)
| VI64 (z : Z)
| VUtf8 (s : list Z)
| VLUtf8 (s : list Z)
| VBool (b : bool).
Definition row := list value.

Definition value_eqb (a b : value) : bool :=
  match a, b with
  | VNull, VNull => true
  | VI32 x, VI32 y | VI64 x, VI64 y => x =? y
  | VUtf8 x, VUtf8 y | VLUtf8 x, VLUtf8 y => zlist_eqb x y
  | VBool x, VBool y => Bool.eqb x y
  | _, _ => false
  end.

Definition has_ty (t : ty) (v : value) : bool :=
  match v, t with
  | VNull, _ => true
  | VI32 z, TInt32 => (-2147483648 <=? z) && (z <=? 2147483647)
  | VI64 z, TInt64 => (-9223372036854775808 <=? z) && (z <=? 9223372036854775807)
  | VUtf8 _, TUtf8 | VLUtf8 _, TLargeUtf8 | VBool _, TBool => true
  | _, _ => false
  end.

Fixpoint row_typed (s : schema) (r : row) : bool :=
  match s, r with
  | [], [] => true
  | f :: s', v :: r' => has_ty (fty f) v && row_typed s' r'
  | _, _ => false
  end.

Definition is_null (v : value) : bool := match v with VNull => true | _ => false end.

(* arrow cast kernel with safe = false (DataFusion's DEFAULT_CAST_OPTIONS): None = the cast raises an error.
   Pairs outside the modelled lattice (integer <-> string, boolean <-> anything else) are NOT modelled: the
   harness never sends them to the model and decides them by the direct oracle only. *)
Definition cast_value (t : ty) (v : value) : option value :=
  match v, t with
  | VNull, _ => Some VNull
  | VI32 z, TInt32 => Some (VI32 z)
  | VI32 z, TInt64 => Some (VI64 z)
  | VI64 z, TInt64 => Some (VI64 z)
  | VI64 z, TInt32 => if (-2147483648 <=? z) && (z <=? 2147483647) then Some (VI32 z) else None
  | VUtf8 s, TUtf8 => Some (VUtf8 s)
  | VUtf8 s, TLargeUtf8 => Some (VLUtf8 s)
  | VLUtf8 s, TLargeUtf8 => Some (VLUtf8 s)
  | VLUtf8 s, TUtf8 => Some (VUtf8 s)
  | VBool b, TBool => Some (VBool b)
  | _, _ => None
  end.

(* arrow::compute::can_cast_types on the five modelled types: every pair is castable (the harness observes
   can_cast_types for all 25 pairs on every run and the model is compared with it). *)
Definition castable (from to : ty) : bool := true.

(* ---------- expressions (PhysicalExpr fragment) ---------- *)
Inductive cmpop := OEq | ONe | OLt | OLe | OGt | OGe.

Inductive expr :=
| ECol (n : name) (i : nat)            (* expressions::Column { name, index } *)
| ELit (v : value)                     (* expressions::Literal *)
| ECast (e : expr) (t : ty)            (* expressions::CastExpr, default (unsafe = erroring) options *)
| ECmp (o : cmpop) (a b : expr)        (* BinaryExpr with a comparison operator *)
| EAnd (a b : expr)
| EOr (a b : expr)
| ENot (a : expr)
| EIsNull (a : expr)
| EIsNotNull (a : expr).

Fixpoint lex_cmp (a b : list Z) : comparison :=
  match a, b with
  | [], [] => Eq
  | [], _ => Lt
  | _, [] => Gt
  | x :: a', y :: b' => match x ?= y with Eq => lex_cmp a' b' | c => c end
  end.

Definition cmp_res (o : cmpop) (c : comparison) : bool :=
  match o, c with
  | OEq, Eq | ONe, Lt | ONe, Gt | OLt, Lt | OLe, Lt | OLe, Eq | OGt, Gt | OGe, Gt | OGe, Eq => true
  | _, _ => false
  end.

Definition bool_cmp (a b : bool) : comparison :=
  match a, b with false, true => Lt | true, false => Gt | _, _ => Eq end.

(* arrow cmp kernels: operands must have the same data type (None = "Invalid comparison operation") *)
Definition cmp_values (o : cmpop) (a b : value) : option value :=
  match a, b with
  | VNull, _ => Some VNull
  | _, VNull => Some VNull
  | VI32 x, VI32 y | VI64 x, VI64 y => Some (VBool (cmp_res o (x ?= y)))
  | VUtf8 x, VUtf8 y | VLUtf8 x, VLUtf8 y => Some (VBool (cmp_res o (lex_cmp x y)))
  | VBool x, VBool y => Some (VBool (cmp_res o (bool_cmp x y)))
  | _, _ => None
  end.

(* three-valued booleans: None = type error, Some None = NULL *)
Definition to_tv (v : value) : option (option bool) :=
  match v with VNull => Some None | VBool b => Some (Some b) | _ => None end.
Definition of_tv (x : option bool) : value := match x with None => VNull | Some b => VBool b end.
Definition and3 (x y : option bool) : option bool :=
  match x, y with
  | Some false, _ | _, Some false => Some false
  | Some true, Some true => Some true
  | _, _ => None
  end.
Definition or3 (x y : option bool) : option bool :=
  match x, y with
  | Some true, _ | _, Some true => Some true
  | Some false, Some false => Some false
  | _, _ => None
  end.
Definition not3 (x : option bool) : option bool := option_map negb x.

Definition bind {A B} (x : option A) (f : A -> option B) : option B :=
  match x with Some a => f a | None => None end.

(* row-wise evaluation; None = evaluation error *)
Fixpoint eval (e : expr) (r : row) : option value :=
  match e with
  | ECol _ i => nth_error r i
  | ELit v => Some v
  | ECast a t => bind (eval a r) (cast_value t)
  | ECmp o a b => bind (eval a r) (fun x => bind (eval b r) (fun y => cmp_values o x y))
  | EAnd a b => bind (eval a r) (fun x => bind (eval b r) (fun y =>
                  bind (to_tv x) (fun p => bind (to_tv y) (fun q => Some (of_tv (and3 p q))))))
  | EOr a b => bind (eval a r) (fun x => bind (eval b r) (fun y =>
                  bind (to_tv x) (fun p => bind (to_tv y) (fun q => Some (of_tv (or3 p q))))))
  | ENot a => bind (eval a r) (fun x => bind (to_tv x) (fun p => Some (of_tv (not3 p))))
  | EIsNull a => bind (eval a r) (fun x => Some (VBool (is_null x)))
  | EIsNotNull a => bind (eval a r) (fun x => Some (VBool (negb (is_null x))))
  end.

Fixpoint mapM {A B} (f : A -> option B) (l : list A) : option (list B) :=
  match l with
  | [] => Some []
  | x :: r => match f x, mapM f r with Some y, Some ys => Some (y :: ys) | _, _ => None end
  end.

(* ---------- the rewriter (model of the code) ---------- *)
(* rewrite_column: the column's own index is ignored, both schemas are searched by name *)
Definition rewrite_col (tbl file : schema) (n : name) : option expr :=
  let logical :=
    match find_field n tbl with
    | Some (_, f) => Some f
    | None => match find_field n file with Some (_, f) => Some f | None => None end
    end in
  match logical with
  | None => None                                       (* unknown in both schemas: error *)
  | Some lf =>
      match find_field n file with
      | None => if fnullable lf then Some (ELit VNull) else None
      | Some (j, pf) =>
          if field_eqb lf pf then Some (ECol n j)
          else if castable (fty pf) (fty lf) then Some (ECast (ECol n j) (fty lf))
          else None
      end
  end.

Definition lift2 (c : expr -> expr -> expr) (a b : option expr) : option expr :=
  match a, b with Some x, Some y => Some (c x y) | _, _ => None end.

(* TreeNode::transform (bottom-up) with rewrite_expr at every node: only Column leaves change *)
Fixpoint rewrite (tbl file : schema) (e : expr) : option expr :=
  match e with
  | ECol n _ => rewrite_col tbl file n
  | ELit v => Some (ELit v)
  | ECast a t => option_map (fun a' => ECast a' t) (rewrite tbl file a)
  | ECmp o a b => lift2 (ECmp o) (rewrite tbl file a) (rewrite tbl file b)
  | EAnd a b => lift2 EAnd (rewrite tbl file a) (rewrite tbl file b)
  | EOr a b => lift2 EOr (rewrite tbl file a) (rewrite tbl file b)
  | ENot a => option_map ENot (rewrite tbl file a)
  | EIsNull a => option_map EIsNull (rewrite tbl file a)
  | EIsNotNull a => option_map EIsNotNull (rewrite tbl file a)
  end.

Fixpoint cols_from (s : schema) (i : nat) : list (field * expr) :=
  match s with [] => [] | f :: r => (f, ECol (fname f) i) :: cols_from r (S i) end.

(* BatchAdapterFactory::make_adapter + BatchAdapter::adapt_batch on one row:
   projection [Column(name_i, i)] over the target schema, every expression rewritten, evaluated on the
   file row.  None = error.  (A NULL read from a nullable file column into a table column declared
   non-nullable is passed through: the implementation does not reject it.) *)
Definition batch_adapter_row (tbl file : schema) (r : row) : option row :=
  mapM (fun fe => bind (rewrite tbl file (snd fe)) (fun e' => eval e' r)) (cols_from tbl 0%nat).

(* ---------- the specification ---------- *)
(* each table column takes the value of the same-named file column, cast to the table type if the types
   differ, NULL if the file has no such column (error if the table column is not nullable) *)
Definition adapt_col (file : schema) (r : row) (tf : field) : option value :=
  match find_field (fname tf) file with
  | None => if fnullable tf then Some VNull else None
  | Some (j, pf) =>
      bind (nth_error r j) (fun v => if ty_eqb (fty pf) (fty tf) then Some v else cast_value (fty tf) v)
  end.
Definition adapt_row (tbl file : schema) (r : row) : option row := mapM (adapt_col file r) tbl.
Definition adapt_batch (tbl file : schema) (rows : list row) : option (list row) :=
  mapM (adapt_row tbl file) rows.

(* the schema pair alone decides whether an adapter can be built: BatchAdapterFactory::make_adapter fails,
   whatever the rows (also for an empty batch), when a non-nullable table column is missing from the file *)
Definition adaptable (tbl file : schema) : bool :=
  forallb (fun tf => match find_field (fname tf) file with Some _ => true | None => fnullable tf end) tbl.
Definition adapt_batch_impl (tbl file : schema) (rows : list row) : option (list row) :=
  if adaptable tbl file then adapt_batch tbl file rows else None.
(* make_adapter (rewrite every identity column) then adapt_batch *)
Definition batch_adapter (tbl file : schema) (rows : list row) : option (list row) :=
  match mapM (fun fe => rewrite tbl file (snd fe)) (cols_from tbl 0%nat) with
  | None => None
  | Some _ => mapM (batch_adapter_row tbl file) rows
  end.

(* a predicate selects a row iff it evaluates to TRUE (NULL and errors do not select) *)
Definition selects (p : expr) (r : row) : bool :=
  match eval p r with Some (VBool true) => true | _ => false end.

(* expression over the table schema: every column reference carries the index of the first field of
   that name (what the planner produces) *)
Fixpoint wf_expr (tbl : schema) (e : expr) : bool :=
  match e with
  | ECol n i => match find_field n tbl with Some (j, _) => Nat.eqb i j | None => false end
  | ELit _ => true
  | ECast a _ | ENot a | EIsNull a | EIsNotNull a => wf_expr tbl a
  | ECmp _ a b | EAnd a b | EOr a b => wf_expr tbl a && wf_expr tbl b
  end.

Fixpoint names_nodup (seen : list name) (s : schema) : bool :=
  match s with
  | [] => true
  | f :: r => negb (existsb (zlist_eqb (fname f)) seen) && names_nodup (fname f :: seen) r
  end.

(* ---------- correspondence cases ---------- *)
Fixpoint expr_eqb (a b : expr) : bool :=
  match a, b with
  | ECol n i, ECol m j => zlist_eqb n m && Nat.eqb i j
  | ELit v, ELit w => value_eqb v w
  | ECast x t, ECast y u => expr_eqb x y && ty_eqb t u
  | ECmp o x1 x2, ECmp o' y1 y2 =>
      (match o, o' with OEq, OEq | ONe, ONe | OLt, OLt | OLe, OLe | OGt, OGt | OGe, OGe => true | _, _ => false end)
      && expr_eqb x1 y1 && expr_eqb x2 y2
  | EAnd x1 x2, EAnd y1 y2 | EOr x1 x2, EOr y1 y2 => expr_eqb x1 y1 && expr_eqb x2 y2
  | ENot x, ENot y | EIsNull x, EIsNull y | EIsNotNull x, EIsNotNull y => expr_eqb x y
  | _, _ => false
  end.

Definition row_eqb := list_eqb value_eqb.
Definition rows_eqb := list_eqb row_eqb.
Definition is_none {A} (x : option A) : bool := match x with None => true | Some _ => false end.

Inductive c44_case :=
(* can_cast_types(from, to) observed *)
| CCastable (from to : ty) (obs : bool)
(* DefaultPhysicalExprAdapter::rewrite(p): observed expression tree (None = Err) *)
| CRewrite (tbl file : schema) (p : expr) (obs : option expr)
(* BatchAdapter::adapt_batch(rows): observed rows (None = Err) *)
| CAdapt (tbl file : schema) (rows : list row) (obs : option (list row))
(* rewritten predicate evaluated on the file rows (obs_push) and the original predicate evaluated on
   the adapted rows (obs_post); None = Err *)
| CEval (tbl file : schema) (p : expr) (rows : list row) (obs_push obs_post : option (list value)).

Definition c44_check (c : c44_case) : bool :=
  match c with
  | CCastable a b obs => Bool.eqb (castable a b) obs
  | CRewrite tbl file p obs => opt_eqb expr_eqb (rewrite tbl file p) obs
  | CAdapt tbl file rows obs =>
      opt_eqb rows_eqb (adapt_batch_impl tbl file rows) obs
      && opt_eqb rows_eqb (batch_adapter tbl file rows) obs
  | CEval tbl file p rows obs_push obs_post =>
      (match rewrite tbl file p with
       | None => is_none obs_push
       | Some p' =>
           (* the columnar engine may skip a failing cast (short-circuit AND/OR): only error-free
              model evaluations are compared *)
           match mapM (eval p') rows with
           | Some vs => opt_eqb row_eqb (Some vs) obs_push
           | None => true
           end
       end)
      && (match adapt_batch_impl tbl file rows with
          | None => is_none obs_post
          | Some rows' =>
              match mapM (eval p) rows' with
              | Some vs => opt_eqb row_eqb (Some vs) obs_post
              | None => true
              end
          end)
  end.
