(* C52 -- executable model of identifier quoting and multipart-identifier parsing.

   Rust code modelled (datafusion-common built with feature "sql", as the datafusion crate does):
     datafusion/common/src/utils/mod.rs      needs_quotes, quote_identifier, parse_identifiers,
                                             parse_identifiers_normalized
     datafusion/common/src/table_reference.rs TableReference::{to_quoted_string, Display, parse_str,
                                             parse_str_normalized, from_vec, to_vec}
     datafusion/common/src/column.rs          Column::{quoted_flat_name, flat_name, from_idents,
                                             from_qualified_name, from_qualified_name_ignore_case}
     sqlparser 0.62 (GenericDialect)          Tokenizer::next_token / tokenize_word / parse_quoted_ident,
                                             Parser::next_token (skips whitespace),
                                             Parser::parse_multipart_identifier

   Strings are lists of Unicode code points ([N]); the Rust code iterates over [char]s.
   Definitions only.  Proofs are in Proofs/IdentsProofs.v. *)
From Coq Require Import List NArith Bool.
From DF Require Import Base.Prelude.
Import ListNotations.
Local Open Scope N_scope.

Definition str := list N.

Definition in_range (lo hi c : N) : bool := (lo <=? c) && (c <=? hi).
Definition is_lower (c : N) : bool := in_range 97 122 c.   (* char::is_ascii_lowercase *)
Definition is_upper (c : N) : bool := in_range 65 90 c.    (* char::is_ascii_uppercase *)
Definition is_digit (c : N) : bool := in_range 48 57 c.    (* char::is_ascii_digit *)

(* ------------------------------------------------------------------ utils/mod.rs *)
Definition plain_first (c : N) : bool := is_lower c || (c =? 95).
Definition plain_rest (c : N) : bool := is_lower c || is_digit c || (c =? 95).

(* fn needs_quotes: the first char must be [a-z_], all others [a-z0-9_].
   For the empty string chars.next() is None and all() of nothing is true: result false. *)
Definition needs_quotes (s : str) : bool :=
  match s with
  | [] => false
  | c :: r => if negb (plain_first c) then true else negb (forallb plain_rest r)
  end.

(* s.replace(DQUOTE, DQUOTE DQUOTE): every double quote (34) is doubled *)
Fixpoint escape_dq (s : str) : str :=
  match s with
  | [] => []
  | c :: r => if c =? 34 then 34 :: 34 :: escape_dq r else c :: escape_dq r
  end.

Definition quote_identifier (s : str) : str :=
  if needs_quotes s then 34 :: escape_dq s ++ [34] else s.

(* ------------------------------------------------------------------ table_reference.rs *)
Inductive tref :=
  | Bare (table : str)
  | Partial (schema table : str)
  | Full (catalog schema table : str).

Definition to_quoted_string (r : tref) : str :=
  match r with
  | Bare t => quote_identifier t
  | Partial s t => quote_identifier s ++ [46] ++ quote_identifier t
  | Full c s t => quote_identifier c ++ [46] ++ quote_identifier s ++ [46] ++ quote_identifier t
  end.

(* impl Display *)
Definition display (r : tref) : str :=
  match r with
  | Bare t => t
  | Partial s t => s ++ [46] ++ t
  | Full c s t => c ++ [46] ++ s ++ [46] ++ t
  end.

Definition to_vec (r : tref) : list str :=
  match r with
  | Bare t => [t]
  | Partial s t => [s; t]
  | Full c s t => [c; s; t]
  end.

Definition from_vec (parts : list str) : option tref :=
  match parts with
  | [t] => Some (Bare t)
  | [s; t] => Some (Partial s t)
  | [c; s; t] => Some (Full c s t)
  | _ => None
  end.

(* ------------------------------------------------------------------ column.rs *)
Record column := mkcol { relation : option tref; name : str }.

Definition quoted_flat_name (c : column) : str :=
  match relation c with
  | Some r => to_quoted_string r ++ [46] ++ quote_identifier (name c)
  | None => quote_identifier (name c)
  end.

Definition flat_name (c : column) : str :=
  match relation c with
  | Some r => display r ++ [46] ++ name c
  | None => name c
  end.

Definition from_idents (ids : list str) : option column :=
  match ids with
  | [n] => Some (mkcol None n)
  | [t; n] => Some (mkcol (Some (Bare t)) n)
  | [s; t; n] => Some (mkcol (Some (Partial s t)) n)
  | [c; s; t; n] => Some (mkcol (Some (Full c s t)) n)
  | _ => None
  end.

(* ------------------------------------------------------------------ sqlparser slice *)
Inductive token :=
  | TWord (value : str) (quote_style : option N)
  | TPeriod
  | TSpace.                       (* any Token::Whitespace(..) *)

Definition ident := (str * option N)%type.    (* sqlparser Ident { value, quote_style } *)

Definition hd_is (c : N) (s : str) : bool :=
  match s with d :: _ => d =? c | [] => false end.
Definition one_of (l : list N) (c : N) : bool := existsb (N.eqb c) l.

Fixpoint take_while (p : N -> bool) (s : str) : str * str :=   (* peeking_take_while *)
  match s with
  | [] => ([], [])
  | c :: r => if p c then let (a, b) := take_while p r in (c :: a, b) else ([], s)
  end.

(* Tokenizer::parse_quoted_ident + tokenize_quoted_identifier (unescape = true), called after the
   opening quote was consumed: Some (value, rest after the closing quote), None = unterminated *)
Fixpoint quoted_ident (q : N) (s : str) : option (str * str) :=
  match s with
  | [] => None
  | c :: r =>
      if c =? q then
        match r with
        | d :: r' =>
            if d =? q
            then match quoted_ident q r' with Some (v, rest) => Some (q :: v, rest) | None => None end
            else Some ([], r)
        | [] => Some ([], [])
        end
      else match quoted_ident q r with Some (v, rest) => Some (c :: v, rest) | None => None end
  end.

Definition ascii_lower (c : N) : N := if is_upper c then c + 32 else c.   (* to_ascii_lowercase *)

Section Tokenizer.
  (* char::is_alphabetic / char::is_whitespace on non-ASCII code points: external Unicode tables.
     The theorems hold for every such table; the correspondence check instantiates them with the
     values the Rust standard library reports for the characters it generates. *)
  Variable uni_alpha : N -> bool.
  Variable uni_space : N -> bool.

  Definition is_alphabetic (c : N) : bool :=
    if c <? 128 then is_lower c || is_upper c else uni_alpha c.
  Definition is_whitespace (c : N) : bool :=
    if c <? 128 then in_range 9 13 c || (c =? 32) else uni_space c.

  (* GenericDialect *)
  Definition is_ident_start (c : N) : bool :=
    is_alphabetic c || (c =? 95) || (c =? 35) || (c =? 64).
  Definition is_ident_part (c : N) : bool :=
    is_alphabetic c || is_digit c || (c =? 64) || (c =? 36) || (c =? 35) || (c =? 95).

  (* tokenize_word(first, chars) -> Token::make_word(_, None) *)
  Definition lex_word (first rest : str) : option (token * str) :=
    let (w, rest') := take_while is_ident_part rest in Some (TWord (first ++ w) None, rest').

  (* Tokenizer::next_token on a non-empty input, with prev_token = buf.last().
     None = the tokenizer reports an error OR produces a token that is neither a Word, a Period nor
     whitespace; parse_multipart_identifier fails in both cases (every such token makes it return
     Err, and a tokenizer error makes try_with_sql return Err), so they need not be distinguished.
     Not modelled (treated as None): tokens starting with - / # @ (comments, #ident, @ident). *)
  Definition next_token (s : str) (prev : option token) : option (token * str) :=
    match s with
    | [] => None
    | c :: r =>
        if one_of [32; 9; 10] c then Some (TSpace, r)
        else if c =? 13 then Some (TSpace, if hd_is 10 r then tl r else r)
        else if one_of [66; 98; 82; 114] c then            (* B b R r : byte / raw string literals *)
          if hd_is 39 r || hd_is 34 r then None else lex_word [c] r
        else if one_of [78; 110] c then                    (* N n : national literals, nq'..' *)
          if hd_is 39 r then None
          else match r with
               | d :: r' =>
                   if one_of [113; 81] d
                   then (if hd_is 39 r' then None else lex_word [c; d] r')
                   else lex_word [c] r
               | [] => lex_word [c] r
               end
        else if one_of [81; 113; 69; 101; 88; 120] c then  (* Q q E e X x followed by ' *)
          if hd_is 39 r then None else lex_word [c] r
        else if one_of [85; 117] c then                    (* U u : U&'..' *)
          if hd_is 38 r && hd_is 39 (tl r) then None else lex_word [c] r
        else if c =? 39 then None                          (* single quoted string *)
        else if (c =? 34) || (c =? 96) then                (* delimited identifier: double quote or backtick *)
          match quoted_ident c r with
          | Some (v, rest) => Some (TWord v (Some c), rest)
          | None => None
          end
        else if is_digit c then None                       (* a Number / hex literal *)
        else if c =? 46 then
          if hd_is 95 r
          then match prev with Some (TWord _ _) => Some (TPeriod, r) | _ => None end
          else let (ds, rest) := take_while is_digit r in
               match ds with [] => Some (TPeriod, rest) | _ => None end
        else if one_of [45; 47; 35; 64] c then None        (* not modelled *)
        else if is_ident_start c then lex_word [c] r
        else if is_whitespace c then Some (TSpace, r)
        else None
    end.

  (* Tokenizer::tokenize_with_location: every token consumes at least one character, so
     fuel = length of the input always suffices (tokenize_fuel_irrelevant). *)
  Fixpoint tokenize (fuel : nat) (s : str) (prev : option token) : option (list token) :=
    match s with
    | [] => Some []
    | _ :: _ =>
        match fuel with
        | O => None
        | S f =>
            match next_token s prev with
            | None => None
            | Some (t, rest) =>
                match tokenize f rest (Some t) with
                | Some ts => Some (t :: ts)
                | None => None
                end
            end
        end
    end.

  Definition not_space (t : token) : bool := match t with TSpace => false | _ => true end.

  (* the loop of parse_multipart_identifier after the first word: (Period Word)* EOF *)
  Fixpoint parse_more (toks : list token) : option (list ident) :=
    match toks with
    | [] => Some []
    | TPeriod :: TWord v q :: rest =>
        match parse_more rest with Some l => Some ((v, q) :: l) | None => None end
    | _ => None
    end.

  Definition parse_multipart (toks : list token) : option (list ident) :=
    match filter not_space toks with
    | TWord v q :: rest =>
        match parse_more rest with Some l => Some ((v, q) :: l) | None => None end
    | _ => None
    end.

  (* utils::parse_identifiers (feature sql) *)
  Definition parse_identifiers (s : str) : option (list ident) :=
    match tokenize (length s) s None with
    | Some toks => parse_multipart toks
    | None => None
    end.

  Definition normalize (ignore_case : bool) (id : ident) : str :=
    match snd id with
    | Some _ => fst id
    | None => if ignore_case then fst id else map ascii_lower (fst id)
    end.

  (* utils::parse_identifiers_normalized: unwrap_or_default() then per-ident normalisation *)
  Definition parse_identifiers_normalized (s : str) (ignore_case : bool) : list str :=
    match parse_identifiers s with
    | Some ids => map (normalize ignore_case) ids
    | None => []
    end.

  Definition parse_str_normalized (s : str) (ignore_case : bool) : tref :=
    match from_vec (parse_identifiers_normalized s ignore_case) with
    | Some r => r
    | None => Bare s
    end.
  Definition parse_str (s : str) : tref := parse_str_normalized s false.

  Definition from_qualified_name_ic (s : str) (ignore_case : bool) : column :=
    match from_idents (parse_identifiers_normalized s ignore_case) with
    | Some c => c
    | None => mkcol None s
    end.
  Definition from_qualified_name (s : str) : column := from_qualified_name_ic s false.
End Tokenizer.

(* ------------------------------------------------------------------ fallback parser (no sqlparser) *)
(* utils/mod.rs, cfg(not(feature = sql)): what datafusion-common uses when built WITHOUT the sql
   feature.  parse_identifiers: one pass over the chars; a double quote toggles in_quotes and is kept;
   a '.' outside quotes ends the current piece; the last piece is pushed only if it is non-empty.
   [cur] and [acc] are the Rust locals current / result, kept reversed. *)
Fixpoint split_ns (s : str) (in_quotes : bool) (cur : str) (acc : list str) : list str :=
  match s with
  | [] => rev (match cur with [] => acc | _ => rev cur :: acc end)
  | c :: r =>
      if c =? 34 then split_ns r (negb in_quotes) (c :: cur) acc
      else if (c =? 46) && negb in_quotes then split_ns r in_quotes [] (rev cur :: acc)
      else split_ns r in_quotes (c :: cur) acc
  end.
Definition parse_identifiers_ns (s : str) : list str := split_ns s false [] [].

(* str::len of the piece: UTF-8 bytes *)
Definition utf8_len1 (c : N) : N := if c <? 128 then 1 else if c <? 2048 then 2 else if c <? 65536 then 3 else 4.
Definition utf8_len (s : str) : N := fold_right (fun c n => utf8_len1 c + n) 0 s.

(* chars.next() == Some(DQUOTE) && chars.last() == Some(DQUOTE), guarded by id.len() > 2 *)
Definition last_is (q : N) (s : str) : bool :=
  match s with [] => false | _ :: _ => last s 0 =? q end.
Definition is_double_quoted (id : str) : bool :=
  if 2 <? utf8_len id then hd_is 34 id && last_is 34 (tl id) else false.

(* .replace(DQUOTE DQUOTE, DQUOTE): leftmost non-overlapping pairs *)
Fixpoint unescape_dq (s : str) : str :=
  match s with
  | [] => []
  | c :: r =>
      match r with
      | d :: r' => if (c =? 34) && (d =? 34) then 34 :: unescape_dq r' else c :: unescape_dq r
      | [] => [c]
      end
  end.

Definition normalize_ns (ignore_case : bool) (id : str) : str :=
  if is_double_quoted id then unescape_dq (removelast (tl id))      (* id[1..id.len() - 1] *)
  else if ignore_case then id else map ascii_lower id.

Definition parse_identifiers_normalized_ns (s : str) (ignore_case : bool) : list str :=
  map (normalize_ns ignore_case) (parse_identifiers_ns s).

Definition parse_str_normalized_ns (s : str) (ignore_case : bool) : tref :=
  match from_vec (parse_identifiers_normalized_ns s ignore_case) with
  | Some r => r
  | None => Bare s
  end.
Definition parse_str_ns (s : str) : tref := parse_str_normalized_ns s false.

(* without the sql feature from_qualified_name_ignore_case is from_qualified_name *)
Definition from_qualified_name_ns (s : str) : column :=
  match from_idents (parse_identifiers_normalized_ns s false) with
  | Some c => c
  | None => mkcol None s
  end.

(* ------------------------------------------------------------------ specification *)
(* The property: text produced by the printer parses back to the same object. *)
Definition nonempty (s : str) : bool := match s with [] => false | _ => true end.

(* Side condition (boolean).  A reference with two or three parts must not have an empty part:
   needs_quotes of the empty string is false, so an empty part is printed as nothing, the text gets a leading,
   doubled or trailing '.', and parse_multipart_identifier rejects it (C52_empty_part_refuted). *)
Definition ref_ok (r : tref) : bool :=
  match r with
  | Bare _ => true
  | Partial s t => nonempty s && nonempty t
  | Full c s t => nonempty c && nonempty s && nonempty t
  end.

Definition col_ok (c : column) : bool :=
  match relation c with
  | None => true
  | Some r => forallb nonempty (to_vec r) && nonempty (name c)
  end.

(* Side condition for the fallback parser: only the LAST part must be non-empty (a trailing empty
   piece is dropped by "push the last part if it is not empty"; C52_ns_empty_last_refuted). *)
Definition ref_ok_ns (r : tref) : bool :=
  match r with
  | Bare _ => true
  | Partial _ t => nonempty t
  | Full _ _ t => nonempty t
  end.

Definition col_ok_ns (c : column) : bool :=
  match relation c with
  | None => true
  | Some _ => nonempty (name c)
  end.

(* no part needs quoting: then the unquoted Display form is the quoted form *)
Definition col_plain (c : column) : bool :=
  match relation c with
  | None => negb (needs_quotes (name c))
  | Some r => forallb (fun p => negb (needs_quotes p)) (to_vec r) && negb (needs_quotes (name c))
  end.

(* ------------------------------------------------------------------ correspondence *)
Definition str_eqb : str -> str -> bool := list_eqb N.eqb.
Definition strs_eqb : list str -> list str -> bool := list_eqb str_eqb.

Definition rel_vec (c : column) : list str :=
  match relation c with Some r => to_vec r | None => [] end.

Inductive c52_case :=
  (* TableReference built from 1..3 parts: to_quoted_string, Display, parse_str(text).to_vec() *)
  | CTr (parts : list str) (text disp : str) (back : list str)
  (* Column{relation: 0..3 parts, name}: quoted_flat_name, flat_name, from_qualified_name(text) *)
  | CCol (rel : list str) (nm text flat : str) (back_rel : list str) (back_name : str)
  (* arbitrary text: parse_str_normalized(text, ic).to_vec(), from_qualified_name[_ignore_case] *)
  | CParse (text : str) (ic : bool) (tr : list str) (col_rel : list str) (col_name : str).

(* same observations made on the build without the sql feature (ic is ignored by the column path) *)
Definition c52_check_ns (c : c52_case) : bool :=
  match c with
  | CTr parts text disp back =>
      match from_vec parts with
      | Some r =>
          str_eqb (to_quoted_string r) text && str_eqb (display r) disp
          && strs_eqb (to_vec (parse_str_ns text)) back
      | None => false
      end
  | CCol rel nm text flat back_rel back_name =>
      match (match rel with [] => Some None | _ => option_map Some (from_vec rel) end) with
      | Some ro =>
          let c := mkcol ro nm in
          let b := from_qualified_name_ns text in
          str_eqb (quoted_flat_name c) text && str_eqb (flat_name c) flat
          && strs_eqb (rel_vec b) back_rel && str_eqb (name b) back_name
      | None => false
      end
  | CParse text ic tr col_rel col_name =>
      let b := from_qualified_name_ns text in
      strs_eqb (to_vec (parse_str_normalized_ns text ic)) tr
      && strs_eqb (rel_vec b) col_rel && str_eqb (name b) col_name
  end.

Definition c52_check (ua us : N -> bool) (c : c52_case) : bool :=
  match c with
  | CTr parts text disp back =>
      match from_vec parts with
      | Some r =>
          str_eqb (to_quoted_string r) text && str_eqb (display r) disp
          && strs_eqb (to_vec (parse_str ua us text)) back
      | None => false
      end
  | CCol rel nm text flat back_rel back_name =>
      match (match rel with [] => Some None | _ => option_map Some (from_vec rel) end) with
      | Some ro =>
          let c := mkcol ro nm in
          let b := from_qualified_name ua us text in
          str_eqb (quoted_flat_name c) text && str_eqb (flat_name c) flat
          && strs_eqb (rel_vec b) back_rel && str_eqb (name b) back_name
      | None => false
      end
  | CParse text ic tr col_rel col_name =>
      let b := from_qualified_name_ic ua us text ic in
      strs_eqb (to_vec (parse_str_normalized ua us text ic)) tr
      && strs_eqb (rel_vec b) col_rel && str_eqb (name b) col_name
  end.
