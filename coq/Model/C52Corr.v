(* C52 correspondence input format.  Parsing tens of thousands of [N] literals dominates the run time
   of the model evaluation, so the Python renderer packs three code points into one primitive 63-bit
   integer literal: int = (c1+1) + (c2+1)*2^21 + (c3+1)*2^42, 0 = no character (padding at the end).
   This file only unpacks and calls Model.Idents.c52_check / c52_check_ns; it is not used by any theorem. *)
From Coq Require Import List NArith ZArith Bool Uint63.
From DF Require Import Base.Prelude Model.Idents.
Import ListNotations.
Local Open Scope N_scope.

Definition B21 : N := 2097152.

Definition unpack1 (i : int) : str :=
  let n := Z.to_N (Uint63.to_Z i) in
  let d1 := n mod B21 in
  let d2 := (n / B21) mod B21 in
  let d3 := n / (B21 * B21) in
  map N.pred (filter (fun d => negb (d =? 0)) [d1; d2; d3]).

Definition unpack (l : list int) : str := flat_map unpack1 l.

Inductive c52_pcase :=
  | PTr (parts : list (list int)) (text disp : list int) (back : list (list int))
  | PCol (rel : list (list int)) (nm text flat : list int) (back_rel : list (list int)) (back_name : list int)
  | PParse (text : list int) (ic : bool) (tr : list (list int)) (col_rel : list (list int)) (col_name : list int).

Definition unpack_case (c : c52_pcase) : c52_case :=
  match c with
  | PTr parts text disp back => CTr (map unpack parts) (unpack text) (unpack disp) (map unpack back)
  | PCol rel nm text flat back_rel back_name =>
      CCol (map unpack rel) (unpack nm) (unpack text) (unpack flat) (map unpack back_rel) (unpack back_name)
  | PParse text ic tr col_rel col_name =>
      CParse (unpack text) ic (map unpack tr) (map unpack col_rel) (unpack col_name)
  end.

Definition c52_pcheck (ua us : N -> bool) (c : c52_pcase) : bool := c52_check ua us (unpack_case c).
Definition c52_pcheck_ns (c : c52_pcase) : bool := c52_check_ns (unpack_case c).

(* the packing is the identity on a sample containing NUL, ASCII, BMP and astral code points *)
Example unpack_sample :
  unpack [153931699191809%uint63; 4899916395069833309%uint63] = [0; 33; 34; 92; 233; 1114111].
Proof. vm_compute. reflexivity. Qed.
