(* C46 -- benchmark result validation accepts exactly the persisted results.  Executable definitions only.
   Models benchmarks/src/sql_benchmark.rs:
     SqlBenchmark::compare_results, format_record_batches (Utf8 columns), SqlBenchmark::persist
     (DataFrame::write_csv, delimiter '|', header; arrow-csv Writer over csv / csv-core Writer with
     QuoteStyle::Necessary, double_quote, NULL written as the empty field), read_query_from_file
     (ctx.read_csv, delimiter '|', header, schema_infer_max_records(0) = all columns Utf8; arrow-csv
     RecordDecoder over the csv-core reader automaton; the scan does not use null_regex, so the empty
     field and only the empty field reads back as NULL), SqlBenchmark::verify, and
     process_replacements_with_env / lookup_replacement_value / replace_all with the two regexes
     TRUE_FALSE_REPLACEMENT_RE and VARIABLE_REPLACEMENT_RE.
   Texts are UTF-8 byte lists. *)
From DF Require Import Base.Prelude.
Open Scope Z_scope.

Definition text := list Z.
Definition text_eqb : text -> text -> bool := zlist_eqb.
Definition is_nil {A} (l : list A) : bool := match l with [] => true | _ => false end.
Definition len {A} (l : list A) : Z := Z.of_nat (length l).

Definition t_NULL : text := [78; 85; 76; 76].                       (* "NULL" *)
Definition t_empty_marker : text := [40; 101; 109; 112; 116; 121; 41].  (* "(empty)" *)

(* ------------------------------------------------------------------ compare_results *)
(* the cell test of compare_results:
     (expected == "NULL" && actual.is_empty()) || expected == actual
     || (expected == "(empty)" && (actual.is_empty() || actual == "NULL")) *)
Definition cell_ok (e a : text) : bool :=
  (text_eqb e t_NULL && is_nil a) || text_eqb e a
  || (text_eqb e t_empty_marker && (is_nil a || text_eqb a t_NULL)).

(* what the error (first difference) reports *)
Inductive verdict :=
| Accept
| RowCount (expected got : Z)          (* "expected {} rows but got {}" *)
| ColCount (expected got : Z)          (* "expected {} columns but got {}" *)
| CellDiff (row col : Z)               (* "on row {}, column {}" (1-based) *)
| ReadError.                           (* the result file could not be read (verify only) *)

Definition verdict_eqb (a b : verdict) : bool :=
  match a, b with
  | Accept, Accept => true
  | RowCount x y, RowCount x' y' => (x =? x') && (y =? y')
  | ColCount x y, ColCount x' y' => (x =? x') && (y =? y')
  | CellDiff x y, CellDiff x' y' => (x =? x') && (y =? y')
  | ReadError, ReadError => true
  | _, _ => false
  end.

(* for (col_idx, expected_val) in expected.iter().enumerate().take(column_count): first failing column *)
Fixpoint cmp_cells (cc : nat) (col : Z) (e a : list text) : option Z :=
  match cc, e, a with
  | S k, ev :: e', av :: a' => if cell_ok ev av then cmp_cells k (col + 1) e' a' else Some col
  | _, _, _ => None
  end.

(* for ((row_idx, actual), expected) in actual.iter().enumerate().zip(expected.iter()) *)
Fixpoint cmp_rows (cc : nat) (row : Z) (act exp : list (list text)) : verdict :=
  match act, exp with
  | a :: act', e :: exp' =>
      if negb (Nat.eqb (length a) (length e)) then ColCount (len e) (len a)
      else match cmp_cells cc 1 e a with
           | Some c => CellDiff row c
           | None => cmp_rows cc (row + 1) act' exp'
           end
  | _, _ => Accept
  end.

Definition compare_results (cc : nat) (act exp : list (list text)) : verdict :=
  if is_nil act && is_nil exp then Accept
  else if negb (Nat.eqb (length act) (length exp)) then RowCount (len exp) (len act)
  else cmp_rows cc 1 act exp.

(* ---- specification: the documented equivalence of an expected cell [e] and an actual cell [a] *)
Definition cell_equiv (e a : text) : Prop :=
  e = a \/ (e = t_NULL /\ a = []) \/ (e = t_empty_marker /\ (a = [] \/ a = t_NULL)).

(* same row count, same column count per row, every compared cell (the first cc of a row) equivalent *)
Definition results_equiv (cc : nat) (act exp : list (list text)) : Prop :=
  Forall2 (fun a e => length a = length e /\ Forall2 cell_equiv (firstn cc e) (firstn cc a)) act exp.

(* a difference with its position *)
Definition differs (cc : nat) (act exp : list (list text)) : Prop :=
  length act <> length exp
  \/ exists i a e, nth_error act i = Some a /\ nth_error exp i = Some e /\
       (length a <> length e
        \/ exists j ev av, (j < cc)%nat /\ nth_error e j = Some ev /\ nth_error a j = Some av /\
                           ~ cell_equiv ev av).

(* ------------------------------------------------------------------ cells and formatting *)
(* a result cell of a Utf8 column: SQL NULL or a string *)
Definition cell := option text.
Definition fmt_cell (c : cell) : text := match c with None => t_NULL | Some s => s end.   (* with_null("NULL") *)
Definition fmt_result (r : list (list cell)) : list (list text) := map (map fmt_cell) r.

(* ------------------------------------------------------------------ persist: the CSV writer *)
(* csv-core Writer::build: requires_quotes = delimiter, quote, '\r', '\n' (double_quote is on, so the
   escape byte is not in the set; no comment byte) *)
Definition is_special (b : Z) : bool := (b =? 124) || (b =? 34) || (b =? 13) || (b =? 10).

Fixpoint dq (f : text) : text :=        (* csv_core::quote with double_quote *)
  match f with
  | [] => []
  | b :: r => if b =? 34 then 34 :: 34 :: dq r else b :: dq r
  end.

Definition enc_field (f : text) : text :=
  if existsb is_special f then 34 :: dq f ++ [34] else f.

Fixpoint enc_fields (fs : list text) : text :=
  match fs with
  | [] => []
  | [f] => enc_field f
  | f :: r => enc_field f ++ 124 :: enc_fields r
  end.

(* Writer::terminator: a record that wrote no byte (one empty field) is written as "" *)
Definition enc_record (fs : list text) : text :=
  let body := enc_fields fs in
  (if is_nil body then [34; 34] else body) ++ [10].

Definition cell_field (c : cell) : text := match c with None => [] | Some s => s end.   (* NULL -> "" *)

Definition persist (hdr : list text) (rows : list (list cell)) : text :=
  enc_record hdr ++ concat (map (fun r => enc_record (map cell_field r)) rows).

(* ------------------------------------------------------------------ reading: the csv-core automaton *)
(* delimiter '|', quote = byte 34, double_quote, no escape, no comment, terminator CRLF (= CR, LF or CR LF).
   States of csv_core::Reader::transition_nfa with the epsilon moves folded in:
   EndFieldDelim -> StartField, EndFieldTerm -> InRecordTerm -> (EndRecord -> StartRecord | CRLF). *)
Inductive rstate := RStartRecord | RStartField | RInField | RInQuoted | RInDQ | RCR.

Definition is_term (b : Z) : bool := (b =? 10) || (b =? 13).

(* fld: bytes of the current field; rcd: the completed fields of the current record *)
Fixpoint rd (s : text) (st : rstate) (fld : text) (rcd : list text) : list (list text) :=
  match s with
  | [] => match st with
          | RStartRecord | RCR => []               (* transition_final_dfa: start / final-record states *)
          | _ => [rcd ++ [fld]]                    (* otherwise the pending record is emitted *)
          end
  | c :: r =>
      match st with
      | RStartRecord =>
          if is_term c then rd r RStartRecord [] []
          else if c =? 34 then rd r RInQuoted fld rcd
          else if c =? 124 then rd r RStartField [] (rcd ++ [fld])
          else rd r RInField (fld ++ [c]) rcd
      | RCR =>
          if is_term c then rd r RStartRecord [] []
          else if c =? 34 then rd r RInQuoted fld rcd
          else if c =? 124 then rd r RStartField [] (rcd ++ [fld])
          else rd r RInField (fld ++ [c]) rcd
      | RStartField =>
          if c =? 34 then rd r RInQuoted fld rcd
          else if c =? 124 then rd r RStartField [] (rcd ++ [fld])
          else if is_term c then (rcd ++ [fld]) :: rd r (if c =? 13 then RCR else RStartRecord) [] []
          else rd r RInField (fld ++ [c]) rcd
      | RInField =>
          if c =? 124 then rd r RStartField [] (rcd ++ [fld])
          else if is_term c then (rcd ++ [fld]) :: rd r (if c =? 13 then RCR else RStartRecord) [] []
          else rd r RInField (fld ++ [c]) rcd
      | RInQuoted =>
          if c =? 34 then rd r RInDQ fld rcd else rd r RInQuoted (fld ++ [c]) rcd
      | RInDQ =>
          if c =? 34 then rd r RInQuoted (fld ++ [c]) rcd
          else if c =? 124 then rd r RStartField [] (rcd ++ [fld])
          else if is_term c then (rcd ++ [fld]) :: rd r (if c =? 13 then RCR else RStartRecord) [] []
          else rd r RInField (fld ++ [c]) rcd
      end
  end.

Definition csv_records (file : text) : list (list text) := rd file RStartRecord [] [].

(* arrow-csv build_primitive for Utf8 with the default NullRegex: the empty field is NULL *)
Definition parse_cell (f : text) : cell := if is_nil f then None else Some f.

(* read_query_from_file, for a file of one object-store chunk (< 8 KiB) ending in LF, as every file
   written by persist for a small result does (schema inference passes the bytes through object_store's
   LineDelimiter, which hands such a file over unchanged): the header gives column_count; every data record must have that many fields
   (RecordDecoder: "incorrect number of fields"); cells are formatted by format_record_batches *)
Definition parse_file (file : text) : option (nat * list (list text)) :=
  match csv_records file with
  | [] => None
  | hdr :: recs =>
      if is_nil hdr then None
      else if forallb (fun r => Nat.eqb (length r) (length hdr)) recs
      then Some (length hdr, map (map (fun f => fmt_cell (parse_cell f))) recs)
      else None
  end.

(* SqlBenchmark::verify on a result file with content [file] and last_results [actual] *)
Definition verify (file : text) (actual : list (list cell)) : verdict :=
  match parse_file file with
  | None => ReadError
  | Some (cc, expected) => compare_results cc (fmt_result actual) expected
  end.

(* ------------------------------------------------------------------ placeholders *)
Definition is_word (b : Z) : bool :=                     (* \w restricted to ASCII *)
  ((48 <=? b) && (b <=? 57)) || ((65 <=? b) && (b <=? 90)) || ((97 <=? b) && (b <=? 122)) || (b =? 95).
Definition lower (b : Z) : Z := if (65 <=? b) && (b <=? 90) then b + 32 else b.
Definition upper (b : Z) : Z := if (97 <=? b) && (b <=? 122) then b - 32 else b.

(* maximal prefix of bytes satisfying p, and the rest (a greedy  [class]*  that cannot give back) *)
Fixpoint span (p : Z -> bool) (s : text) : text * text :=
  match s with
  | [] => ([], [])
  | b :: r => if p b then let (x, y) := span p r in (b :: x, y) else ([], s)
  end.

Definition assoc := list (text * text).
Fixpoint lookup (k : text) (m : assoc) : option text :=
  match m with
  | [] => None
  | (k', v) :: r => if text_eqb k k' then Some v else lookup k r
  end.

(* lookup_replacement_value: map.get(key.to_lowercase()) else get_env(key.to_uppercase()) *)
Definition lookup_value (m env : assoc) (key : text) : option text :=
  match lookup (map lower key) m with
  | Some v => Some v
  | None => lookup (map upper key) env
  end.

Inductive res := Ok (t : text) | MissingKey (k : text).

Definition res_eqb (a b : res) : bool :=
  match a, b with
  | Ok x, Ok y => text_eqb x y
  | MissingKey x, MissingKey y => text_eqb x y
  | _, _ => false
  end.

Definition not_b (c : Z) : Z -> bool := fun b => negb (b =? c).

(* the literal byte c / the two literal bytes c1 c2 at the head of s *)
Definition eat (c : Z) (s : text) : option text :=
  match s with
  | b :: r => if b =? c then Some r else None
  | [] => None
  end.
Definition eat2 (c1 c2 : Z) (s : text) : option text :=
  match eat c1 s with Some r => eat c2 r | None => None end.

(* VARIABLE_REPLACEMENT_RE  \$\{(\w+)(?::-([^}]+))?}  anchored at the head of s:
   (key, default, length of the match).  Every quantified class is followed by a byte outside the
   class, so the greedy match is the only candidate (no backtracking alternative can succeed). *)
Definition match_var (s : text) : option (text * option text * nat) :=
  match eat2 36 123 s with
  | None => None
  | Some r =>
      let (k, r1) := span is_word r in
      if is_nil k then None
      else match eat 125 r1 with
           | Some _ => Some (k, None, (3 + length k)%nat)
           | None =>
               match eat2 58 45 r1 with
               | None => None
               | Some r2 =>
                   let (d, r3) := span (not_b 125) r2 in
                   if is_nil d then None
                   else match eat 125 r3 with
                        | Some _ => Some (k, Some d, (5 + length k + length d)%nat)
                        | None => None
                        end
               end
           end
  end.

(* the tail  \|([^|]+)\|([^}]+)}  of TRUE_FALSE_REPLACEMENT_RE: (true value, false value, length) *)
Definition match_branches (s : text) : option (text * text * nat) :=
  match eat 124 s with
  | None => None
  | Some r3 =>
      let (t, r4) := span (not_b 124) r3 in
      if is_nil t then None
      else match eat 124 r4 with
           | None => None
           | Some r5 =>
               let (f, r6) := span (not_b 125) r5 in
               if is_nil f then None
               else match eat 125 r6 with
                    | Some _ => Some (t, f, (3 + length t + length f)%nat)
                    | None => None
                    end
           end
  end.

Definition not_bar_brace (b : Z) : bool := negb ((b =? 124) || (b =? 125)).

(* TRUE_FALSE_REPLACEMENT_RE  \$\{(\w+)(?::-([^|}]+))?\|([^|]+)\|([^}]+)}  anchored at the head of s *)
Definition match_tf (s : text) : option (text * option text * text * text * nat) :=
  match eat2 36 123 s with
  | None => None
  | Some r =>
      let (k, r1) := span is_word r in
      if is_nil k then None
      else match eat2 58 45 r1 with
           | Some r2 =>
               let (d, r3) := span not_bar_brace r2 in
               if is_nil d then None
               else match match_branches r3 with
                    | Some (t, f, n) => Some (k, Some d, t, f, (4 + length k + length d + n)%nat)
                    | None => None
                    end
           | None =>
               match match_branches r1 with
               | Some (t, f, n) => Some (k, None, t, f, (2 + length k + n)%nat)
               | None => None
               end
           end
  end.

(* v.eq_ignore_ascii_case("true") *)
Definition is_true (v : text) : bool := text_eqb (map lower v) [116; 114; 117; 101].

Definition repl_var (m env : assoc) (s : text) : option (res * nat) :=
  match match_var s with
  | None => None
  | Some (k, d, n) =>
      Some (match lookup_value m env k with
            | Some v => Ok v
            | None => match d with Some dv => Ok dv | None => MissingKey k end
            end, n)
  end.

Definition repl_tf (m env : assoc) (s : text) : option (res * nat) :=
  match match_tf s with
  | None => None
  | Some (k, d, t, f, n) =>
      Some (match (match lookup_value m env k with Some v => Some v | None => d end) with
            | Some v => if is_true v then Ok t else Ok f
            | None => MissingKey k
            end, n)
  end.

(* replace_all: leftmost non-overlapping matches, the text between them copied, the first failing
   replacement aborts.  [skip] = bytes of the current match still to be dropped. *)
Fixpoint scan (f : text -> option (res * nat)) (s : text) (skip : nat) : res :=
  match s with
  | [] => Ok []
  | c :: s' =>
      match skip with
      | S k => scan f s' k
      | O =>
          match f s with
          | Some (Ok v, n) => match scan f s' (pred n) with Ok t => Ok (v ++ t) | e => e end
          | Some (MissingKey k, _) => MissingKey k
          | None => match scan f s' 0 with Ok t => Ok (c :: t) | e => e end
          end
      end
  end.

(* process_replacements_with_env: the true/false pass, then the variable pass over its output *)
Definition process (m env : assoc) (input : text) : res :=
  match scan (repl_tf m env) input 0 with
  | Ok s1 => scan (repl_var m env) s1 0
  | e => e
  end.

(* ---- specification of the placeholder forms *)
Definition ph_var (k : text) : text := 36 :: 123 :: k ++ [125].                          (* ${k} *)
Definition ph_var_d (k d : text) : text := 36 :: 123 :: k ++ 58 :: 45 :: d ++ [125].      (* ${k:-d} *)
Definition ph_tf (k t f : text) : text := 36 :: 123 :: k ++ 124 :: t ++ 124 :: f ++ [125].   (* ${k|t|f} *)
Definition ph_tf_d (k d t f : text) : text :=                                             (* ${k:-d|t|f} *)
  36 :: 123 :: k ++ 58 :: 45 :: d ++ 124 :: t ++ 124 :: f ++ [125].

Definition no_dollar (t : text) : bool := forallb (not_b 36) t.
(* a key: one or more ASCII word bytes *)
Definition is_key (k : text) : bool := negb (is_nil k) && forallb is_word k.
(* a default / branch text: non-empty, without '$', '|', '}' *)
Definition plain_arg (d : text) : bool :=
  negb (is_nil d) && forallb (fun b => negb ((b =? 36) || (b =? 124) || (b =? 125))) d.

(* the documented precedence: explicit value (key lower-cased), then environment (key upper-cased),
   then the default *)
Definition resolve (m env : assoc) (k : text) (d : option text) : option text :=
  match lookup (map lower k) m with
  | Some v => Some v
  | None => match lookup (map upper k) env with
            | Some v => Some v
            | None => d
            end
  end.

(* ------------------------------------------------------------------ correspondence cases *)
Inductive c46_case :=
| CCmp (cc : Z) (act exp : list (list text)) (v : verdict)         (* hook compare_results *)
| CPersist (hdr : list text) (rows : list (list cell)) (file : text)  (* SqlBenchmark::persist wrote [file] *)
| CParse (file : text) (got : option (Z * list (list text)))       (* hook read_result_file *)
| CVerify (hdr : list text) (persisted actual : list (list cell)) (v : verdict)  (* persist, run, verify *)
| CPh (m env : assoc) (input : text) (out : res).                  (* hook process_replacements_with_env *)

Definition rows_eqb (a b : list (list text)) : bool := list_eqb (list_eqb text_eqb) a b.

Definition c46_check (c : c46_case) : bool :=
  match c with
  | CCmp cc act exp v => verdict_eqb (compare_results (Z.to_nat cc) act exp) v
  | CPersist hdr rows file => text_eqb (persist hdr rows) file
  | CParse file got =>
      match parse_file file, got with
      | None, None => true
      | Some (cc, e), Some (cc', e') => (Z.of_nat cc =? cc') && rows_eqb e e'
      | _, _ => false
      end
  | CVerify hdr p a v => verdict_eqb (verify (persist hdr p) a) v
  | CPh m env input out => res_eqb (process m env input) out
  end.
