(* C42 -- executable model of datafusion/common/src/tree_node.rs
   (TreeNode default methods, TreeNodeRecursion / Transformed combinators,
   apply_until_stop / map_until_stop_and_collect, the three map_children
   implementations) + the specification (contract from the doc comments).
   Definitions only; proofs are in Proofs/TreeNodeProofs.v.

   Trees are rose trees with an integer label.  Callbacks are *data*: a function
   of the node label giving the recursion directive (and, for rewrites, the new
   label and the `transformed` flag the callback reports).  Every callback
   invocation is logged (phase, label the callback saw), in order. *)
From Coq Require Import List ZArith Bool.
From DF Require Import Base.Prelude.
Import ListNotations.
Open Scope Z_scope.

(* ------------------------------------------------------------------ data *)
Inductive tree := Node (l : Z) (cs : list tree).

(* enum TreeNodeRecursion *)
Inductive tnr := Continue | Jump | Stop.

(* struct Transformed<T> { data, transformed, tnr } *)
Record Tr (A : Type) := mkT { data : A; changed : bool; rec : tnr }.
Arguments mkT {A}. Arguments data {A}. Arguments changed {A}. Arguments rec {A}.

Inductive phase := PDown | PUp.
Definition event := (phase * Z)%type.

(* computations that log callback invocations *)
Definition M (A : Type) := (list event * A)%type.
Definition ret {A} (a : A) : M A := ([], a).
Definition bind {A B} (m : M A) (k : A -> M B) : M B :=
  let (l1, a) := m in let (l2, b) := k a in (l1 ++ l2, b).

(* ------------------------------------------------------------------ impl TreeNodeRecursion *)
Definition visit_children (r : tnr) (k : unit -> M tnr) : M tnr :=
  match r with Continue => k tt | Jump => ret Continue | Stop => ret Stop end.
Definition visit_sibling (r : tnr) (k : unit -> M tnr) : M tnr :=
  match r with Continue | Jump => k tt | Stop => ret Stop end.
Definition visit_parent (r : tnr) (k : unit -> M tnr) : M tnr :=
  match r with Continue => k tt | Jump | Stop => ret r end.

(* ------------------------------------------------------------------ impl Transformed<T> *)
(* f(self.data).map(|mut t| { t.transformed |= self.transformed; t }) *)
Definition or_flag {A} (self : Tr A) (k : A -> M (Tr A)) : M (Tr A) :=
  bind (k (data self)) (fun t => ret (mkT (data t) (changed t || changed self) (rec t))).
Definition transform_children {A} (self : Tr A) (k : A -> M (Tr A)) : M (Tr A) :=
  match rec self with
  | Continue => or_flag self k
  | Jump => ret (mkT (data self) (changed self) Continue)
  | Stop => ret self
  end.
Definition transform_sibling {A} (self : Tr A) (k : A -> M (Tr A)) : M (Tr A) :=
  match rec self with
  | Continue | Jump => or_flag self k
  | Stop => ret self
  end.
Definition transform_parent {A} (self : Tr A) (k : A -> M (Tr A)) : M (Tr A) :=
  match rec self with
  | Continue => or_flag self k
  | Jump | Stop => ret self
  end.

(* ------------------------------------------------------------------ TreeNodeIterator
   apply_until_stop: `let mut tnr = Continue; for i in self { tnr = f(i)?; if Stop return Stop } Ok(tnr)`
   (Vec<C>::apply_elements is the same loop). *)
Definition apply_until_stop_from {A} (f : A -> M tnr) : tnr -> list A -> M tnr :=
  fix go (last : tnr) (l : list A) : M tnr :=
    match l with
    | [] => ret last
    | x :: r =>
        bind (f x) (fun t => match t with
                             | Continue | Jump => go t r
                             | Stop => ret Stop
                             end)
    end.
Definition apply_until_stop {A} (f : A -> M tnr) (l : list A) : M tnr :=
  apply_until_stop_from f Continue l.

(* map_until_stop_and_collect (and Vec<C>::map_elements): mutable (tnr, transformed);
   an item is mapped while tnr is Continue|Jump and kept as is once tnr is Stop. *)
Definition map_until_stop_from {A} (f : A -> M (Tr A)) : tnr -> bool -> list A -> M (Tr (list A)) :=
  fix go (last : tnr) (tr : bool) (l : list A) : M (Tr (list A)) :=
    match l with
    | [] => ret (mkT [] tr last)
    | x :: r =>
        match last with
        | Continue | Jump =>
            bind (f x) (fun res =>
            bind (go (rec res) (tr || changed res) r) (fun rest =>
            ret (mkT (data res :: data rest) (changed rest) (rec rest))))
        | Stop =>
            bind (go Stop tr r) (fun rest => ret (mkT (x :: data rest) (changed rest) (rec rest)))
        end
    end.
Definition map_until_stop_and_collect {A} (f : A -> M (Tr A)) (l : list A) : M (Tr (list A)) :=
  map_until_stop_from f Continue false l.

(* ------------------------------------------------------------------ apply_children / map_children
   Three implementations exist in tree_node.rs:
   IVec      children: Vec<Self>, via Vec::apply_elements / Vec::map_elements (the tests' TestTreeNode,
             and the shape Expr / LogicalPlan use)
   IConcrete impl<T: ConcreteTreeNode> TreeNode for T   (is_empty check, with_new_children)
   IDyn      impl<T: DynTreeNode> TreeNode for Arc<T>   (is_empty check; rebuilds the node only if
             new_children.transformed, otherwise returns the old Arc unchanged) *)
Inductive impl := IVec | IConcrete | IDyn.

Definition apply_children (k : tree -> M tnr) (t : tree) : M tnr :=
  match t with Node _ cs => apply_until_stop k cs end.

Definition map_children_on (im : impl) (k : tree -> M (Tr tree)) (l : Z) (cs : list tree) : M (Tr tree) :=
  match im with
  | IVec =>
      bind (map_until_stop_and_collect k cs) (fun r => ret (mkT (Node l (data r)) (changed r) (rec r)))
  | IConcrete =>
      match cs with
      | [] => ret (mkT (Node l cs) false Continue)
      | _ => bind (map_until_stop_and_collect k cs) (fun r => ret (mkT (Node l (data r)) (changed r) (rec r)))
      end
  | IDyn =>
      match cs with
      | [] => ret (mkT (Node l cs) false Continue)
      | _ => bind (map_until_stop_and_collect k cs) (fun r =>
               if changed r then ret (mkT (Node l (data r)) (changed r) (rec r))
               else ret (mkT (Node l cs) false (rec r)))
      end
  end.
Definition map_children (im : impl) (k : tree -> M (Tr tree)) (t : tree) : M (Tr tree) :=
  match t with Node l cs => map_children_on im k l cs end.

(* ------------------------------------------------------------------ callbacks as data *)
Definition vcb := Z -> tnr.                       (* inspecting callback *)
Definition rcb := Z -> (Z * bool * tnr)%type.     (* rewriting callback: new label, reported flag, directive *)

Definition vcall (ph : phase) (f : vcb) (t : tree) : M tnr :=
  match t with Node l _ => ([(ph, l)], f l) end.
Definition rcall (ph : phase) (f : rcb) (t : tree) : M (Tr tree) :=
  match t with Node l cs => let '(l', ch, r) := f l in ([(ph, l)], mkT (Node l' cs) ch r) end.

(* ------------------------------------------------------------------ TreeNode default methods
   Each Fixpoint is written with the node destructured (so that Coq sees the structural
   recursion); Proofs/TreeNodeProofs.v proves for each the literal Rust equation
   (`*_rust_eq`), e.g. visit = f_down(self)?.visit_children(|| self.apply_children(visit))?.visit_parent(|| f_up(self)). *)

(* fn apply:  f(node)?.visit_children(|| node.apply_children(|c| apply_impl(c, f))) *)
Fixpoint apply (f : vcb) (t : tree) : M tnr :=
  match t with
  | Node l cs =>
      bind ([(PDown, l)], f l) (fun r => visit_children r (fun _ => apply_until_stop (apply f) cs))
  end.

(* fn exists: found=false; apply(|n| if f(n) {found=true; Stop} else Continue).map(|_| found) *)
Definition exists_ (p : Z -> bool) (t : tree) : M bool :=
  let (lg, _) := apply (fun l => if p l then Stop else Continue) t in
  (lg, existsb (fun e => p (snd e)) lg).

(* fn visit *)
Fixpoint visit (fd fu : vcb) (t : tree) : M tnr :=
  match t with
  | Node l cs =>
      bind ([(PDown, l)], fd l) (fun r =>
      bind (visit_children r (fun _ => apply_until_stop (visit fd fu) cs)) (fun rc =>
      visit_parent rc (fun _ => ([(PUp, l)], fu l))))
  end.

(* fn transform_down: f(node)?.transform_children(|n| n.map_children(|c| transform_down_impl(c, f))) *)
Fixpoint transform_down (im : impl) (f : rcb) (t : tree) : M (Tr tree) :=
  match t with
  | Node l cs =>
      let '(l', ch, r) := f l in
      bind ([(PDown, l)], mkT (Node l' cs) ch r) (fun t1 =>
      transform_children t1 (fun _ => map_children_on im (transform_down im f) l' cs))
  end.

(* fn transform_up: node.map_children(|c| transform_up_impl(c, f))?.transform_parent(f) *)
Fixpoint transform_up (im : impl) (f : rcb) (t : tree) : M (Tr tree) :=
  match t with
  | Node l cs =>
      bind (map_children_on im (transform_up im f) l cs) (fun t1 => transform_parent t1 (rcall PUp f))
  end.

(* fn transform_down_up and fn rewrite: both are
   handle_transform_recursion!(f_down(node), |c| recurse(c), f_up) =
   f_down(node)?.transform_children(|n| n.map_children(recurse))?.transform_parent(f_up) *)
Fixpoint transform_down_up (im : impl) (fd fu : rcb) (t : tree) : M (Tr tree) :=
  match t with
  | Node l cs =>
      let '(l', ch, r) := fd l in
      bind ([(PDown, l)], mkT (Node l' cs) ch r) (fun t1 =>
      bind (transform_children t1 (fun _ => map_children_on im (transform_down_up im fd fu) l' cs)) (fun t2 =>
      transform_parent t2 (rcall PUp fu)))
  end.
Definition rewrite := transform_down_up.

(* ================================================================== SPECIFICATION *)
Fixpoint preorder (t : tree) : list Z :=
  match t with Node l cs => l :: flat_map preorder cs end.
Fixpoint postorder (t : tree) : list Z :=
  match t with Node l cs => flat_map postorder cs ++ [l] end.
Fixpoint size (t : tree) : Z :=
  match t with Node _ cs => 1 + fold_right (fun c a => size c + a) 0 cs end.
(* the tree with every label erased *)
Fixpoint shape (t : tree) : tree :=
  match t with Node _ cs => Node 0 (map shape cs) end.
Fixpoint relabel (g : Z -> Z) (t : tree) : tree :=
  match t with Node l cs => Node (g l) (map (relabel g) cs) end.

(* -- top-down inspecting contract (apply):  the visited sequence is the pre-order list in which
      the subtree below every non-Continue node is pruned, cut after the first Stop. *)
Fixpoint pruned (f : vcb) (t : tree) : list Z :=
  match t with
  | Node l cs => l :: match f l with Continue => flat_map (pruned f) cs | _ => [] end
  end.
Fixpoint upto_stop (f : vcb) (l : list Z) : list Z :=
  match l with
  | [] => []
  | x :: r => x :: match f x with Stop => [] | _ => upto_stop f r end
  end.
Definition is_stop (r : tnr) : bool := match r with Stop => true | _ => false end.
Definition has_stop (f : vcb) (l : list Z) : bool := existsb (fun x => is_stop (f x)) l.
Definition downs (l : list Z) : list event := map (fun x => (PDown, x)) l.
Definition ups (l : list Z) : list event := map (fun x => (PUp, x)) l.

(* prefix of l up to and including the first element satisfying p *)
Fixpoint upto_first (p : Z -> bool) (l : list Z) : list Z :=
  match l with
  | [] => []
  | x :: r => x :: if p x then [] else upto_first p r
  end.

(* -- combined contract (visit / rewrite / transform_down_up / transform_down / transform_up):
      a linear scan over the full f_down/f_up bracket sequence of the tree (the documented
      order with all-Continue), with the TreeNodeRecursion documentation as a mode automaton:
        Run     normal
        Skip d  f_down returned Jump: the children are shortcut (d = depth inside them), the
                node's own f_up is still invoked
        UpJ     f_up returned Jump: f_up of the ancestors is bypassed until the next f_down
                (the first ancestor having an unvisited child)
        Halt    Stop: nothing is invoked any more
      The stack holds the current label of every open node (f_up sees the label f_down produced).
      The scan also emits the final label of every node in post-order. *)
Inductive bev := BD (l : Z) | BU (l : Z).
Fixpoint brackets (t : tree) : list bev :=
  match t with Node l cs => BD l :: flat_map brackets cs ++ [BU l] end.

Inductive mode := Run | Skip (d : nat) | UpJ | Halt.
Definition mode_of (r : tnr) : mode := match r with Continue => Run | Jump => UpJ | Stop => Halt end.
Definition tnr_of (m : mode) : tnr := match m with Run | Skip _ => Continue | UpJ => Jump | Halt => Stop end.

Record sstate := mkS { s_mode : mode; s_stk : list Z; s_log : list event; s_post : list Z }.

Definition step (fd fu : rcb) (s : sstate) (e : bev) : sstate :=
  match e with
  | BD l =>
      match s_mode s with
      | Run | UpJ =>
          let '(l', _, r) := fd l in
          mkS (match r with Continue => Run | Jump => Skip 0 | Stop => Halt end)
              (l' :: s_stk s) (s_log s ++ [(PDown, l)]) (s_post s)
      | Skip d => mkS (Skip (S d)) (l :: s_stk s) (s_log s) (s_post s)
      | Halt => mkS Halt (l :: s_stk s) (s_log s) (s_post s)
      end
  | BU l0 =>
      let cur := match s_stk s with x :: _ => x | [] => l0 end in
      let stk' := tl (s_stk s) in
      match s_mode s with
      | Run | Skip O =>
          let '(l', _, r) := fu cur in
          mkS (mode_of r) stk' (s_log s ++ [(PUp, cur)]) (s_post s ++ [l'])
      | Skip (S d) => mkS (Skip d) stk' (s_log s) (s_post s ++ [cur])
      | UpJ => mkS UpJ stk' (s_log s) (s_post s ++ [cur])
      | Halt => mkS Halt stk' (s_log s) (s_post s ++ [cur])
      end
  end.
Definition scan (fd fu : rcb) (s : sstate) (evs : list bev) : sstate := fold_left (step fd fu) evs s.
Definition scan_tree (fd fu : rcb) (t : tree) : sstate := scan fd fu (mkS Run [] [] []) (brackets t).

(* the flag a logged callback invocation reported *)
Definition reported (fd fu : rcb) (e : event) : bool :=
  match e with (PDown, l) => snd (fst (fd l)) | (PUp, l) => snd (fst (fu l)) end.

(* an inspecting callback seen as a rewriting one that changes nothing *)
Definition vlift (f : vcb) : rcb := fun l => (l, false, f l).
Definition id_cb : rcb := fun l => (l, false, Continue).
Definition is_down (e : event) : bool := match fst e with PDown => true | PUp => false end.
Definition is_up (e : event) : bool := negb (is_down e).
Definition new_label (f : rcb) (l : Z) : Z := fst (fst (f l)).
Definition flag_of (f : rcb) (l : Z) : bool := snd (fst (f l)).
Definition dir_of (f : rcb) (l : Z) : tnr := snd (f l).
(* a callback is honest when it reports `transformed` whenever it changes the label *)
Definition honest (f : rcb) : Prop := forall l, new_label f l <> l -> flag_of f l = true.

(* the documented call sequence when every callback says Continue: f_down(node), the children left to
   right, f_up(node) -- f_up sees the label f_down produced *)
Fixpoint full_log (fd : rcb) (t : tree) : list event :=
  match t with Node l cs => (PDown, l) :: flat_map (full_log fd) cs ++ [(PUp, new_label fd l)] end.

(* side condition for the Arc<dyn> implementation, which drops unreported changes by design *)
Definition impl_ok (im : impl) (fd fu : rcb) : Prop := im = IDyn -> honest fd /\ honest fu.

(* ================================================================== GROUPED CONTAINERS (Expr-style nodes)
   impl TreeNode for Expr (and LogicalPlan, ...) keeps the children of a node in several sibling
   containers -- Box<Expr>, Option<Box<Expr>>, Vec<Expr>, Vec<(Box<Expr>, Box<Expr>)>, ... -- combined by the
   tuple TreeNodeContainer impls:  (c0, c1, c2).apply_elements(f) =
       c0.apply_elements(f)?.visit_sibling(|| c1.apply_elements(f))?.visit_sibling(|| c2.apply_elements(f))
   and map_elements likewise with transform_sibling.  A Box is a one-element group, an Option a zero- or
   one-element group, a Vec an n-element group (Vec::apply_elements = apply_until_stop, and
   None / empty Vec => Ok(Continue) resp. Transformed::no).  A leaf has no group at all. *)
Inductive gtree := GNode (l : Z) (gs : list (list gtree)).

Definition apply_groups {A} (f : A -> M tnr) : list (list A) -> M tnr :=
  fix go (gs : list (list A)) : M tnr :=
    match gs with
    | [] => ret Continue
    | g :: rest =>
        match rest with
        | [] => apply_until_stop f g
        | _ => bind (apply_until_stop f g) (fun t => visit_sibling t (fun _ => go rest))
        end
    end.

Definition map_groups {A} (f : A -> M (Tr A)) : list (list A) -> M (Tr (list (list A))) :=
  fix go (gs : list (list A)) : M (Tr (list (list A))) :=
    match gs with
    | [] => ret (mkT [] false Continue)
    | g :: rest =>
        bind (map_until_stop_and_collect f g) (fun r0 =>
        match rest with
        | [] => ret (mkT [data r0] (changed r0) (rec r0))
        | _ =>
            (* .map_data(|c0| (c0, rest))?.transform_sibling(|(c0, rest)| rest.map(..)) *)
            match rec r0 with
            | Continue | Jump =>
                bind (go rest) (fun r1 => ret (mkT (data r0 :: data r1) (changed r1 || changed r0) (rec r1)))
            | Stop => ret (mkT (data r0 :: rest) (changed r0) Stop)
            end
        end)
    end.

Definition gvcall (ph : phase) (f : vcb) (t : gtree) : M tnr :=
  match t with GNode l _ => ([(ph, l)], f l) end.
Definition grcall (ph : phase) (f : rcb) (t : gtree) : M (Tr gtree) :=
  match t with GNode l gs => let '(l', ch, r) := f l in ([(ph, l)], mkT (GNode l' gs) ch r) end.
Definition gapply_children (k : gtree -> M tnr) (t : gtree) : M tnr :=
  match t with GNode _ gs => apply_groups k gs end.
Definition gmap_children_on (k : gtree -> M (Tr gtree)) (l : Z) (gs : list (list gtree)) : M (Tr gtree) :=
  bind (map_groups k gs) (fun r => ret (mkT (GNode l (data r)) (changed r) (rec r))).
Definition gmap_children (k : gtree -> M (Tr gtree)) (t : gtree) : M (Tr gtree) :=
  match t with GNode l gs => gmap_children_on k l gs end.

Fixpoint gapply (f : vcb) (t : gtree) : M tnr :=
  match t with
  | GNode l gs => bind ([(PDown, l)], f l) (fun r => visit_children r (fun _ => apply_groups (gapply f) gs))
  end.
Definition gexists (p : Z -> bool) (t : gtree) : M bool :=
  let (lg, _) := gapply (fun l => if p l then Stop else Continue) t in
  (lg, existsb (fun e => p (snd e)) lg).
Fixpoint gvisit (fd fu : vcb) (t : gtree) : M tnr :=
  match t with
  | GNode l gs =>
      bind ([(PDown, l)], fd l) (fun r =>
      bind (visit_children r (fun _ => apply_groups (gvisit fd fu) gs)) (fun rc =>
      visit_parent rc (fun _ => ([(PUp, l)], fu l))))
  end.
Fixpoint gtransform_down (f : rcb) (t : gtree) : M (Tr gtree) :=
  match t with
  | GNode l gs =>
      let '(l', ch, r) := f l in
      bind ([(PDown, l)], mkT (GNode l' gs) ch r) (fun t1 =>
      transform_children t1 (fun _ => gmap_children_on (gtransform_down f) l' gs))
  end.
Fixpoint gtransform_up (f : rcb) (t : gtree) : M (Tr gtree) :=
  match t with
  | GNode l gs =>
      bind (gmap_children_on (gtransform_up f) l gs) (fun t1 => transform_parent t1 (grcall PUp f))
  end.
Fixpoint gtransform_down_up (fd fu : rcb) (t : gtree) : M (Tr gtree) :=
  match t with
  | GNode l gs =>
      let '(l', ch, r) := fd l in
      bind ([(PDown, l)], mkT (GNode l' gs) ch r) (fun t1 =>
      bind (transform_children t1 (fun _ => gmap_children_on (gtransform_down_up fd fu) l' gs)) (fun t2 =>
      transform_parent t2 (grcall PUp fu)))
  end.

(* forgetting the grouping *)
Fixpoint flatten (t : gtree) : tree :=
  match t with GNode l gs => Node l (flat_map (map flatten) gs) end.
(* a grouped result and a flat result that agree: same log, same tree up to grouping, same flag, same directive *)
Definition gres_rel (x : M (Tr gtree)) (y : M (Tr tree)) : Prop :=
  fst x = fst y /\ flatten (data (snd x)) = data (snd y) /\
  changed (snd x) = changed (snd y) /\ rec (snd x) = rec (snd y).

(* the grouping is harmless exactly when no non-empty container is followed only by empty ones
   (e.g. CASE WHEN .. THEN .. END without ELSE, `x IN ()`, an aggregate without FILTER / ORDER BY violate it) *)
Definition is_nil {A} (l : list A) : bool := match l with [] => true | _ => false end.
Fixpoint groups_ok {A} (gs : list (list A)) : bool :=
  match gs with
  | [] => true
  | g :: rest =>
      match rest with
      | [] => true
      | _ => groups_ok rest && (negb (is_nil (concat rest)) || is_nil g)
      end
  end.
Fixpoint well_grouped (t : gtree) : bool :=
  match t with GNode _ gs => groups_ok gs && forallb (forallb well_grouped) gs end.

(* ================================================================== CORRESPONDENCE *)
Definition tnr_eqb (a b : tnr) : bool :=
  match a, b with Continue, Continue | Jump, Jump | Stop, Stop => true | _, _ => false end.
Definition phase_eqb (a b : phase) : bool :=
  match a, b with PDown, PDown | PUp, PUp => true | _, _ => false end.
Definition event_eqb (a b : event) : bool := phase_eqb (fst a) (fst b) && (snd a =? snd b).
Fixpoint tree_eqb (a b : tree) : bool :=
  match a, b with
  | Node la ca, Node lb cb =>
      (la =? lb) &&
      (fix go (x y : list tree) : bool :=
         match x, y with
         | [], [] => true
         | p :: x', q :: y' => tree_eqb p q && go x' y'
         | _, _ => false
         end) ca cb
  end.

(* callback tables: association list label -> decision; labels not listed get the default *)
Fixpoint vtab (tab : list (Z * tnr)) (l : Z) : tnr :=
  match tab with
  | [] => Continue
  | (k, v) :: r => if k =? l then v else vtab r l
  end.
Fixpoint rtab (tab : list (Z * (Z * bool * tnr))) (l : Z) : Z * bool * tnr :=
  match tab with
  | [] => (l, false, Continue)
  | (k, v) :: r => if k =? l then v else rtab r l
  end.

Inductive meth := MDown | MUp | MDownUp | MRewrite | MMapChildren.

Inductive c42_case :=
  | CApply (t : tree) (tab : list (Z * tnr)) (log : list event) (res : tnr)
  | CApplyChildren (t : tree) (tab : list (Z * tnr)) (log : list event) (res : tnr)
  | CExists (t : tree) (hits : list Z) (log : list event) (res : bool)
  | CVisit (t : tree) (dtab utab : list (Z * tnr)) (log : list event) (res : tnr)
  | CTrans (m : meth) (im : impl) (t : tree) (dtab utab : list (Z * (Z * bool * tnr)))
           (log : list event) (out : tree) (flag : bool) (res : tnr)
  (* the same observations made on a real Expr, modelled with its sibling containers *)
  | GApply (t : gtree) (tab : list (Z * tnr)) (log : list event) (res : tnr)
  | GApplyChildren (t : gtree) (tab : list (Z * tnr)) (log : list event) (res : tnr)
  | GExists (t : gtree) (hits : list Z) (log : list event) (res : bool)
  | GVisit (t : gtree) (dtab utab : list (Z * tnr)) (log : list event) (res : tnr)
  | GTrans (m : meth) (t : gtree) (dtab utab : list (Z * (Z * bool * tnr)))
           (log : list event) (out : tree) (flag : bool) (res : tnr).

Definition log_eqb := list_eqb event_eqb.
Definition tr_eqb (x : M (Tr tree)) (log : list event) (out : tree) (flag : bool) (res : tnr) : bool :=
  log_eqb (fst x) log && tree_eqb (data (snd x)) out && Bool.eqb (changed (snd x)) flag
  && tnr_eqb (rec (snd x)) res.

Definition c42_check (c : c42_case) : bool :=
  match c with
  | CApply t tab log res =>
      let x := apply (vtab tab) t in log_eqb (fst x) log && tnr_eqb (snd x) res
  | CApplyChildren t tab log res =>
      let x := apply_children (vcall PDown (vtab tab)) t in log_eqb (fst x) log && tnr_eqb (snd x) res
  | CExists t hits log res =>
      let x := exists_ (fun l => existsb (Z.eqb l) hits) t in log_eqb (fst x) log && Bool.eqb (snd x) res
  | CVisit t dtab utab log res =>
      let x := visit (vtab dtab) (vtab utab) t in log_eqb (fst x) log && tnr_eqb (snd x) res
  | CTrans m im t dtab utab log out flag res =>
      let x := match m with
               | MDown => transform_down im (rtab dtab) t
               | MUp => transform_up im (rtab utab) t
               | MDownUp => transform_down_up im (rtab dtab) (rtab utab) t
               | MRewrite => rewrite im (rtab dtab) (rtab utab) t
               | MMapChildren => map_children im (rcall PDown (rtab dtab)) t
               end in
      tr_eqb x log out flag res
  | GApply t tab log res =>
      let x := gapply (vtab tab) t in log_eqb (fst x) log && tnr_eqb (snd x) res
  | GApplyChildren t tab log res =>
      let x := gapply_children (gvcall PDown (vtab tab)) t in log_eqb (fst x) log && tnr_eqb (snd x) res
  | GExists t hits log res =>
      let x := gexists (fun l => existsb (Z.eqb l) hits) t in log_eqb (fst x) log && Bool.eqb (snd x) res
  | GVisit t dtab utab log res =>
      let x := gvisit (vtab dtab) (vtab utab) t in log_eqb (fst x) log && tnr_eqb (snd x) res
  | GTrans m t dtab utab log out flag res =>
      let x := match m with
               | MDown => gtransform_down (rtab dtab) t
               | MUp => gtransform_up (rtab utab) t
               | MDownUp | MRewrite => gtransform_down_up (rtab dtab) (rtab utab) t
               | MMapChildren => gmap_children (grcall PDown (rtab dtab)) t
               end in
      log_eqb (fst x) log && tree_eqb (flatten (data (snd x))) out && Bool.eqb (changed (snd x)) flag
      && tnr_eqb (rec (snd x)) res
  end.
