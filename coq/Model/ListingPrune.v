(* C27 -- partition-value pruning of listing tables.  Executable definitions only.
   Models datafusion/catalog-listing/src/helpers.rs:
     populate_partition_values, evaluate_partition_prefix, encode_partition_value,
     parse_partitions_for_path, try_into_partitioned_file, filter_partitioned_file (for
     conjunctions of `column = literal`), pruned_partition_list (prefix listing + per-file filter).
   Texts are byte lists.  A file is the list of its path segments below the table root
   (directories, then the file name), exactly as stored in the object store. *)
From DF Require Import Base.Prelude.
Open Scope Z_scope.

Definition text := list Z.
Definition text_eqb : text -> text -> bool := zlist_eqb.

(* ------------------------------------------------------------------ percent encoding *)
(* PARTITION_VALUE_ENCODE_SET = CONTROLS + ' ' '%' '/' '?' '#'; utf8_percent_encode also encodes
   every non-ASCII byte. *)
Definition needs_enc (b : Z) : bool :=
  (b <? 32) || (b =? 127) || (128 <=? b) || (b =? 32) || (b =? 37) || (b =? 47) || (b =? 63) || (b =? 35).

Definition hexd (n : Z) : Z := if n <? 10 then 48 + n else 55 + n.       (* upper-case hex digit *)

Fixpoint pct_encode (t : text) : text :=
  match t with
  | [] => []
  | b :: r => if needs_enc b then 37 :: hexd (b / 16) :: hexd (b mod 16) :: pct_encode r
              else b :: pct_encode r
  end.

Definition unhex (c : Z) : option Z :=
  if (48 <=? c) && (c <=? 57) then Some (c - 48)
  else if (65 <=? c) && (c <=? 70) then Some (c - 55)
  else if (97 <=? c) && (c <=? 102) then Some (c - 87)
  else None.

(* percent_decode_str: "%XY" with two hex digits is one byte, any other '%' is literal *)
Fixpoint pct_decode (t : text) : text :=
  match t with
  | [] => []
  | b :: r =>
      if b =? 37 then
        match r with
        | h :: l :: r' =>
            match unhex h, unhex l with
            | Some x, Some y => (x * 16 + y) :: pct_decode r'
            | _, _ => b :: pct_decode r
            end
        | _ => b :: pct_decode r
        end
      else b :: pct_decode r
  end.

(* percent_decode_str(val).decode_utf8().unwrap_or(val): the model is exact for texts whose decoded
   form is ASCII (the harness generates only such directory names); a decoded non-ASCII byte is
   treated as "keep the raw text", which is what the code does for invalid UTF-8. *)
Definition decode_val (v : text) : text :=
  let d := pct_decode v in
  if existsb (fun b => 128 <=? b) d then v else d.

(* ------------------------------------------------------------------ typed partition values *)
Inductive ty := TInt32 | TUtf8.
Inductive value := VInt (z : Z) | VStr (t : text).

Definition value_eqb (a b : value) : bool :=
  match a, b with
  | VInt x, VInt y => x =? y
  | VStr x, VStr y => text_eqb x y
  | _, _ => false
  end.

Definition is_digit (c : Z) : bool := (48 <=? c) && (c <=? 57).

Fixpoint digits_val (acc : Z) (t : text) : option Z :=
  match t with
  | [] => Some acc
  | c :: r => if is_digit c then digits_val (acc * 10 + (c - 48)) r else None
  end.

(* Arrow's string -> Int32 parser: optional sign, at least one digit, nothing else, in range *)
Definition parse_int32 (t : text) : option Z :=
  let '(neg, body) :=
    match t with
    | 45 :: r => (true, r)
    | 43 :: r => (false, r)
    | _ => (false, t)
    end in
  match body with
  | [] => None
  | _ =>
      match digits_val 0 body with
      | Some n => let z := if neg then - n else n in
                  if (-2147483648 <=? z) && (z <=? 2147483647) then Some z else None
      | None => None
      end
  end.

(* ScalarValue::try_from_string(text, type) *)
Definition parse_val (t : ty) (s : text) : option value :=
  match t with
  | TInt32 => match parse_int32 s with Some z => Some (VInt z) | None => None end
  | TUtf8 => Some (VStr s)
  end.

(* ScalarValue::to_string of a literal *)
Fixpoint nat_digits (fuel : nat) (n : Z) (acc : text) : text :=
  match fuel with
  | O => acc
  | S f => let acc' := (48 + n mod 10) :: acc in
           if n / 10 =? 0 then acc' else nat_digits f (n / 10) acc'
  end.
Definition show_int (z : Z) : text :=
  if z <? 0 then 45 :: nat_digits 20 (- z) [] else nat_digits 20 z [].
Definition show_lit (v : value) : text :=
  match v with VInt z => show_int z | VStr s => s end.

(* literal_has_single_spelling (the fix: commit): only string (and date) literals pin down the
   directory text; [false] for integers *)
Definition single_spelling (v : value) : bool :=
  match v with VStr _ => true | VInt _ => false end.

(* ------------------------------------------------------------------ filters *)
(* a conjunction of `column = literal` atoms (the only shape populate_partition_values looks at) *)
Definition atom := (text * value)%type.

(* PartitionValue: Some txt = Single(txt), None = Multi *)
Definition pvmap := list (text * option text).

Fixpoint pv_get (m : pvmap) (k : text) : option (option text) :=
  match m with
  | [] => None
  | (k', v) :: r => if text_eqb k' k then Some v else pv_get r k
  end.

Fixpoint pv_set (m : pvmap) (k : text) (v : option text) : pvmap :=
  match m with
  | [] => [(k, v)]
  | (k', v') :: r => if text_eqb k' k then (k', v) :: r else (k', v') :: pv_set r k v
  end.

(* HashMap::insert returning the previous entry: a second equality on a column makes it Multi *)
Definition pv_insert (spelling : value -> bool) (m : pvmap) (a : atom) : pvmap :=
  let '(k, lit) := a in
  match pv_get m k with
  | Some _ => pv_set m k None
  | None => pv_set m k (if spelling lit then Some (show_lit lit) else None)
  end.

Definition populate (spelling : value -> bool) (atoms : list atom) : pvmap :=
  fold_left (pv_insert spelling) atoms [].

Definition seg (name val : text) : text := name ++ 61 :: val.          (* "name=val" *)

(* evaluate_partition_prefix: one "col=value" segment per leading partition column that is pinned
   to a single text which needs no percent-encoding; stop at the first other column *)
Fixpoint prefix_parts (cols : list (text * ty)) (m : pvmap) : list text :=
  match cols with
  | [] => []
  | (p, _) :: r =>
      match pv_get m p with
      | Some (Some val) =>
          if text_eqb (pct_encode val) val then seg p val :: prefix_parts r m else []
      | _ => []
      end
  end.

Definition eval_prefix_gen (spelling : value -> bool) (cols : list (text * ty)) (atoms : list atom)
  : list text :=
  prefix_parts cols (populate spelling atoms).

Definition eval_prefix := eval_prefix_gen single_spelling.
(* the pinned upstream code: every literal's text was used *)
Definition eval_prefix_upstream := eval_prefix_gen (fun _ => true).

(* object-store listing under a prefix: whole leading segments must be equal *)
Fixpoint has_prefix (parts : list text) (file : list text) : bool :=
  match parts, file with
  | [], _ => true
  | p :: pr, s :: sr => text_eqb p s && has_prefix pr sr
  | _ :: _, [] => false
  end.

(* ------------------------------------------------------------------ per-file partition values *)
(* str::split_once('=') *)
Fixpoint split_eq (t : text) : option (text * text) :=
  match t with
  | [] => None
  | c :: r => if c =? 61 then Some ([], r)
              else match split_eq r with Some (a, b) => Some (c :: a, b) | None => None end
  end.

(* parse_partitions_for_path: zip the leading segments with the partition columns *)
Fixpoint parse_path (cols : list (text * ty)) (file : list text) : option (list text) :=
  match cols, file with
  | [], _ => Some []
  | _, [] => Some []                                   (* zip stops at the shorter side *)
  | (p, _) :: cr, s :: sr =>
      match split_eq s with
      | Some (name, v) =>
          if text_eqb name p
          then match parse_path cr sr with Some vs => Some (decode_val v :: vs) | None => None end
          else None
      | None => None
      end
  end.

(* try_into_partitioned_file: typed values; None = the file is skipped (not a partition path),
   Some None = a value does not parse at its type (the listing fails loudly) *)
Fixpoint typed_vals (cols : list (text * ty)) (vs : list text) : option (list value) :=
  match cols, vs with
  | (_, t) :: cr, v :: vr =>
      match parse_val t v, typed_vals cr vr with
      | Some x, Some xs => Some (x :: xs)
      | _, _ => None
      end
  | _, _ => Some []
  end.

Fixpoint lookup_val (cols : list (text * ty)) (vals : list value) (c : text) : option value :=
  match cols, vals with
  | (p, _) :: cr, v :: vr => if text_eqb p c then Some v else lookup_val cr vr c
  | _, _ => None
  end.

(* the conjunction of equality atoms on one file's partition values; an atom on a column that is
   not a partition column cannot be decided here: the harness never sends one *)
Definition atoms_true (cols : list (text * ty)) (vals : list value) (atoms : list atom) : bool :=
  forallb (fun a => match lookup_val cols vals (fst a) with
                    | Some v => value_eqb v (snd a)
                    | None => false
                    end) atoms.

(* does the file satisfy the filter?  (files that are not under a complete partition path, or whose
   values do not parse, do not) *)
Definition file_matches (cols : list (text * ty)) (atoms : list atom) (file : list text) : bool :=
  match parse_path cols file with
  | Some vs =>
      if Nat.eqb (length vs) (length cols)
      then match typed_vals cols vs with
           | Some vals => atoms_true cols vals atoms
           | None => false
           end
      else false
  | None => false
  end.

(* pruned_partition_list: list under the prefix, then filter each file *)
Definition pruned_gen (spelling : value -> bool) cols atoms (files : list (list text)) :=
  filter (fun f => has_prefix (eval_prefix_gen spelling cols atoms) f && file_matches cols atoms f) files.
Definition pruned := pruned_gen single_spelling.
Definition pruned_upstream := pruned_gen (fun _ => true).

(* scanning everything and filtering *)
Definition scan_all cols atoms (files : list (list text)) := filter (file_matches cols atoms) files.

(* a directory name is canonically encoded if re-encoding its decoded value gives it back *)
Definition canonical_seg (s : text) : bool :=
  match split_eq s with
  | Some (_, v) => text_eqb (pct_encode (decode_val v)) v
  | None => true
  end.
Definition canonical_file (f : list text) : bool := forallb canonical_seg f.

(* ------------------------------------------------------------------ correspondence *)
Definition tlist_eqb := list_eqb text_eqb.

Inductive c27_case :=
  | CPrefix (cols : list (text * ty)) (atoms : list atom) (observed : list text)
      (* evaluate_partition_prefix returned these segments ([] = None) *)
  | CPruned (cols : list (text * ty)) (atoms : list atom) (files kept : list (list text))
      (* pruned_partition_list over [files] returned [kept] (in listing order) *)
  | CParse (cols : list (text * ty)) (file : list text) (observed : option (list text)).
      (* parse_partitions_for_path *)

Definition c27_check (c : c27_case) : bool :=
  match c with
  | CPrefix cols atoms obs => tlist_eqb (eval_prefix cols atoms) obs
  | CPruned cols atoms files kept => list_eqb tlist_eqb (pruned cols atoms files) kept
  | CParse cols file obs =>
      match parse_path cols file, obs with
      | Some a, Some b => tlist_eqb a b
      | None, None => true
      | _, _ => false
      end
  end.
