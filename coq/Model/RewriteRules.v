(* C03 -- rewrite PATTERNS of DataFusion's logical optimizer rules, over the reference algebra of engine E1
   (Model/RefSQL.v).  Definitions only; proofs are in Proofs/RewriteRulesProofs.v.

   What is here
   * the syntactic side conditions the Rust rules compute, transcribed BY HAND as Gallina functions on RefSQL
     expressions:
       [null_rejecting S top e]   eliminate_outer_join.rs  extract_null_rejecting_sides (one join side at a time:
                                  S = "column index belongs to that side"; the Rust function computes both sides at
                                  once, union/intersection are pointwise)
       [eliminate_outer k ln rn]  eliminate_outer_join.rs  eliminate_outer
       [cols_all P e]             push_down_filter.rs      has_all_column_refs (ColumnChecker::is_left_only / is_right_only)
       [lr_is_preserved k], [on_lr_is_preserved k]          push_down_filter.rs / common/src/join_type.rs
       [combine_limit]            common/src/utils/mod.rs  combine_limit (push_down_limit.rs: Limit over Limit)
   * the rewrite patterns themselves are stated in the proofs file as equations between the pure combinators of
     RefSQL.v (filter, inner_join, left_join, ..., distinct, group_pairs, limit_offset, sort_pairs): the left-hand
     side is the plan shape the rule matches, the right-hand side the shape it produces, the hypotheses are the side
     condition the rule checks.  [eval_query] computes every plan node with exactly these combinators.
   * the correspondence checker [c03_check] used by the differential tie: the rows an optimised plan returned
     are an acceptable answer of the reference to the query.  It is C01's [agrees], extended by the SQL meaning of
     LIMIT without a total ORDER BY (any sub-bag of the right size). *)
From Coq Require Import List ZArith Bool.
From DF Require Import Base.Prelude Model.RefSQL.
Import ListNotations.
Open Scope Z_scope.

(* "the predicate value is TRUE" (rows with FALSE or UNKNOWN are dropped by WHERE / ON / HAVING) *)
Definition holds (t : tv) : bool := match t with TT => true | _ => false end.

(* ------------------------------------------------------------------ eliminate_outer_join.rs *)
(* extract_null_rejecting_sides, for one side.  [top] = the Rust parameter top_level.
   Deviation from the Rust text (deliberate, see the report): an IN list must be non-empty -- the reference
   evaluates [NULL IN ()] to FALSE, so [NOT (x IN ())] is TRUE on a NULL-padded row. *)
Fixpoint null_rejecting (S : Z -> bool) (top : bool) (e : expr) {struct e} : bool :=
  match e with
  | ECol dp i => (dp =? 0) && S i
  | EAnd a b => if top then null_rejecting S top a || null_rejecting S top b
                else null_rejecting S top a && null_rejecting S top b
  | EOr a b => null_rejecting S top a && null_rejecting S top b
  | ECmp _ a b => null_rejecting S false a || null_rejecting S false b        (* Operator::returns_null_on_null *)
  | EArith _ a b => null_rejecting S false a || null_rejecting S false b
  | ENot a => null_rejecting S false a
  | EIsNull true a => if top then null_rejecting S false a else false         (* IS NOT NULL *)
  | EInList _ a l => match l with [] => false | _ => null_rejecting S false a end
  | EBetween _ a _ _ => null_rejecting S false a
  | _ => false      (* IS NULL, IS [NOT] DISTINCT FROM, CASE, COALESCE, NULLIF, literals, subqueries *)
  end.

Definition eliminate_outer (k : join_kind) (left_non_nullable right_non_nullable : bool) : join_kind :=
  match k, left_non_nullable, right_non_nullable with
  | JLeft, _, true => JInner
  | JRight, true, _ => JInner
  | JFull, true, true => JInner
  | JFull, true, false => JLeft
  | JFull, false, true => JRight
  | _, _, _ => k
  end.

(* the row [r] is NULL in every column selected by S *)
Definition null_on (S : Z -> bool) (r : row) : Prop :=
  forall i v, S i = true -> nth_error r (Z.to_nat i) = Some v -> v = VNull.

Definition right_side (wl : Z) : Z -> bool := fun i => wl <=? i.
Definition left_side (wl : Z) : Z -> bool := fun i => (0 <=? i) && (i <? wl).

(* ------------------------------------------------------------------ push_down_filter.rs *)
(* every column reference to the current row satisfies P; expressions with subqueries are never "one side only"
   here (the reference's scope stack shifts under a subquery) *)
Fixpoint cols_all (P : Z -> bool) (e : expr) {struct e} : bool :=
  match e with
  | ECol dp i => if dp <=? 0 then P i else true
  | ELit _ => true
  | EArith _ a b | ECmp _ a b | EAnd a b | EOr a b | EDistinct _ a b | ENullif a b => cols_all P a && cols_all P b
  | ENot a | EIsNull _ a => cols_all P a
  | EBetween _ a lo hi => cols_all P a && cols_all P lo && cols_all P hi
  | EInList _ a l => cols_all P a && forallb (cols_all P) l
  | ECase ws els =>
      forallb (fun wt : expr * expr => match wt with (w, t) => cols_all P w && cols_all P t end) ws &&
      match els with Some x => cols_all P x | None => true end
  | ECoalesce l => forallb (cols_all P) l
  | EScalar _ | EExists _ _ | EInSub _ _ _ => false
  end.

(* (left preserved, right preserved) for a filter ABOVE the join / for a conjunct of the ON clause *)
Definition lr_is_preserved (k : join_kind) : bool * bool :=
  match k with JInner => (true, true) | JLeft => (true, false) | JRight => (false, true) | JFull => (false, false) end.
Definition on_lr_is_preserved (k : join_kind) : bool * bool :=
  match k with JInner => (true, true) | JLeft => (false, true) | JRight => (true, false) | JFull => (false, false) end.

(* ------------------------------------------------------------------ push_down_limit.rs *)
(* combine_limit(parent_skip, parent_fetch, child_skip, child_fetch); usize saturation at 2^64 is not modelled *)
Definition combine_limit (ps : Z) (pf : option Z) (cs : Z) (cf : option Z) : Z * option Z :=
  (cs + ps,
   match pf, cf with
   | Some p, Some c => Some (Z.min p (Z.max 0 (c - ps)))
   | Some p, None => Some p
   | None, Some c => Some (Z.max 0 (c - ps))
   | None, None => None
   end).

(* Sort with fetch = k: the first k rows of the sorted input *)
Definition sort_fetch (ds : list (bool * bool)) (k : option Z) (l : list (row * row)) : list (row * row) :=
  match k with Some n => firstn (Z.to_nat n) (sort_pairs ds l) | None => sort_pairs ds l end.

(* ------------------------------------------------------------------ GROUP BY as eval_query computes it *)
(* output rows of an aggregate with grouping keys [keyf] (non-empty key list) and aggregate part [aggf] *)
Definition group_rows (keyf : row -> row) (aggf : rel -> row) (R : rel) : rel :=
  map (fun g : row * rel => fst g ++ aggf (snd g)) (group_pairs (map (fun r => (keyf r, r)) R)).
(* ... and without grouping keys: exactly one group, even over an empty input *)
Definition global_agg (aggf : rel -> row) (R : rel) : rel := [aggf R].

(* ------------------------------------------------------------------ correspondence checker of the tie *)
Fixpoint strip_limits (q : query) : query * (rel -> rel) :=
  match q with
  | QLimit off lim q' => let '(q0, f) := strip_limits q' in (q0, fun R => limit_offset off lim (f R))
  | _ => (q, fun R => R)
  end.
Definition is_sort (q : query) : bool := match q with QSort _ _ => true | _ => false end.

(* are the observed rows an acceptable answer to q?  Top-level ORDER BY [LIMIT]: C01's ordered_ok (key sequence,
   valid top-k).  A stack of LIMITs over a sorted input (the generator sorts on all columns there) or no LIMIT:
   bag equality.  A stack of LIMITs over an unsorted input: SQL allows any sub-bag of the input of the right size. *)
Definition c03_agrees (f : nat) (d : db) (q : query) (obs : rel) : res bool :=
  match q with
  | QLimit _ _ (QSort _ _) => agrees f d q obs
  | QLimit _ _ _ =>
      let '(q0, g) := strip_limits q in
      if is_sort q0 then agrees f d q obs
      else R <- eval_query f d [] q0;; Ok (subbag obs R && Nat.eqb (length obs) (length (g R)))
  | _ => agrees f d q obs
  end.

Inductive c03_case := C03Case (d : db) (q : query) (obs : rel).

(* 0 agree, 1 disagree, 2 the reference fails with a run-time error (not compared), 3 ill-formed reference term *)
Definition c03_verdict (c : c03_case) : Z :=
  match c with
  | C03Case d q obs =>
      match c03_agrees refsql_fuel d q obs with
      | Ok true => 0
      | Ok false => 1
      | Err e => if runtime_err e then 2 else 3
      end
  end.
Definition c03_check (c : c03_case) : bool := let v := c03_verdict c in (v =? 0) || (v =? 2).
Definition c03_agree (c : c03_case) : bool := c03_verdict c =? 0.
Definition c03_wellformed (c : c03_case) : bool := negb (c03_verdict c =? 3).
