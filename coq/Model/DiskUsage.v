(* C21 (accounting half) -- DiskManager / RefCountedTempFile / FileSpillWriter usage accounting
   (datafusion/execution/src/disk_manager.rs).  Executable definitions only.

   State: the configured limit (max_temp_directory_size), the global counter used_disk_space,
   and per spill file its own counter (current_file_disk_usage) and whether a reference to it
   is still alive.  A write's I/O outcome is an input of the operation (the harness injects
   write failures with RLIMIT_FSIZE and reports what happened). *)
From DF Require Import Base.Prelude.
Open Scope Z_scope.

Record file := { fusage : Z; flive : bool }.
Record st := { limit : Z; used : Z; files : list file }.   (* position = file id *)

Definition init (lim : Z) : st := {| limit := lim; used := 0; files := [] |}.

Inductive op :=
  | Create                                  (* DiskManager::create_tmp_file *)
  | Write (f : Z) (len : Z) (io_ok : bool)  (* FileSpillWriter::write of len bytes; io_ok = write_all succeeded *)
  | Release (f : Z)                         (* last reference to the file dropped *)
  | SetLimit (n : Z).                       (* set_max_temp_directory_size *)

(* write results: 0 = Ok, 1 = rejected by the size limit, 2 = I/O error *)
Inductive out :=
  | OCreated (id : Z) (used : Z)
  | OWrite (res : Z) (used : Z) (fsize : Z)
  | OReleased (used : Z)
  | OLimit (used : Z)
  | OBadOp.                                 (* operation outside the stated preconditions *)

Definition zlen {A} (l : list A) : Z := Z.of_nat (length l).

Definition get_file (s : st) (f : Z) : option file :=
  if f <? 0 then None else nth_error (files s) (Z.to_nat f).

Fixpoint set_nth {A} (l : list A) (n : nat) (x : A) : list A :=
  match l, n with
  | [], _ => []
  | _ :: r, O => x :: r
  | y :: r, S m => y :: set_nth r m x
  end.

Definition put_file (s : st) (f : Z) (x : file) (u : Z) : st :=
  {| limit := limit s; used := u; files := set_nth (files s) (Z.to_nat f) x |}.

(* [fixed] selects the behaviour of the write_all error path:
   true  = the repaired code (the global charge is rolled back),
   false = the pinned upstream code (the charge leaks). *)
Definition step_gen (fixed : bool) (s : st) (o : op) : st * out :=
  match o with
  | Create =>
      ({| limit := limit s; used := used s; files := files s ++ [{| fusage := 0; flive := true |}] |},
       OCreated (zlen (files s)) (used s))
  | Write f len io_ok =>
      match get_file s f with
      | Some x =>
          if negb (flive x) || (len <? 0) then (s, OBadOp)
          else if len =? 0 then (s, OWrite 0 (used s) (fusage x))
          else
            let new_global := used s + len in                 (* fetch_add *)
            if limit s <? new_global                          (* new_global > limit *)
            then (s, OWrite 1 (used s) (fusage x))            (* fetch_sub: rolled back *)
            else if io_ok
            then let x' := {| fusage := fusage x + len; flive := true |} in
                 (put_file s f x' new_global, OWrite 0 new_global (fusage x'))
            else if fixed
            then (s, OWrite 2 (used s) (fusage x))
            else (put_file s f x new_global, OWrite 2 new_global (fusage x))
      | None => (s, OBadOp)
      end
  | Release f =>
      match get_file s f with
      | Some x =>
          if flive x
          then let u := used s - fusage x in                  (* Drop: fetch_sub(current usage) *)
               (put_file s f {| fusage := fusage x; flive := false |} u, OReleased u)
          else (s, OBadOp)
      | None => (s, OBadOp)
      end
  | SetLimit n =>
      if n <? 0 then (s, OBadOp)
      else ({| limit := n; used := used s; files := files s |}, OLimit (used s))
  end.

Definition step := step_gen true.
Definition step_leaky := step_gen false.

Fixpoint run (stp : st -> op -> st * out) (s : st) (ops : list op) : st * list out :=
  match ops with
  | [] => (s, [])
  | o :: r =>
      let '(s1, x) := stp s o in
      let '(s2, xs) := run stp s1 r in
      (s2, x :: xs)
  end.

(* bytes held by live spill files *)
Fixpoint live_bytes (l : list file) : Z :=
  match l with
  | [] => 0
  | x :: r => (if flive x then fusage x else 0) + live_bytes r
  end.

Definition all_released (s : st) : bool := forallb (fun x => negb (flive x)) (files s).

(* ------------------------------------------------------------------ correspondence *)
Definition out_eqb (a b : out) : bool :=
  match a, b with
  | OCreated i u, OCreated j v => (i =? j) && (u =? v)
  | OWrite r u f, OWrite r' u' f' => (r =? r') && (u =? u') && (f =? f')
  | OReleased u, OReleased v => u =? v
  | OLimit u, OLimit v => u =? v
  | OBadOp, OBadOp => true
  | _, _ => false
  end.

Inductive c21_case := C21 (lim : Z) (ops : list op) (observed : list out).

Definition c21_check (c : c21_case) : bool :=
  match c with
  | C21 lim ops obs => list_eqb out_eqb (snd (run step (init lim) ops)) obs
  end.
