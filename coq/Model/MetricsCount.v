(* C53 -- row-count metrics.  Model of datafusion/physical-expr-common/src/metrics/baseline.rs:
   BaselineMetrics (output_rows / output_batches counters, end_time set-or-not), record_output,
   done / try_done / Drop, and record_poll -- the counting wrapper every operator puts around the
   poll results of its output stream.  Plus: wrappers in series (each with its own counter, or
   several registered in the same MetricsSet, which `MetricsSet::output_rows` SUMS), and the
   verified monitor over observed plan executions.  Definitions only. *)
From Coq Require Import ZArith List Bool Lia.
From DF Require Import Base.Prelude.
Import ListNotations.
Open Scope Z_scope.

(* ---- poll results of a RecordBatch stream: Poll<Option<Result<RecordBatch>>>; a batch is its row count *)
Inductive poll :=
| Pending
| ReadyBatch (rows : Z)      (* Poll::Ready(Some(Ok(batch)))  *)
| ReadyErr                   (* Poll::Ready(Some(Err(_)))     *)
| ReadyNone.                 (* Poll::Ready(None)             *)

Definition poll_eqb (a b : poll) : bool :=
  match a, b with
  | Pending, Pending => true
  | ReadyBatch x, ReadyBatch y => x =? y
  | ReadyErr, ReadyErr => true
  | ReadyNone, ReadyNone => true
  | _, _ => false
  end.

(* ---- BaselineMetrics: the three observable fields *)
Record bm := { out_rows : Z; out_batches : Z; done : bool }.
Definition bm0 : bm := {| out_rows := 0; out_batches := 0; done := false |}.

(* impl RecordOutput for &RecordBatch: record_output(num_rows); output_batches.add(1) *)
Definition record_batch (s : bm) (n : Z) : bm :=
  {| out_rows := out_rows s + n; out_batches := out_batches s + 1; done := done s |}.
(* BaselineMetrics::done: end_time.record() *)
Definition set_done (s : bm) : bm := {| out_rows := out_rows s; out_batches := out_batches s; done := true |}.
(* Drop -> try_done: record the end time if not yet recorded *)
Definition drop_bm (s : bm) : bm := if done s then s else set_done s.

(* BaselineMetrics::record_poll: inspect, count, hand the SAME poll back *)
Definition record_poll (s : bm) (p : poll) : bm * poll :=
  match p with
  | Pending => (s, p)
  | ReadyBatch n => (record_batch s n, p)
  | ReadyErr => (set_done s, p)
  | ReadyNone => (set_done s, p)
  end.

(* a stream is the list of results of successive polls; the wrapped stream polls the inner one and
   passes each result through record_poll *)
Fixpoint run_wrapped (s : bm) (h : list poll) : bm * list poll :=
  match h with
  | [] => (s, [])
  | p :: r => let '(s1, o) := record_poll s p in
              let '(s2, os) := run_wrapped s1 r in (s2, o :: os)
  end.

(* ---- specification side *)
Definition rows_of (p : poll) : Z := match p with ReadyBatch n => n | _ => 0 end.
Definition is_batch (p : poll) : bool := match p with ReadyBatch _ => true | _ => false end.
Definition is_end (p : poll) : bool := match p with ReadyErr | ReadyNone => true | _ => false end.
Definition delivered_rows (h : list poll) : Z := fold_right (fun p a => rows_of p + a) 0 h.
Definition delivered_batches (h : list poll) : Z := Z.of_nat (length (filter is_batch h)).
Definition finished (h : list poll) : bool := existsb is_end h.

(* ---- wrappers in series over one stream.  `own`: every wrapper has its own BaselineMetrics.
   A node's reported output_rows is MetricsSet::output_rows = the SUM over every OutputRows metric
   registered in the node's metrics set; [reported_series k] = k wrappers of one node all registered there. *)
Fixpoint run_series (ss : list bm) (h : list poll) : list bm * list poll :=
  match ss with
  | [] => ([], h)
  | s :: r => let '(s', o) := run_wrapped s h in
              let '(r', o') := run_series r o in (s' :: r', o')
  end.
Definition reported_sum (ss : list bm) : Z := fold_right (fun s a => out_rows s + a) 0 ss.

(* ---- observed execution of a plan: per node the reported metric (None = the operator has no
   output_rows metric), the rows counted per partition directly above it, whether the node's
   output was consumed in full, and the children *)
Inductive obs := Node (reported : option Z) (produced : list Z) (full : bool) (kids : list obs).

Definition o_reported (t : obs) := match t with Node r _ _ _ => r end.
Definition o_produced (t : obs) := match t with Node _ p _ _ => p end.
Definition o_full (t : obs) := match t with Node _ _ f _ => f end.
Definition o_kids (t : obs) := match t with Node _ _ _ k => k end.

Definition zsum (l : list Z) : Z := fold_right Z.add 0 l.

(* the per-node predicate (declarative) and its boolean form *)
Definition node_exact (t : obs) : Prop :=
  forall r, o_reported t = Some r -> o_full t = true -> r = zsum (o_produced t).
Definition node_ok (t : obs) : bool :=
  match o_reported t with
  | Some r => if o_full t then r =? zsum (o_produced t) else true
  | None => true
  end.

(* sub-node relation: n occurs in the plan rooted at t *)
Inductive subnode : obs -> obs -> Prop :=
| sub_here : forall t, subnode t t
| sub_kid : forall n k t, In k (o_kids t) -> subnode n k -> subnode n t.

(* THE property on an observed execution: every node's reported count equals what it produced *)
Definition metrics_exact (t : obs) : Prop := forall n, subnode n t -> node_exact n.

(* the monitor *)
Fixpoint monitor_ok (t : obs) : bool :=
  match t with
  | Node r p f kids => node_ok (Node r p f kids) && forallb monitor_ok kids
  end.

(* ---- cases replayed from the harness *)
Inductive c53_case :=
| C53Poll (hist : list poll) (observed : list (Z * Z * bool * poll)) (after_drop : Z * bool)
| C53Plan (t : obs) (verdict : bool).

Fixpoint trace (s : bm) (h : list poll) : bm * list (Z * Z * bool * poll) :=
  match h with
  | [] => (s, [])
  | p :: r => let '(s1, o) := record_poll s p in
              let '(s2, os) := trace s1 r in (s2, (out_rows s1, out_batches s1, done s1, o) :: os)
  end.

Definition ob_eqb (a b : Z * Z * bool * poll) : bool :=
  let '(r1, b1, d1, p1) := a in let '(r2, b2, d2, p2) := b in
  (r1 =? r2) && (b1 =? b2) && Bool.eqb d1 d2 && poll_eqb p1 p2.

Fixpoint list_eqb {A} (e : A -> A -> bool) (a b : list A) : bool :=
  match a, b with
  | [], [] => true
  | x :: r, y :: s => e x y && list_eqb e r s
  | _, _ => false
  end.

Definition c53_check (c : c53_case) : bool :=
  match c with
  | C53Poll h o (r, d) =>
      let '(s, tr) := trace bm0 h in
      let s' := drop_bm s in
      list_eqb ob_eqb tr o && (out_rows s' =? r) && Bool.eqb (done s') d
  | C53Plan t v => Bool.eqb (monitor_ok t) v
  end.
