(* C05 -- join operators compute exactly their join type's result.  Executable definitions only.

   DEFINITION of the ten join types: RefSQL's pure nested-loop combinators (Model/RefSQL.v: inner_join, left_join,
   right_join, full_join, semi_join, anti_join) -- [join_def].  Rows are RefSQL rows (list value); join keys are read
   as nullable Int64 columns ([zcol]), a key is a list (option Z).

   ALGORITHM (a) build/probe hash join with a visited bitmap
     (datafusion/physical-plan/src/joins/hash_join/{exec.rs,stream.rs}, joins/utils.rs):
       build side = left; its rows with a matchable key are indexed by the HASH of the key (any hash function: a Section
       variable without hypotheses; chains list the most recently inserted row first, C14);
       the probe side arrives in batches of any size; per batch the candidate (probe idx, build idx) pairs -- rows with
       equal hash, NULL-key probe rows skipped under NullEqualsNothing -- come in PAGES (lookup with limit/offset,
       C14_paging_concat: the pages concatenate to the full candidate list; here: ANY split);  per page:
       equal_rows_arr (real key equality) and the residual filter, mark the build rows as visited
       (need_produce_result_in_final), index alignment range [joined_probe_idx+1, end) and
       adjust_indices_by_join_type (get_anti_indices / get_semi_indices / get_mark_indices transcribed), emit;
       after the last probe batch get_final_indices_from_bit_map.  Empty map: build_batch_empty_build_side.
       Null-aware anti joins (NOT IN): the probe_side_has_null / probe_side_non_empty / build_side_has_null rules.
   ALGORITHM (b) sort-merge join over key-sorted inputs (joins/sort_merge_join/): compare_join_arrays on the two head
       rows; Less / Greater: the smaller head row is unmatched; Equal: the two runs of rows with that key form a cross
       product to which the residual filter and the matched flags of the join type apply (modelled as the join type's
       nested loop over the two RUNS with the filter alone); batch plumbing, buffering and spilling not modelled.  *)
From Coq Require Import List ZArith Bool Arith Sorted.
From DF Require Import Base.Prelude Model.RefSQL.
Import ListNotations.
Open Scope Z_scope.

Inductive jtype := TInner | TLeft | TRight | TFull | TLeftSemi | TRightSemi | TLeftAnti | TRightAnti | TLeftMark | TRightMark.

(* ------------------------------------------------------------------ keys *)
Definition okey := list (option Z).
Definition zcol (i : nat) (r : row) : option Z := match nth i r VNull with VInt z => Some z | _ => None end.
Definition key_of (cols : list nat) (r : row) : okey := map (fun i => zcol i r) cols.

Definition oeq (nulleq : bool) (x y : option Z) : bool :=
  match x, y with
  | None, None => nulleq
  | Some a, Some b => a =? b
  | _, _ => false
  end.
Fixpoint keys_eq (nulleq : bool) (a b : okey) : bool :=
  match a, b with
  | [], [] => true
  | x :: a', y :: b' => oeq nulleq x y && keys_eq nulleq a' b'
  | _, _ => false
  end.
Definition no_null (a : okey) : bool := forallb (fun x => match x with Some _ => true | None => false end) a.
(* matchable_join_keys *)
Definition key_valid (nulleq : bool) (a : okey) : bool := nulleq || no_null a.

(* the join condition: equality keys under the NULL-equality mode AND the residual filter *)
Definition on_of (nulleq : bool) (kl kr : row -> okey) (filt : row -> row -> bool) : row -> row -> bool :=
  fun l r => keys_eq nulleq (kl l) (kr r) && filt l r.

(* ------------------------------------------------------------------ the definition *)
Definition flip_on (on : row -> row -> bool) : row -> row -> bool := fun r l => on l r.
Definition join_def (t : jtype) (on : row -> row -> bool) (wl wr : Z) (L R : rel) : rel :=
  match t with
  | TInner => inner_join on L R
  | TLeft => left_join on wr L R
  | TRight => right_join on wl L R
  | TFull => full_join on wl wr L R
  | TLeftSemi => semi_join on L R
  | TLeftAnti => anti_join on L R
  | TRightSemi => semi_join (flip_on on) R L
  | TRightAnti => anti_join (flip_on on) R L
  | TLeftMark => map (fun l => l ++ [VBool (existsb (on l) R)]) L
  | TRightMark => map (fun r => r ++ [VBool (existsb (fun l => on l r) L)]) R
  end.

(* NOT IN (null-aware anti join): keep x iff  key(x) NOT IN (keys of the other side)  is TRUE *)
Definition inj (x : option Z) : value := match x with Some z => VInt z | None => VNull end.
Definition is_TT (t : tv) : bool := match t with TT => true | _ => false end.
Definition not_in_def (k ki : row -> option Z) (X Inner : rel) : rel :=
  filter (fun x => is_TT (not_in3 (inj (k x)) (map (fun y => inj (ki y)) Inner))) X.

(* ------------------------------------------------------------------ (a) hash join *)
Definition need_final (t : jtype) : bool :=       (* need_produce_result_in_final *)
  match t with TLeft | TLeftAnti | TLeftSemi | TLeftMark | TFull => true | _ => false end.
Definition empty_build_empty_result (t : jtype) : bool :=   (* JoinType::empty_build_side_produces_empty_result *)
  match t with TInner | TLeft | TLeftSemi | TLeftAnti | TLeftMark | TRightSemi => true | _ => false end.

Fixpoint set_bit (bm : list bool) (i : nat) : list bool :=
  match bm, i with
  | [], _ => []
  | _ :: bm', O => true :: bm'
  | b :: bm', S i' => b :: set_bit bm' i'
  end.
Definition get_bit (bm : list bool) (i : nat) : bool := nth i bm false.

Definition memn (q : nat) (l : list nat) : bool := existsb (Nat.eqb q) l.

(* get_anti_indices(range s..e, input): the indices of the range that are not in the (ascending) input *)
Fixpoint anti_indices (s e next : nat) (inp : list nat) : list nat :=
  match inp with
  | [] => seq next (e - next)
  | i :: inp' =>
      if (i <? s)%nat then anti_indices s e next inp'
      else if (e <=? i)%nat then seq next (e - next)
      else seq next (i - next) ++ anti_indices s e (S i) inp'
  end.
(* get_semi_indices(range s..e, input): the distinct input indices inside the range *)
Fixpoint semi_indices (s e : nat) (prev : option nat) (inp : list nat) : list nat :=
  match inp with
  | [] => []
  | i :: inp' =>
      if (i <? s)%nat then semi_indices s e prev inp'
      else if (e <=? i)%nat then []
      else if (match prev with Some p => Nat.eqb p i | None => false end)
           then semi_indices s e (Some i) inp'
           else i :: semi_indices s e (Some i) inp'
  end.
(* get_mark_indices: one bit per index of the range *)
Definition mark_indices (s e : nat) (inp : list nat) : list (nat * bool) :=
  map (fun q => (q, memn q inp)) (seq s (e - s)).

Fixpoint split_pages {A} (sizes : list nat) (l : list A) : list (list A) :=
  match sizes with
  | [] => [l]
  | k :: sizes' => firstn k l :: split_pages sizes' (skipn k l)
  end.

Definition last_fst (prs : list (nat * nat)) : option nat :=
  match rev prs with pr :: _ => Some (fst pr) | [] => None end.

Section HashJoin.
  Variable hash : okey -> Z.
  Variable t : jtype.
  Variable nulleq : bool.
  Variables kb kp : row -> okey.           (* build (left) and probe (right) key *)
  Variable filt : row -> row -> bool.      (* residual filter: build row, probe row; NULL counts as false *)
  Variables wl wr : Z.                     (* arities, for NULL padding *)

  Definition brow (B : rel) (i : nat) : row := nth i B [].

  (* update_hash: rows with an unmatchable key are not inserted *)
  Definition build_index (B : rel) : list nat :=
    filter (fun i => key_valid nulleq (kb (brow B i))) (seq 0 (length B)).
  Definition bucket (B : rel) (h : Z) : list nat :=
    filter (fun i => hash (kb (brow B i)) =? h) (rev (build_index B)).
  Definition map_is_empty (B : rel) : bool := match build_index B with [] => true | _ => false end.

  Definition candidates (B pb : rel) : list (nat * nat) :=
    flat_map (fun p => let r := nth p pb [] in
                       if key_valid nulleq (kp r)
                       then map (fun b => (p, b)) (bucket B (hash (kp r)))
                       else [])
             (seq 0 (length pb)).

  (* equal_rows_arr, then apply_join_filter_to_indices *)
  Definition keep (B pb : rel) (pr : nat * nat) : bool :=
    let l := brow B (snd pr) in let r := nth (fst pr) pb [] in
    keys_eq nulleq (kb l) (kp r) && filt l r.

  (* adjust_indices_by_join_type + build_batch_from_indices for one page; prs = joined (probe, build) pairs *)
  Definition emit_page (B pb : rel) (prs : list (nat * nat)) (s e : nat) : rel :=
    let prow := fun q => nth q pb [] in
    let mk := fun pr : nat * nat => brow B (snd pr) ++ prow (fst pr) in
    let ps := map fst prs in
    match t with
    | TInner | TLeft => map mk prs
    | TRight | TFull => map mk prs ++ map (fun q => nulls wl ++ prow q) (anti_indices s e s ps)
    | TRightSemi => map prow (semi_indices s e None ps)
    | TRightAnti => map prow (anti_indices s e s ps)
    | TRightMark => map (fun qb : nat * bool => prow (fst qb) ++ [VBool (snd qb)]) (mark_indices s e ps)
    | TLeftSemi | TLeftAnti | TLeftMark => []
    end.

  (* process_probe_batch, called once per page of the current probe batch *)
  Fixpoint run_pages (B pb : rel) (pages : list (list (nat * nat))) (joined : option nat) (vis : list bool)
    : list bool * rel :=
    match pages with
    | [] => (vis, [])
    | pg :: rest =>
        let prs := filter (keep B pb) pg in
        let vis' := if need_final t then fold_left (fun bm pr => set_bit bm (snd pr)) prs vis else vis in
        let s := match joined with Some j => S j | None => O end in
        let e := match rest with
                 | [] => length pb                                             (* next_offset = None *)
                 | _ => match last_fst prs with Some p => S p | None => O end
                 end in
        let out := emit_page B pb prs s e in
        let joined' := match last_fst prs with Some p => Some p | None => joined end in
        let '(vis'', out') := run_pages B pb rest joined' vis' in
        (vis'', out ++ out')
    end.

  (* build_batch_empty_build_side *)
  Definition empty_map_batch (pb : rel) : rel :=
    if empty_build_empty_result t then []
    else match t with
         | TRightMark => map (fun r => r ++ [VBool false]) pb
         | TRightAnti => pb
         | _ => map (fun r => nulls wl ++ r) pb           (* Right, Full *)
         end.

  Definition probe_batch (B : rel) (sizes : list nat) (pb : rel) (vis : list bool) : list bool * rel :=
    if map_is_empty B then (vis, empty_map_batch pb)
    else run_pages B pb (split_pages sizes (candidates B pb)) None vis.

  (* all probe batches; paging.(i) = the page sizes used for batch i (missing = one page) *)
  Fixpoint probe_all (B : rel) (paging : list (list nat)) (pbs : list rel) (vis : list bool) : list bool * rel :=
    match pbs with
    | [] => (vis, [])
    | pb :: pbs' =>
        let '(vis', out) := probe_batch B (hd [] paging) pb vis in
        let '(vis'', out') := probe_all B (tl paging) pbs' vis' in
        (vis'', out ++ out')
    end.

  (* get_final_indices_from_bit_map + build_batch_from_indices *)
  Definition final_rows (B : rel) (vis : list bool) : rel :=
    let idx := seq 0 (length vis) in
    match t with
    | TLeftMark => map (fun i => brow B i ++ [VBool (get_bit vis i)]) idx
    | TLeftSemi => map (brow B) (filter (fun i => get_bit vis i) idx)
    | TLeft | TFull => map (fun i => brow B i ++ nulls wr) (filter (fun i => negb (get_bit vis i)) idx)
    | TLeftAnti => map (brow B) (filter (fun i => negb (get_bit vis i)) idx)
    | _ => []
    end.

  Definition hash_join (B : rel) (paging : list (list nat)) (pbs : list rel) : rel :=
    let '(vis, out) := probe_all B paging pbs (repeat false (length B)) in
    out ++ final_rows B vis.
End HashJoin.

(* ---- null-aware anti joins (single key column kb1 / kp1, NullEqualsNothing) *)
Section NullAware.
  Variable hash : okey -> Z.
  Variables kb1 kp1 : row -> option Z.
  Variable filt : row -> row -> bool.
  Variables wl wr : Z.
  Let kb := fun r => [kb1 r].
  Let kp := fun r => [kp1 r].
  Definition has_null_key (k1 : row -> option Z) (X : rel) : bool :=
    existsb (fun r => match k1 r with None => true | _ => false end) X.

  (* LeftAnti, null_aware: state = (probe_side_has_null, probe_side_non_empty, visited) *)
  Fixpoint na_left_probe (B : rel) (paging : list (list nat)) (pbs : list rel) (hasnull nonempty : bool) (vis : list bool)
    : bool * bool * list bool :=
    match pbs with
    | [] => (hasnull, nonempty, vis)
    | pb :: pbs' =>
        let nonempty' := nonempty || negb (Nat.eqb (length pb) 0) in
        let hasnull' := hasnull || has_null_key kp1 pb in
        if hasnull' then na_left_probe B (tl paging) pbs' hasnull' nonempty' vis
        else let '(vis', _) := probe_batch hash TLeftAnti false kb kp filt wl B (hd [] paging) pb vis in
             na_left_probe B (tl paging) pbs' hasnull' nonempty' vis'
    end.
  Definition na_left_anti (B : rel) (paging : list (list nat)) (pbs : list rel) : rel :=
    let '(hasnull, nonempty, vis) := na_left_probe B paging pbs false false (repeat false (length B)) in
    if hasnull then []
    else let idx := filter (fun i => negb (get_bit vis i)) (seq 0 (length vis)) in
         let idx' := if nonempty
                     then filter (fun i => match kb1 (brow B i) with None => false | _ => true end) idx
                     else idx in
         map (brow B) idx'.

  (* RightAnti, null_aware (CollectLeft, no filter) *)
  Fixpoint na_right_probe (B : rel) (paging : list (list nat)) (pbs : list rel) : rel :=
    match pbs with
    | [] => []
    | pb :: pbs' =>
        (if has_null_key kb1 B then []
         else if map_is_empty false kb B then pb      (* build_batch_empty_build_side: all probe rows *)
         else filter (fun r => match kp1 r with None => false | _ => true end)
                (snd (probe_batch hash TRightAnti false kb kp (fun _ _ => true) wl B (hd [] paging) pb (repeat false (length B)))))
        ++ na_right_probe B (tl paging) pbs'
    end.
End NullAware.

(* ------------------------------------------------------------------ (b) sort-merge join *)
(* the ordering the inputs are sorted by: per column (descending, nulls_first); NULL = NULL *)
Definition ocmp (o : bool * bool) (a b : option Z) : comparison :=
  match a, b with
  | None, None => Eq
  | None, Some _ => if snd o then Lt else Gt
  | Some _, None => if snd o then Gt else Lt
  | Some x, Some y => if fst o then (y ?= x) else (x ?= y)
  end.
Fixpoint scmp (so : list (bool * bool)) (a b : okey) : comparison :=
  match a, b with
  | [], [] => Eq
  | [], _ :: _ => Lt
  | _ :: _, [] => Gt
  | x :: a', y :: b' => match ocmp (hd (false, false) so) x y with Eq => scmp (tl so) a' b' | c => c end
  end.
(* compare_join_arrays: like the sort order, but NULL vs NULL is Less under NullEqualsNothing *)
Fixpoint kcmp (nulleq : bool) (so : list (bool * bool)) (a b : okey) : comparison :=
  match a, b with
  | [], [] => Eq
  | [], _ :: _ => Lt
  | _ :: _, [] => Gt
  | x :: a', y :: b' =>
      match x, y with
      | None, None => if nulleq then kcmp nulleq (tl so) a' b' else Lt
      | _, _ => match ocmp (hd (false, false) so) x y with Eq => kcmp nulleq (tl so) a' b' | c => c end
      end
  end.
Definition is_eq (c : comparison) : bool := match c with Eq => true | _ => false end.
Definition key_sorted (so : list (bool * bool)) (k : row -> okey) (X : rel) : Prop :=
  StronglySorted (fun a b => scmp so (k a) (k b) <> Gt) X.
Fixpoint key_sortedb (so : list (bool * bool)) (k : row -> okey) (X : rel) : bool :=
  match X with
  | [] => true
  | a :: X' => forallb (fun b => negb (match scmp so (k a) (k b) with Gt => true | _ => false end)) X' && key_sortedb so k X'
  end.

Fixpoint take_while {A} (f : A -> bool) (l : list A) : list A :=
  match l with [] => [] | x :: l' => if f x then x :: take_while f l' else [] end.
Fixpoint drop_while {A} (f : A -> bool) (l : list A) : list A :=
  match l with [] => [] | x :: l' => if f x then drop_while f l' else l end.

Section SMJ.
  Variable t : jtype.
  Variable nulleq : bool.
  Variable so : list (bool * bool).
  Variables kl kr : row -> okey.
  Variable filt : row -> row -> bool.
  Variables wl wr : Z.

  Fixpoint smj (fuel : nat) (L R : rel) : rel :=
    match fuel with
    | O => []
    | S f =>
        match L, R with
        | [], _ => join_def t filt wl wr [] R            (* only unmatched right rows remain *)
        | _, [] => join_def t filt wl wr L []            (* only unmatched left rows remain *)
        | l :: L', r :: R' =>
            match kcmp nulleq so (kl l) (kr r) with
            | Lt => join_def t filt wl wr [l] [] ++ smj f L' R
            | Gt => join_def t filt wl wr [] [r] ++ smj f L R'
            | Eq =>
                let inl := fun x => is_eq (kcmp nulleq so (kl x) (kr r)) in
                let inr := fun y => is_eq (kcmp nulleq so (kl l) (kr y)) in
                (* the two runs with this key: cross product, residual filter, matched flags *)
                join_def t filt wl wr (take_while inl L) (take_while inr R)
                ++ smj f (drop_while inl L) (drop_while inr R)
            end
        end
    end.
  Definition smj_run (L R : rel) : rel := smj (S (length L + length R)) L R.
End SMJ.

(* ------------------------------------------------------------------ observation cases *)
Inductive filt_spec := FNone | FLt | FEvenSum | FLeftGe (c : Z) | FRightGe (c : Z) | FConst (b : bool).
(* over the value column 3 of both sides; a NULL result does not pass *)
Definition filt_of (f : filt_spec) : row -> row -> bool :=
  fun l r =>
    match f, zcol 3 l, zcol 3 r with
    | FNone, _, _ => true
    | FConst b, _, _ => b          (* a filter without columns; constant NULL counts as false *)
    | FLt, Some a, Some b => a <? b
    | FEvenSum, Some a, Some b => (a + b) mod 2 =? 0
    | FLeftGe c, Some a, _ => c <=? a
    | FRightGe c, _, Some b => c <=? b
    | _, _, _ => false
    end.

Inductive c05_op := OHashJoin | OSortMerge | OOther.
(* a toy hash with many collisions: the theorems hold for every hash function *)
Definition toy_hash (k : okey) : Z :=
  fold_right (fun x acc => match x with Some z => z | None => 7 end + acc) 0 k mod 3.

Inductive c05_case :=
  C05 (op : c05_op) (t : jtype) (nulleq : bool) (kcols : list nat) (f : filt_spec) (null_aware : bool)
      (limit : Z) (so : list (bool * bool)) (L : rel) (Rb : list rel) (observed : rel).

Definition pages_of_limit (limit : Z) (n : nat) : list nat := repeat (Z.to_nat limit) n.

Definition c05_expected (t : jtype) (nulleq : bool) (kcols : list nat) (f : filt_spec) (na : bool) (L R : rel) : rel :=
  if na then
    match t with
    | TLeftAnti => not_in_def (zcol (hd O kcols)) (zcol (hd O kcols)) L R
    | _ => not_in_def (zcol (hd O kcols)) (zcol (hd O kcols)) R L
    end
  else join_def t (on_of nulleq (key_of kcols) (key_of kcols) (filt_of f)) 4 4 L R.

Definition c05_model (op : c05_op) (t : jtype) (nulleq : bool) (kcols : list nat) (f : filt_spec) (na : bool)
           (limit : Z) (so : list (bool * bool)) (L : rel) (Rb : list rel) : option rel :=
  let k := key_of kcols in
  let k1 := zcol (hd O kcols) in
  match op with
  | OHashJoin =>
      let paging := map (fun pb : rel => pages_of_limit limit (Nat.div (length L * length pb) (Z.to_nat limit))) Rb in
      Some (if na then
              match t with
              | TLeftAnti => na_left_anti toy_hash k1 k1 (filt_of f) 4 L paging Rb
              | _ => na_right_probe toy_hash k1 k1 4 L paging Rb
              end
            else hash_join toy_hash t nulleq k k (filt_of f) 4 4 L paging Rb)
  | OSortMerge =>
      let R := concat Rb in
      if key_sortedb so k L && key_sortedb so k R
      then Some (smj_run t nulleq so k k (filt_of f) 4 4 L R)
      else None
  | OOther => Some (c05_expected t nulleq kcols f na L (concat Rb))
  end.

(* the implementation's output bag = the definition = the algorithm model, all three on the same input *)
Definition c05_check (c : c05_case) : bool :=
  match c with
  | C05 op t nulleq kcols f na limit so L Rb obs =>
      bag_eqb obs (c05_expected t nulleq kcols f na L (concat Rb)) &&
      match c05_model op t nulleq kcols f na limit so L Rb with
      | Some m => bag_eqb obs m
      | None => false
      end
  end.
