(* C09 -- GROUPS frames: the whole-partition run of the GROUPS state machine and a bounded exhaustive comparison
   with the declarative definition (definitions only). *)
From DF Require Import Base.Prelude Model.WindowFrame.
Open Scope Z_scope.

(* AggregateWindowExpr::aggregate_evaluate over a GROUPS frame: rows in order, one WindowFrameStateGroups *)
Fixpoint groups_run (f : frame) (ks : list key) (st : gstate) (i fuel : nat) : list outcome :=
  match fuel with
  | O => []
  | S fu => let '(st', o) := groups_range f ks st (length ks) i in o :: groups_run f ks st' (S i) fu
  end.

(* all key lists of length n over the given alphabet *)
Fixpoint lists_of (alphabet : list key) (n : nat) : list (list key) :=
  match n with
  | O => [[]]
  | S m => flat_map (fun l => map (fun a => a :: l) alphabet) (lists_of alphabet m)
  end.
Fixpoint lists_upto (alphabet : list key) (n : nat) : list (list key) :=
  match n with
  | O => [[]]
  | S m => lists_of alphabet (S m) ++ lists_upto alphabet m
  end.

Definition bounds_upto (m : nat) : list bound :=
  [UnbPrec; Cur; UnbFoll] ++ map (fun k => Prec (Z.of_nat k)) (seq 0 (S m)) ++ map (fun k => Foll (Z.of_nat k)) (seq 0 (S m)).

Definition groups_frames_upto (m : nat) : list frame :=
  filter frame_valid
    (flat_map (fun sb => map (fun eb => {| funits := Groups; fstart := sb; fend := eb |}) (bounds_upto m)) (bounds_upto m)).

Definition so_any : sortopt := {| so_desc := false; so_nf := false |}.   (* GROUPS frames do not use the sort options *)

(* the run over the whole partition gives, for every row, exactly the declarative frame *)
Definition groups_agree (f : frame) (ks : list key) : bool :=
  let outs := groups_run f ks g_init 0 (length ks) in
  Nat.eqb (length outs) (length ks) &&
  forallb (fun p : outcome * nat =>
             match fst p with
             | ORange s e => list_eqb Nat.eqb (decl_frame so_any f ks (snd p)) (seq (Z.to_nat s) (Z.to_nat e - Z.to_nat s))
             | _ => false
             end)
          (combine outs (seq 0 (length ks))).

(* every partition of at most n rows over a two-letter key alphabet (all adjacent equal/different patterns, also
   non-adjacent repetitions) plus NULL x every valid GROUPS frame with offsets at most m *)
Definition groups_exhaustive (n m : nat) : bool :=
  forallb (fun ks => forallb (fun f => groups_agree f ks) (groups_frames_upto m))
          (lists_upto [Some 0; Some 1; None] n).
