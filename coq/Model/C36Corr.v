(* C36 -- instantiation of the physical-plan record models with the GENERATED tables of Gen/ProtoEnumsPhys.v, and the checker that
   compares the model with what the real try_to_proto / try_from_proto were observed to produce. Definitions only. *)
From Coq Require Import List ZArith String Bool.
From DF Require Import Base.Prelude Model.ProtoCodec Gen.ProtoEnumsPhys.
Import ListNotations.
Open Scope Z_scope.

Definition c36_hj := hj PJoinType PartitionMode PNullEquality.
Definition c36_enc_hj : c36_hj -> p_hj := enc_hj _ _ _ table_PJoinType table_PartitionMode table_PNullEquality.
Definition c36_dec_hj : p_hj -> option c36_hj := dec_hj _ _ _ table_PJoinType table_PartitionMode table_PNullEquality.

Definition zlist_eqb : list Z -> list Z -> bool :=
  fix go (a b : list Z) : bool := match a, b with [], [] => true | x :: a', y :: b' => (x =? y) && go a' b' | _, _ => false end.
Definition oz_eqb (a b : option Z) : bool := match a, b with Some x, Some y => x =? y | None, None => true | _, _ => false end.
Definition ozl_eqb (a b : option (list Z)) : bool := match a, b with Some x, Some y => zlist_eqb x y | None, None => true | _, _ => false end.
Definition p_hj_eqb (a b : p_hj) : bool :=
  (ph_type a =? ph_type b) && (ph_mode a =? ph_mode b) && (ph_nulleq a =? ph_nulleq b) && Bool.eqb (ph_null_aware a) (ph_null_aware b) &&
  zlist_eqb (ph_projection a) (ph_projection b) && oz_eqb (ph_fetch a) (ph_fetch b).
Definition hj_eqb (a b : c36_hj) : bool :=
  eqb_PJoinType (hj_type _ _ _ a) (hj_type _ _ _ b) && eqb_PartitionMode (hj_mode _ _ _ a) (hj_mode _ _ _ b) &&
  eqb_PNullEquality (hj_nulleq _ _ _ a) (hj_nulleq _ _ _ b) && Bool.eqb (hj_null_aware _ _ _ a) (hj_null_aware _ _ _ b) &&
  ozl_eqb (hj_projection _ _ _ a) (hj_projection _ _ _ b) && oz_eqb (hj_fetch _ _ _ a) (hj_fetch _ _ _ b).

(* a HashJoinExec's options by variant NAME (as the harness prints them) *)
Definition mk_hj_named (jt pm ne : string) (na : bool) (proj : option (list Z)) (fetch : option Z) : option c36_hj :=
  match find_variant table_PJoinType jt, find_variant table_PartitionMode pm, find_variant table_PNullEquality ne with
  | Some a, Some b, Some c => Some (mk_hj _ _ _ a b c na proj fetch)
  | _, _, _ => None
  end.

Inductive c36_case :=
| CTabP (c : pc_case)
| CHj (jt pm ne : string) (na : bool) (proj : option (list Z)) (fetch : option Z)      (* the operator *)
      (wire : p_hj)                                                                    (* HashJoinExecNode written by try_to_proto *)
      (bjt bpm bne : string) (bna : bool) (bproj : option (list Z)) (bfetch : option Z) (* the operator try_from_proto builds *)
| CSort (desc nf : bool) (w_asc w_nf : bool) (b_desc b_nf : bool).

Definition c36_check (c : c36_case) : bool :=
  match c with
  | CTabP t => check_case_physical t
  | CHj jt pm ne na proj fetch wire bjt bpm bne bna bproj bfetch =>
      match mk_hj_named jt pm ne na proj fetch, mk_hj_named bjt bpm bne bna bproj bfetch with
      | Some h, Some b => p_hj_eqb (c36_enc_hj h) wire &&
                          match c36_dec_hj wire with Some d => hj_eqb d b | None => false end
      | _, _ => false
      end
  | CSort desc nf w_asc w_nf b_desc b_nf =>
      let p := enc_sort (mk_so desc nf) in
      Bool.eqb (ps_asc p) w_asc && Bool.eqb (ps_nulls_first p) w_nf &&
      let o := dec_sort (mk_ps w_asc w_nf) in Bool.eqb (so_descending o) b_desc && Bool.eqb (so_nulls_first o) b_nf
  end.
