(* Engine E1 "RefSQL": an executable reference semantics of a SQL core, in Gallina.

   Interface (used by C01, reusable by C02, C03, C41, C48):
     value, row, rel, db            data
     expr, query, agg_fn            syntax (expressions may contain subqueries; a scope stack [env] gives
                                    correlated subqueries access to the rows of the enclosing queries)
     eval_expr, eval_query          fuel-indexed total evaluators returning [res]
     run_query db q                 = eval_query refsql_fuel db [] q
     bag_eqb, subbag, ordered_ok    comparison of an observed result with the reference
     c01_case, c01_verdict, c01_check, c01_agree

   Semantic building blocks (the laws in Proofs/RefSQLLaws.v are stated about these, for arbitrary
   predicates / relations):  and3 or3 not3, cmp3, in3, all3, filter (stdlib), inner_join, left_join,
   right_join, full_join, semi_join, anti_join, distinct, union/intersect_all/except_all, sort_pairs,
   limit_offset, group_pairs, agg_apply.

   Not covered (later work): window functions, recursive CTEs, GROUPING SETS, LIKE, floats other than avg
   (avg is the exact rational VRat num den, den > 0, gcd-normalised), decimals, temporal types.
   Comparisons between values of different types are not part of the fragment (the generator is typed);
   [vcompare] totalises them by a fixed order on the constructors so that the laws need no typing side
   conditions.  Definitions only; proofs are in Proofs/RefSQLLaws.v. *)
From Coq Require Import List ZArith Bool.
From DF Require Import Base.Prelude.
Import ListNotations.
Open Scope Z_scope.

(* ------------------------------------------------------------------ values *)
Inductive value :=
| VNull
| VInt (z : Z)
| VBool (b : bool)
| VStr (s : list Z)          (* bytes *)
| VRat (n d : Z).            (* only produced by avg: n/d, d > 0, gcd n d = 1 *)

Definition row := list value.
Definition rel := list row.
Definition db := list rel.

Definition value_eqb (a b : value) : bool :=
  match a, b with
  | VNull, VNull => true
  | VInt x, VInt y => x =? y
  | VBool x, VBool y => Bool.eqb x y
  | VStr x, VStr y => list_eqb Z.eqb x y
  | VRat n d, VRat n' d' => (n =? n') && (d =? d')
  | _, _ => false
  end.
(* structural equality: NULL equals NULL and nothing else (grouping, DISTINCT, set operations, bags) *)
Definition row_eqb (a b : row) : bool := list_eqb value_eqb a b.

Definition is_null (v : value) : bool := match v with VNull => true | _ => false end.

(* ------------------------------------------------------------------ errors *)
Inductive err := EOverflow | EDivZero | ECard | EType | EFuel | EScope.
Inductive res (A : Type) := Ok (a : A) | Err (e : err).
Arguments Ok {A} a.
Arguments Err {A} e.

Definition bind {A B} (x : res A) (f : A -> res B) : res B :=
  match x with Ok a => f a | Err e => Err e end.
Notation "x <- a ;; b" := (bind a (fun x => b)) (at level 61, a at next level, right associativity).

Fixpoint mapM {A B} (f : A -> res B) (l : list A) : res (list B) :=
  match l with
  | [] => Ok []
  | x :: l' => y <- f x;; ys <- mapM f l';; Ok (y :: ys)
  end.

(* an error that SQL allows at run time (comparison with the engine is skipped) vs. an ill-formed term *)
Definition runtime_err (e : err) : bool :=
  match e with EOverflow | EDivZero | ECard => true | _ => false end.

(* ------------------------------------------------------------------ three-valued logic *)
Inductive tv := TT | TF | TU.

Definition and3 (a b : tv) : tv :=
  match a, b with
  | TF, _ | _, TF => TF
  | TT, TT => TT
  | _, _ => TU
  end.
Definition or3 (a b : tv) : tv :=
  match a, b with
  | TT, _ | _, TT => TT
  | TF, TF => TF
  | _, _ => TU
  end.
Definition not3 (a : tv) : tv := match a with TT => TF | TF => TT | TU => TU end.

Definition tv_eqb (a b : tv) : bool :=
  match a, b with TT, TT | TF, TF | TU, TU => true | _, _ => false end.

Definition tv_of_value (v : value) : res tv :=
  match v with
  | VBool true => Ok TT
  | VBool false => Ok TF
  | VNull => Ok TU
  | _ => Err EType
  end.
Definition value_of_tv (t : tv) : value :=
  match t with TT => VBool true | TF => VBool false | TU => VNull end.
Definition tv_of_bool (b : bool) : tv := if b then TT else TF.

(* "the predicate evaluated to TRUE" *)
Definition is_tt (x : res tv) : bool := match x with Ok TT => true | _ => false end.

(* ------------------------------------------------------------------ comparison *)
Fixpoint str_cmp (a b : list Z) : comparison :=
  match a, b with
  | [], [] => Eq
  | [], _ :: _ => Lt
  | _ :: _, [] => Gt
  | x :: a', y :: b' => match x ?= y with Eq => str_cmp a' b' | c => c end
  end.
Definition bool_cmp (a b : bool) : comparison :=
  match a, b with
  | false, true => Lt
  | true, false => Gt
  | _, _ => Eq
  end.
Definition tag (v : value) : Z :=
  match v with VNull => 0 | VBool _ => 1 | VInt _ => 2 | VRat _ _ => 2 | VStr _ => 3 end.

(* total order on non-NULL values (NULL is handled by the callers) *)
Definition vcmp_nn (a b : value) : comparison :=
  match a, b with
  | VInt x, VInt y => x ?= y
  | VBool x, VBool y => bool_cmp x y
  | VStr x, VStr y => str_cmp x y
  | VInt x, VRat n d => x * d ?= n
  | VRat n d, VInt y => n ?= y * d
  | VRat n d, VRat n' d' => n * d' ?= n' * d
  | _, _ => tag a ?= tag b
  end.

(* SQL comparison: unknown (None) as soon as one side is NULL *)
Definition vcompare (a b : value) : option comparison :=
  match a, b with
  | VNull, _ | _, VNull => None
  | _, _ => Some (vcmp_nn a b)
  end.

Inductive cmp_op := CEq | CNe | CLt | CLe | CGt | CGe.
Definition cmp_holds (op : cmp_op) (c : comparison) : bool :=
  match op, c with
  | CEq, Eq => true
  | CNe, Lt | CNe, Gt => true
  | CLt, Lt => true
  | CLe, Lt | CLe, Eq => true
  | CGt, Gt => true
  | CGe, Gt | CGe, Eq => true
  | _, _ => false
  end.
Definition cmp3 (op : cmp_op) (a b : value) : tv :=
  match vcompare a b with
  | None => TU
  | Some c => tv_of_bool (cmp_holds op c)
  end.
Definition eq3 := cmp3 CEq.
Definition ne3 := cmp3 CNe.

(* x IN (v1, ..., vn)  =  x = v1 OR ... OR x = vn ;   ALL-quantified comparison *)
Definition any3 (l : list tv) : tv := fold_right or3 TF l.
Definition all3 (l : list tv) : tv := fold_right and3 TT l.
Definition in3 (x : value) (vs : list value) : tv := any3 (map (eq3 x) vs).
Definition not_in3 (x : value) (vs : list value) : tv := not3 (in3 x vs).

(* IS NOT DISTINCT FROM: two-valued, NULL is not distinct from NULL *)
Definition not_distinct (a b : value) : bool :=
  match a, b with
  | VNull, VNull => true
  | VNull, _ | _, VNull => false
  | _, _ => match vcmp_nn a b with Eq => true | _ => false end
  end.

(* ------------------------------------------------------------------ arithmetic (Int64, checked) *)
Inductive arith_op := AAdd | ASub | AMul | ADiv | AMod.
Definition in_i64 (z : Z) : bool := (-9223372036854775808 <=? z) && (z <=? 9223372036854775807).
Definition chk64 (z : Z) : res value := if in_i64 z then Ok (VInt z) else Err EOverflow.
Definition arith (op : arith_op) (a b : value) : res value :=
  match a, b with
  | VNull, (VNull | VInt _) | VInt _, VNull => Ok VNull
  | VInt x, VInt y =>
      match op with
      | AAdd => chk64 (x + y)
      | ASub => chk64 (x - y)
      | AMul => chk64 (x * y)
      | ADiv => if y =? 0 then Err EDivZero else chk64 (Z.quot x y)
      | AMod => if y =? 0 then Err EDivZero else chk64 (Z.rem x y)
      end
  | _, _ => Err EType
  end.

(* ------------------------------------------------------------------ syntax *)
Inductive join_kind := JInner | JLeft | JRight | JFull.
Inductive setop := SUnion | SIntersect | SExcept.
Inductive agg_fn := FCountStar | FCount | FCountDistinct | FSum | FMin | FMax | FAvg.

Inductive expr :=
| ECol (depth idx : Z)                         (* depth 0 = innermost row of the scope stack *)
| ELit (v : value)
| EArith (op : arith_op) (a b : expr)
| ECmp (op : cmp_op) (a b : expr)
| EAnd (a b : expr)
| EOr (a b : expr)
| ENot (a : expr)
| EIsNull (neg : bool) (a : expr)              (* IS NULL / IS NOT NULL *)
| EDistinct (neg : bool) (a b : expr)          (* IS DISTINCT FROM / IS NOT DISTINCT FROM (neg = true) *)
| EBetween (neg : bool) (a lo hi : expr)
| EInList (neg : bool) (a : expr) (l : list expr)
| ECase (ws : list (expr * expr)) (els : option expr)   (* searched CASE *)
| ECoalesce (l : list expr)
| ENullif (a b : expr)
| EScalar (q : query)
| EExists (neg : bool) (q : query)
| EInSub (neg : bool) (a : expr) (q : query)
with query :=
| QTable (n : Z)
| QValues (r : rel)
| QFilter (p : expr) (q : query)
| QProject (es : list expr) (q : query)
| QJoin (k : join_kind) (wl wr : Z) (on : expr) (l r : query)   (* wl, wr: arities, for null padding *)
| QSemi (anti : bool) (on : expr) (l r : query)
| QGroup (keys : list expr) (aggs : list (agg_fn * expr)) (having : option expr) (q : query)
    (* output row = key values ++ aggregate values; HAVING sees the output row *)
| QDistinct (q : query)
| QSetOp (op : setop) (all : bool) (l r : query)
| QSort (keys : list (expr * (bool * bool))) (q : query)  (* (key over q's output row, (desc, nulls_first)) *)
| QLimit (off : Z) (lim : option Z) (q : query).

(* ------------------------------------------------------------------ relational combinators (pure) *)
Definition nulls (w : Z) : row := repeat VNull (Z.to_nat w).

Definition inner_join (on : row -> row -> bool) (L R : rel) : rel :=
  flat_map (fun l => map (fun r => l ++ r) (filter (on l) R)) L.

(* nested loop over the preserved side: its matches, or itself padded with NULLs when there are none *)
Definition left_join (on : row -> row -> bool) (wr : Z) (L R : rel) : rel :=
  flat_map (fun l => match filter (on l) R with
                     | [] => [l ++ nulls wr]
                     | ms => map (fun r => l ++ r) ms
                     end) L.
Definition right_join (on : row -> row -> bool) (wl : Z) (L R : rel) : rel :=
  flat_map (fun r => match filter (fun l => on l r) L with
                     | [] => [nulls wl ++ r]
                     | ms => map (fun l => l ++ r) ms
                     end) R.
Definition unmatched_right (on : row -> row -> bool) (L R : rel) : rel :=
  filter (fun r => negb (existsb (fun l => on l r) L)) R.
Definition unmatched_left (on : row -> row -> bool) (L R : rel) : rel :=
  filter (fun l => negb (existsb (on l) R)) L.
Definition full_join (on : row -> row -> bool) (wl wr : Z) (L R : rel) : rel :=
  left_join on wr L R ++ map (fun r => nulls wl ++ r) (unmatched_right on L R).

Definition join (k : join_kind) (on : row -> row -> bool) (wl wr : Z) (L R : rel) : rel :=
  match k with
  | JInner => inner_join on L R
  | JLeft => left_join on wr L R
  | JRight => right_join on wl L R
  | JFull => full_join on wl wr L R
  end.

(* semi join = rows of L for which EXISTS a matching row of R; anti join = NOT EXISTS *)
Definition semi_join (on : row -> row -> bool) (L R : rel) : rel :=
  filter (fun l => existsb (on l) R) L.
Definition anti_join (on : row -> row -> bool) (L R : rel) : rel :=
  filter (fun l => negb (existsb (on l) R)) L.

Definition mem (x : row) (R : rel) : bool := existsb (row_eqb x) R.
Fixpoint distinct (R : rel) : rel :=
  match R with
  | [] => []
  | x :: R' => if mem x R' then distinct R' else x :: distinct R'
  end.

Fixpoint remove_one (x : row) (R : rel) : option rel :=
  match R with
  | [] => None
  | y :: R' => if row_eqb x y then Some R'
               else match remove_one x R' with Some R'' => Some (y :: R'') | None => None end
  end.
Fixpoint intersect_all (L R : rel) : rel :=
  match L with
  | [] => []
  | x :: L' => match remove_one x R with
               | Some R' => x :: intersect_all L' R'
               | None => intersect_all L' R
               end
  end.
Fixpoint except_all (L R : rel) : rel :=
  match L with
  | [] => []
  | x :: L' => match remove_one x R with
               | Some R' => except_all L' R'
               | None => x :: except_all L' R
               end
  end.
Definition set_op (op : setop) (all : bool) (L R : rel) : rel :=
  match op, all with
  | SUnion, true => L ++ R
  | SUnion, false => distinct (L ++ R)
  | SIntersect, true => intersect_all L R
  | SIntersect, false => intersect_all (distinct L) (distinct R)
  | SExcept, true => except_all L R
  | SExcept, false => except_all (distinct L) (distinct R)
  end.

Definition limit_offset (off : Z) (lim : option Z) (R : rel) : rel :=
  let s := skipn (Z.to_nat off) R in
  match lim with Some n => firstn (Z.to_nat n) s | None => s end.

(* ---- ORDER BY: stable insertion sort of (key, row) pairs *)
Section Sort.
  Context {A : Type} (leb : A -> A -> bool).
  Fixpoint insert_sorted (a : A) (l : list A) : list A :=
    match l with
    | [] => [a]
    | b :: l' => if leb a b then a :: l else b :: insert_sorted a l'
    end.
  Fixpoint isort (l : list A) : list A :=
    match l with
    | [] => []
    | a :: l' => insert_sorted a (isort l')
    end.
End Sort.

(* one sort key: NULL placement is independent of the direction *)
Definition dir_cmp (d : bool * bool) (a b : value) : comparison :=
  let '(desc, nulls_first) := d in
  match a, b with
  | VNull, VNull => Eq
  | VNull, _ => if nulls_first then Lt else Gt
  | _, VNull => if nulls_first then Gt else Lt
  | _, _ => if desc then CompOpp (vcmp_nn a b) else vcmp_nn a b
  end.
Fixpoint keys_cmp (ds : list (bool * bool)) (a b : row) : comparison :=
  match ds, a, b with
  | d :: ds', x :: a', y :: b' => match dir_cmp d x y with Eq => keys_cmp ds' a' b' | c => c end
  | _, _, _ => Eq
  end.
Definition keys_leb (ds : list (bool * bool)) (a b : row) : bool :=
  match keys_cmp ds a b with Gt => false | _ => true end.
Definition sort_pairs (ds : list (bool * bool)) (l : list (row * row)) : list (row * row) :=
  isort (fun p q => keys_leb ds (fst p) (fst q)) l.

(* ---- GROUP BY: (key, member) pairs -> one (key, members) entry per distinct key *)
Section Group.
  Context {A : Type}.
  Fixpoint insert_group (k : row) (x : A) (gs : list (row * list A)) : list (row * list A) :=
    match gs with
    | [] => [(k, [x])]
    | (k', xs) :: gs' => if row_eqb k k' then (k', x :: xs) :: gs' else (k', xs) :: insert_group k x gs'
    end.
  Fixpoint group_pairs (l : list (row * A)) : list (row * list A) :=
    match l with
    | [] => []
    | (k, x) :: l' => insert_group k x (group_pairs l')
    end.
End Group.

(* ---- aggregates over the list of argument values of one group *)
Definition nonnull (vs : list value) : list value := filter (fun v => negb (is_null v)) vs.
Fixpoint distinct_vals (vs : list value) : list value :=
  match vs with
  | [] => []
  | v :: vs' => if existsb (value_eqb v) vs' then distinct_vals vs' else v :: distinct_vals vs'
  end.
Definition len {A} (l : list A) : Z := Z.of_nat (length l).
Fixpoint sum_ints (vs : list value) : res Z :=
  match vs with
  | [] => Ok 0
  | VInt z :: vs' => s <- sum_ints vs';; Ok (z + s)
  | _ :: _ => Err EType
  end.
Definition vmin (a b : value) : value := match vcmp_nn a b with Gt => b | _ => a end.
Definition vmax (a b : value) : value := match vcmp_nn a b with Lt => b | _ => a end.
Definition mk_rat (n d : Z) : value := let g := Z.gcd n d in VRat (n / g) (d / g).

Definition agg_apply (fn : agg_fn) (vs : list value) : res value :=
  let xs := nonnull vs in
  match fn with
  | FCountStar => Ok (VInt (len vs))
  | FCount => Ok (VInt (len xs))
  | FCountDistinct => Ok (VInt (len (distinct_vals xs)))
  | FSum => match xs with [] => Ok VNull | _ => s <- sum_ints xs;; chk64 s end
  | FMin => match xs with [] => Ok VNull | x :: xs' => Ok (fold_left vmin xs' x) end
  | FMax => match xs with [] => Ok VNull | x :: xs' => Ok (fold_left vmax xs' x) end
  | FAvg => match xs with [] => Ok VNull | _ => s <- sum_ints xs;; Ok (mk_rat s (len xs)) end
  end.

(* ------------------------------------------------------------------ evaluator *)
Definition env := list row.

Definition lookup (en : env) (d i : Z) : res value :=
  match nth_error en (Z.to_nat d) with
  | Some r => match nth_error r (Z.to_nat i) with Some v => Ok v | None => Err EScope end
  | None => Err EScope
  end.

(* keep the rows on which the predicate is TRUE; any evaluation error is an error of the whole query *)
Definition filter_m (p : row -> res tv) (R : rel) : res rel :=
  _ <- mapM p R;; Ok (filter (fun r => is_tt (p r)) R).
Definition on_total (on : row -> row -> res tv) (L R : rel) : res (list (list tv)) :=
  mapM (fun l => mapM (on l) R) L.
Definition on_bool (on : row -> row -> res tv) : row -> row -> bool := fun l r => is_tt (on l r).

Definition single (r : row) : res value := match r with [v] => Ok v | _ => Err EType end.

Fixpoint eval_expr (f : nat) (d : db) (en : env) (e : expr) {struct f} : res value :=
  match f with
  | O => Err EFuel
  | S f' =>
    let ev := eval_expr f' d en in
    let evp := fun e => v <- eval_expr f' d en e;; tv_of_value v in
    match e with
    | ECol dp i => lookup en dp i
    | ELit v => Ok v
    | EArith op a b => x <- ev a;; y <- ev b;; arith op x y
    | ECmp op a b => x <- ev a;; y <- ev b;; Ok (value_of_tv (cmp3 op x y))
    | EAnd a b => x <- evp a;; y <- evp b;; Ok (value_of_tv (and3 x y))
    | EOr a b => x <- evp a;; y <- evp b;; Ok (value_of_tv (or3 x y))
    | ENot a => x <- evp a;; Ok (value_of_tv (not3 x))
    | EIsNull neg a => x <- ev a;; Ok (VBool (xorb neg (is_null x)))
    | EDistinct neg a b => x <- ev a;; y <- ev b;; Ok (VBool (xorb (negb neg) (not_distinct x y)))
    | EBetween neg a lo hi =>
        x <- ev a;; l <- ev lo;; h <- ev hi;;
        let t := and3 (cmp3 CGe x l) (cmp3 CLe x h) in
        Ok (value_of_tv (if neg then not3 t else t))
    | EInList neg a l =>
        x <- ev a;; vs <- mapM ev l;;
        Ok (value_of_tv (if neg then not_in3 x vs else in3 x vs))
    | ECase ws els =>
        (fix go (ws : list (expr * expr)) : res value :=
           match ws with
           | [] => match els with Some e => ev e | None => Ok VNull end
           | (w, t) :: ws' => c <- evp w;; match c with TT => ev t | _ => go ws' end
           end) ws
    | ECoalesce l =>
        (fix go (l : list expr) : res value :=
           match l with
           | [] => Ok VNull
           | e :: l' => v <- ev e;; if is_null v then go l' else Ok v
           end) l
    | ENullif a b => x <- ev a;; y <- ev b;; Ok (match eq3 x y with TT => VNull | _ => x end)
    | EScalar q =>
        R <- eval_query f' d en q;;
        match R with
        | [] => Ok VNull
        | [r] => single r
        | _ => Err ECard
        end
    | EExists neg q => R <- eval_query f' d en q;; Ok (VBool (xorb neg (negb (Nat.eqb (length R) 0))))
    | EInSub neg a q =>
        x <- ev a;; R <- eval_query f' d en q;; vs <- mapM single R;;
        Ok (value_of_tv (if neg then not_in3 x vs else in3 x vs))
    end
  end
with eval_query (f : nat) (d : db) (en : env) (q : query) {struct f} : res rel :=
  match f with
  | O => Err EFuel
  | S f' =>
    let evq := eval_query f' d en in
    let evr := fun (r : row) (e : expr) => eval_expr f' d (r :: en) e in
    let evpr := fun (r : row) (e : expr) => v <- eval_expr f' d (r :: en) e;; tv_of_value v in
    match q with
    | QTable n => match nth_error d (Z.to_nat n) with Some R => Ok R | None => Err EScope end
    | QValues R => Ok R
    | QFilter p q1 => R <- evq q1;; filter_m (fun r => evpr r p) R
    | QProject es q1 => R <- evq q1;; mapM (fun r => mapM (evr r) es) R
    | QJoin k wl wr on l r =>
        L <- evq l;; R <- evq r;;
        let onf := fun a b => evpr (a ++ b) on in
        _ <- on_total onf L R;; Ok (join k (on_bool onf) wl wr L R)
    | QSemi anti on l r =>
        L <- evq l;; R <- evq r;;
        let onf := fun a b => evpr (a ++ b) on in
        _ <- on_total onf L R;;
        Ok (if anti then anti_join (on_bool onf) L R else semi_join (on_bool onf) L R)
    | QGroup keys aggs having q1 =>
        R <- evq q1;;
        ks <- mapM (fun r => mapM (evr r) keys) R;;
        let groups := match keys with
                      | [] => [([], R)]                      (* no GROUP BY: exactly one group, even if empty *)
                      | _ => group_pairs (combine ks R)
                      end in
        out <- mapM (fun g : row * rel =>
                       avs <- mapM (fun a : agg_fn * expr =>
                                      args <- mapM (fun r => evr r (snd a)) (snd g);;
                                      agg_apply (fst a) args) aggs;;
                       Ok (fst g ++ avs)) groups;;
        match having with
        | None => Ok out
        | Some h => filter_m (fun o => evpr o h) out
        end
    | QDistinct q1 => R <- evq q1;; Ok (distinct R)
    | QSetOp op all l r => L <- evq l;; R <- evq r;; Ok (set_op op all L R)
    | QSort keys q1 =>
        R <- evq q1;;
        ks <- mapM (fun r => mapM (fun k : expr * (bool * bool) => evr r (fst k)) keys) R;;
        Ok (map snd (sort_pairs (map snd keys) (combine ks R)))
    | QLimit off lim q1 => R <- evq q1;; Ok (limit_offset off lim R)
    end
  end.

Definition refsql_fuel : nat := 200.
Definition run_query (d : db) (q : query) : res rel := eval_query refsql_fuel d [] q.

(* ------------------------------------------------------------------ comparing with an observed result *)
Fixpoint subbag (a b : rel) : bool :=
  match a with
  | [] => true
  | x :: a' => match remove_one x b with Some b' => subbag a' b' | None => false end
  end.
Definition bag_eqb (a b : rel) : bool := (Nat.eqb (length a) (length b)) && subbag a b.

Fixpoint keyseq_eqb (ds : list (bool * bool)) (a b : list row) : bool :=
  match a, b with
  | [], [] => true
  | x :: a', y :: b' => match keys_cmp ds x y with Eq => keyseq_eqb ds a' b' | _ => false end
  | _, _ => false
  end.

(* Top-level ORDER BY [LIMIT/OFFSET]: the observed rows [obs] are acceptable iff they are a sub-bag of the
   unsorted reference rows R and their sequence of sort keys equals (key by key, w.r.t. the comparator) the
   key sequence of the reference's sorted-and-sliced result.  Rows that tie on all keys may therefore come in
   any order, and a LIMIT that cuts a group of ties may keep any of them (valid top-k). *)
Definition ordered_ok (f : nat) (d : db) (keys : list (expr * (bool * bool))) (off : Z) (lim : option Z)
           (q0 : query) (obs : rel) : res bool :=
  R <- eval_query f d [] q0;;
  let keyf := fun r => mapM (fun k : expr * (bool * bool) => eval_expr f d [r] (fst k)) keys in
  ks <- mapM keyf R;;
  let ds := map snd keys in
  let expect := limit_offset off lim (map snd (sort_pairs ds (combine ks R))) in
  ke <- mapM keyf expect;;
  ko <- mapM keyf obs;;
  Ok (keyseq_eqb ds ko ke && subbag obs R).

Definition agrees (f : nat) (d : db) (q : query) (obs : rel) : res bool :=
  match q with
  | QSort keys q0 => ordered_ok f d keys 0 None q0 obs
  | QLimit off lim (QSort keys q0) => ordered_ok f d keys off lim q0 obs
  | _ => R <- eval_query f d [] q;; Ok (bag_eqb obs R)
  end.

Inductive c01_case := C01Case (d : db) (q : query) (obs : option rel).   (* obs = None: the engine failed *)

(* 0 agree, 1 disagree, 2 the reference fails with a run-time error (not compared),
   3 the reference term is ill-formed (type / scope / fuel: a defect of the generator or renderer) *)
Definition c01_verdict (c : c01_case) : Z :=
  match c with
  | C01Case d q obs =>
      match obs with
      | Some o =>
          match agrees refsql_fuel d q o with
          | Ok true => 0
          | Ok false => 1
          | Err e => if runtime_err e then 2 else 3
          end
      | None =>
          match run_query d q with
          | Ok _ => 1
          | Err e => if runtime_err e then 2 else 3
          end
      end
  end.
Definition c01_check (c : c01_case) : bool := let v := c01_verdict c in (v =? 0) || (v =? 2).
Definition c01_agree (c : c01_case) : bool := c01_verdict c =? 0.
Definition c01_wellformed (c : c01_case) : bool := negb (c01_verdict c =? 3).
