(* C39 -- INSERT / UPDATE / DELETE on in-memory tables.

   Models (executable definitions only)
     datafusion/catalog/src/memory/table.rs   MemTable::{delete_from_inner, update_inner},
                                              evaluate_filters_to_mask, insert_into_inner
     datafusion/datasource/src/memory.rs      MemSink::write_all (round-robin distribution)
     datafusion/core/src/physical_planner.rs  extract_dml_filters (split_conjunction + dedup),
                                              extract_update_assignments (identity assignments dropped)
     datafusion/sql/src/statement.rs          insert_to_plan (column list -> value_indices, NULL default)

   A table is a list of partitions, a partition a list of record batches, a batch a list of rows
   (the code works column-wise inside a batch; a batch is modelled by its rows, every per-column
   operation of the code is element-wise, so the row-wise reading is the same function).
   Columns are nullable BIGINT; arithmetic is on Z (the harness keeps values far from 2^63; Arrow's
   checked-overflow error path is outside the model). *)
From DF Require Import Base.Prelude.
Open Scope Z_scope.

Definition val := option Z.
Definition row := list val.
Definition batch := list row.
Definition partition := list batch.
Definition table := list partition.

(* the abstraction: the rows of the table, partition by partition, batch by batch *)
Definition rows_of_part (p : partition) : list row := concat p.
Definition rows_of (t : table) : list row := concat (map rows_of_part t).

(* ------------------------------------------------------------------ expressions, SQL 3-valued logic *)
Inductive cmpop := CEq | CNe | CLt | CLe | CGt | CGe.

Inductive iexpr :=
  | ICol (i : nat)
  | ILit (z : Z)
  | INull
  | IAdd (a b : iexpr)
  | ISub (a b : iexpr)
  | IMul (a b : iexpr).

Inductive bexpr :=
  | BLit (b : bool)
  | BNull
  | BCmp (op : cmpop) (a b : iexpr)
  | BAnd (p q : bexpr)
  | BOr (p q : bexpr)
  | BNot (p : bexpr)
  | BIsNull (a : iexpr)
  | BIsNotNull (a : iexpr).

Definition lift2 {A B} (f : A -> A -> B) (x y : option A) : option B :=
  match x, y with Some a, Some b => Some (f a b) | _, _ => None end.

Fixpoint eval_i (r : row) (e : iexpr) : val :=
  match e with
  | ICol i => nth i r None
  | ILit z => Some z
  | INull => None
  | IAdd a b => lift2 Z.add (eval_i r a) (eval_i r b)
  | ISub a b => lift2 Z.sub (eval_i r a) (eval_i r b)
  | IMul a b => lift2 Z.mul (eval_i r a) (eval_i r b)
  end.

Definition cmp_z (op : cmpop) (x y : Z) : bool :=
  match op with
  | CEq => x =? y | CNe => negb (x =? y)
  | CLt => x <? y | CLe => x <=? y
  | CGt => y <? x | CGe => y <=? x
  end.

(* Kleene connectives *)
Definition and3 (x y : option bool) : option bool :=
  match x, y with
  | Some false, _ | _, Some false => Some false
  | Some true, Some true => Some true
  | _, _ => None
  end.
Definition or3 (x y : option bool) : option bool :=
  match x, y with
  | Some true, _ | _, Some true => Some true
  | Some false, Some false => Some false
  | _, _ => None
  end.
Definition not3 (x : option bool) : option bool := option_map negb x.

Fixpoint eval_b (r : row) (p : bexpr) : option bool :=
  match p with
  | BLit b => Some b
  | BNull => None
  | BCmp op a b => lift2 (cmp_z op) (eval_i r a) (eval_i r b)
  | BAnd p q => and3 (eval_b r p) (eval_b r q)
  | BOr p q => or3 (eval_b r p) (eval_b r q)
  | BNot p => not3 (eval_b r p)
  | BIsNull a => Some (match eval_i r a with None => true | Some _ => false end)
  | BIsNotNull a => Some (match eval_i r a with None => false | Some _ => true end)
  end.

Definition is_true (v : option bool) : bool :=
  match v with Some true => true | _ => false end.

(* the WHERE clause holds on the row (absent WHERE = every row) *)
Definition holds (w : option bexpr) (r : row) : bool :=
  match w with None => true | Some p => is_true (eval_b r p) end.

(* ------------------------------------------------------------------ statements *)
Inductive stmt :=
  | SInsert (cols : option (list nat)) (vals : list (list val))   (* INSERT INTO t [(cols)] VALUES ... *)
  | SDelete (w : option bexpr)                                    (* DELETE FROM t [WHERE w] *)
  | SUpdate (asg : list (nat * iexpr)) (w : option bexpr).        (* UPDATE t SET col = e, ... [WHERE w] *)

(* ------------------------------------------------------------------ reference semantics (flat row list) *)
Fixpoint index_of (i : nat) (l : list nat) : option nat :=
  match l with
  | [] => None
  | x :: r => if Nat.eqb x i then Some O else option_map S (index_of i r)
  end.

(* insert_to_plan: target column i takes source column value_indices[i], else the default (NULL) *)
Definition place (ncols : nat) (cols : option (list nat)) (v : list val) : row :=
  match cols with
  | None => v
  | Some cs => map (fun i => match index_of i cs with Some j => nth j v None | None => None end) (seq 0 ncols)
  end.

Fixpoint assoc_first (j : nat) (asg : list (nat * iexpr)) : option iexpr :=
  match asg with
  | [] => None
  | (k, e) :: r => if Nat.eqb k j then Some e else assoc_first j r
  end.

Fixpoint mapi_from {A B} (f : nat -> A -> B) (i : nat) (l : list A) : list B :=
  match l with [] => [] | x :: r => f i x :: mapi_from f (S i) r end.

(* simultaneous assignment: every right-hand side is evaluated on the PRE-update row *)
Definition ref_update_row (asg : list (nat * iexpr)) (r : row) : row :=
  mapi_from (fun j v => match assoc_first j asg with Some e => eval_i r e | None => v end) 0%nat r.

Definition zlen {A} (l : list A) : Z := Z.of_nat (length l).

Definition ref_step (ncols : nat) (rows : list row) (s : stmt) : list row * Z :=
  match s with
  | SInsert cols vals => (rows ++ map (place ncols cols) vals, zlen vals)
  | SDelete w => (filter (fun r => negb (holds w r)) rows, zlen (filter (holds w) rows))
  | SUpdate asg w =>
      (map (fun r => if holds w r then ref_update_row asg r else r) rows, zlen (filter (holds w) rows))
  end.

Fixpoint ref_run (ncols : nat) (rows : list row) (ss : list stmt) : list row * list Z :=
  match ss with
  | [] => (rows, [])
  | s :: r =>
      let '(rows1, c) := ref_step ncols rows s in
      let '(rows2, cs) := ref_run ncols rows1 r in
      (rows2, c :: cs)
  end.

(* ------------------------------------------------------------------ the implementation's algorithm *)

(* physical_planner.rs extract_dml_filters: split_conjunction, then order-preserving dedup *)
Fixpoint split_conj (p : bexpr) : list bexpr :=
  match p with
  | BAnd a b => split_conj a ++ split_conj b
  | _ => [p]
  end.

Definition cmpop_eqb (a b : cmpop) : bool :=
  match a, b with
  | CEq, CEq | CNe, CNe | CLt, CLt | CLe, CLe | CGt, CGt | CGe, CGe => true
  | _, _ => false
  end.

Fixpoint iexpr_eqb (a b : iexpr) : bool :=
  match a, b with
  | ICol i, ICol j => Nat.eqb i j
  | ILit x, ILit y => x =? y
  | INull, INull => true
  | IAdd a1 a2, IAdd b1 b2 | ISub a1 a2, ISub b1 b2 | IMul a1 a2, IMul b1 b2 =>
      iexpr_eqb a1 b1 && iexpr_eqb a2 b2
  | _, _ => false
  end.

Fixpoint bexpr_eqb (a b : bexpr) : bool :=
  match a, b with
  | BLit x, BLit y => Bool.eqb x y
  | BNull, BNull => true
  | BCmp o a1 a2, BCmp o' b1 b2 => cmpop_eqb o o' && iexpr_eqb a1 b1 && iexpr_eqb a2 b2
  | BAnd a1 a2, BAnd b1 b2 | BOr a1 a2, BOr b1 b2 => bexpr_eqb a1 b1 && bexpr_eqb a2 b2
  | BNot a1, BNot b1 => bexpr_eqb a1 b1
  | BIsNull a1, BIsNull b1 | BIsNotNull a1, BIsNotNull b1 => iexpr_eqb a1 b1
  | _, _ => false
  end.

(* seen_filters.insert(..) keeps the first occurrence *)
Fixpoint dedup_from (seen : list bexpr) (l : list bexpr) : list bexpr :=
  match l with
  | [] => []
  | x :: r => if existsb (bexpr_eqb x) seen then dedup_from seen r else x :: dedup_from (x :: seen) r
  end.

Definition filters_of (w : option bexpr) : list bexpr :=
  match w with None => [] | Some p => dedup_from [] (split_conj p) end.

(* arrow::compute::and  (NOT Kleene: NULL as soon as one side is NULL) *)
Definition and_nk (x y : option bool) : option bool := lift2 andb x y.

Fixpoint map2 {A B C} (f : A -> B -> C) (l : list A) (m : list B) : list C :=
  match l, m with
  | x :: l', y :: m' => f x y :: map2 f l' m'
  | _, _ => []
  end.

(* evaluate_filters_to_mask: None = no filters = every row *)
Definition filters_to_mask (fs : list bexpr) (b : batch) : option (list (option bool)) :=
  fold_left
    (fun acc f =>
       let col := map (fun r => eval_b r f) b in           (* physical_expr.evaluate(batch) *)
       Some (match acc with Some m => map2 and_nk m col | None => col end))
    fs None.

Definition count_true (m : list (option bool)) : Z := zlen (filter is_true m).

(* arrow filter_record_batch with a non-null boolean mask *)
Fixpoint filter_by {A} (keep : list bool) (l : list A) : list A :=
  match keep, l with
  | k :: keep', x :: l' => if k then x :: filter_by keep' l' else filter_by keep' l'
  | _, _ => []
  end.

(* one batch of delete_from_inner: (rows deleted, batch to push if non-empty) *)
Definition delete_batch (fs : list bexpr) (b : batch) : Z * batch :=
  let '(cnt, keep) :=
    match filters_to_mask fs b with
    | Some m => (count_true m, map (fun v => negb (is_true v)) m)
    | None => (zlen b, repeat false (length b))
    end in
  (cnt, filter_by keep b).

Fixpoint delete_part (fs : list bexpr) (p : partition) : Z * partition :=
  match p with
  | [] => (0, [])
  | b :: r =>
      let '(c2, r') := delete_part fs r in
      match b with
      | [] => (c2, r')                                   (* num_rows() == 0: continue *)
      | _ =>
          let '(c1, b') := delete_batch fs b in
          (c1 + c2, match b' with [] => r' | _ => b' :: r' end)
      end
  end.

Fixpoint delete_table (fs : list bexpr) (t : table) : Z * table :=
  match t with
  | [] => (0, [])
  | p :: r =>
      let '(c1, p') := delete_part fs p in
      let '(c2, r') := delete_table fs r in
      (c1 + c2, p' :: r')
  end.

(* physical_assignments is a HashMap collected from the assignment list: the LAST pair for a column wins *)
Definition assoc_last (j : nat) (asg : list (nat * iexpr)) : option iexpr :=
  fold_left (fun acc ke => if Nat.eqb (fst ke) j then Some (snd ke) else acc) asg None.

(* extract_update_assignments drops  col = col *)
Definition is_identity (ke : nat * iexpr) : bool :=
  match snd ke with ICol i => Nat.eqb i (fst ke) | _ => false end.
Definition assignments_of (asg : list (nat * iexpr)) : list (nat * iexpr) :=
  filter (fun ke => negb (is_identity ke)) asg.

(* for an assigned column: evaluate_selection (value on selected rows, NULL elsewhere), then
   zip(mask, new, original) *)
Definition update_row (asg : list (nat * iexpr)) (sel : bool) (r : row) : row :=
  mapi_from (fun j v =>
               match assoc_last j asg with
               | Some e =>
                   let nw := if sel then eval_i r e else None in
                   if sel then nw else v
               | None => v
               end) 0%nat r.

Definition update_batch (asg : list (nat * iexpr)) (fs : list bexpr) (b : batch) : Z * batch :=
  let '(cnt, mask) :=
    match filters_to_mask fs b with
    | Some m => (count_true m, map is_true m)
    | None => (zlen b, repeat true (length b))
    end in
  if cnt =? 0 then (cnt, b) else (cnt, map2 (update_row asg) mask b).

Fixpoint update_part (asg : list (nat * iexpr)) (fs : list bexpr) (p : partition) : Z * partition :=
  match p with
  | [] => (0, [])
  | b :: r =>
      let '(c2, r') := update_part asg fs r in
      match b with
      | [] => (c2, r')                                   (* empty batches are dropped *)
      | _ => let '(c1, b') := update_batch asg fs b in (c1 + c2, b' :: r')
      end
  end.

Fixpoint update_table (asg : list (nat * iexpr)) (fs : list bexpr) (t : table) : Z * table :=
  match t with
  | [] => (0, [])
  | p :: r =>
      let '(c1, p') := update_part asg fs p in
      let '(c2, r') := update_table asg fs r in
      (c1 + c2, p' :: r')
  end.

(* MemSink::write_all: the input stream's batches go round-robin (starting at partition 0) into
   per-partition buffers, which are then appended to the partitions *)
Fixpoint app_nth {A} (l : list (list A)) (i : nat) (x : A) : list (list A) :=
  match l, i with
  | [], _ => []
  | y :: r, O => (y ++ [x]) :: r
  | y :: r, S k => y :: app_nth r k x
  end.

Fixpoint rr_loop (n : nat) (bs : list batch) (i : nat) (acc : list (list batch)) : list (list batch) :=
  match bs with
  | [] => acc
  | b :: r => rr_loop n r (Nat.modulo (S i) n) (app_nth acc i b)
  end.

Definition insert_table (bs : list batch) (t : table) : Z * table :=
  let n := length t in
  let new_batches := rr_loop n bs 0%nat (repeat [] n) in
  (zlen (concat bs), map2 (fun p nb => p ++ nb) t new_batches).

(* INSERT ... VALUES arrives as one record batch *)
Definition step (ncols : nat) (t : table) (s : stmt) : table * Z :=
  match s with
  | SInsert cols vals =>
      let '(c, t') := insert_table [map (place ncols cols) vals] t in (t', c)
  | SDelete w => let '(c, t') := delete_table (filters_of w) t in (t', c)
  | SUpdate asg w => let '(c, t') := update_table (assignments_of asg) (filters_of w) t in (t', c)
  end.

Fixpoint run (ncols : nat) (t : table) (ss : list stmt) : table * list Z :=
  match ss with
  | [] => (t, [])
  | s :: r =>
      let '(t1, c) := step ncols t s in
      let '(t2, cs) := run ncols t1 r in
      (t2, c :: cs)
  end.

(* all states of a history (after each statement) *)
Fixpoint trace (ncols : nat) (t : table) (ss : list stmt) : list (table * Z) :=
  match ss with
  | [] => []
  | s :: r => let '(t1, c) := step ncols t s in (t1, c) :: trace ncols t1 r
  end.

(* well-formedness used by the theorems: at least one partition (MemTable::try_new rejects zero),
   assignment targets distinct (the SQL planner's assign_map has one entry per column) *)
Definition targets (asg : list (nat * iexpr)) : list nat := map fst asg.

Definition stmt_ok (s : stmt) : Prop :=
  match s with SUpdate asg _ => NoDup (targets asg) | _ => True end.

(* ------------------------------------------------------------------ the statement pipeline at the pinned commit
   Between SQL text and MemTable the logical optimizer runs.  A WHERE clause it folds to FALSE or
   NULL makes it replace the Filter node (and, for UPDATE, the Projection above it) by an
   EmptyRelation; extract_dml_filters / extract_update_assignments then find no Filter / Projection
   node and return nothing -- which delete_from / update read as "no filters = all rows".
   [cfold_b] is the constant folding (an under-approximation of the simplifier: what it folds, the
   simplifier folds). *)
Definition cf2 {A B} (f : A -> A -> B) (x y : option (option A)) : option (option B) :=
  match x, y with
  | Some None, _ | _, Some None => Some None          (* NULL operand: NULL whatever the other side is *)
  | Some (Some a), Some (Some b) => Some (Some (f a b))
  | _, _ => None
  end.

Fixpoint cfold_i (e : iexpr) : option val :=
  match e with
  | ICol _ => None
  | ILit z => Some (Some z)
  | INull => Some None
  | IAdd a b => cf2 Z.add (cfold_i a) (cfold_i b)
  | ISub a b => cf2 Z.sub (cfold_i a) (cfold_i b)
  | IMul a b => cf2 Z.mul (cfold_i a) (cfold_i b)
  end.

Fixpoint cfold_b (p : bexpr) : option (option bool) :=
  match p with
  | BLit b => Some (Some b)
  | BNull => Some None
  | BCmp op a b => cf2 (cmp_z op) (cfold_i a) (cfold_i b)
  | BAnd p q =>
      match cfold_b p, cfold_b q with
      | Some (Some false), _ | _, Some (Some false) => Some (Some false)
      | Some x, Some y => Some (and3 x y)
      | _, _ => None
      end
  | BOr p q =>
      match cfold_b p, cfold_b q with
      | Some (Some true), _ | _, Some (Some true) => Some (Some true)
      | Some x, Some y => Some (or3 x y)
      | _, _ => None
      end
  | BNot p => option_map not3 (cfold_b p)
  | BIsNull a => option_map (fun v => Some (match v with None => true | Some _ => false end)) (cfold_i a)
  | BIsNotNull a => option_map (fun v => Some (match v with None => false | Some _ => true end)) (cfold_i a)
  end.

(* the WHERE clause folds to FALSE or NULL: no row qualifies *)
Definition folds_away (w : option bexpr) : bool :=
  match w with
  | Some p => match cfold_b p with Some (Some true) => false | Some _ => true | None => false end
  | None => false
  end.

Definition step_upstream (ncols : nat) (t : table) (s : stmt) : table * Z :=
  match s with
  | SDelete w =>
      if folds_away w then let '(c, t') := delete_table [] t in (t', c)      (* Dml(Delete, EmptyRelation) *)
      else step ncols t s
  | SUpdate asg w =>
      if folds_away w then let '(c, t') := update_table [] [] t in (t', c)   (* no Projection left either *)
      else step ncols t s
  | _ => step ncols t s
  end.

Fixpoint trace_upstream (ncols : nat) (t : table) (ss : list stmt) : list (table * Z) :=
  match ss with
  | [] => []
  | s :: r => let '(t1, c) := step_upstream ncols t s in (t1, c) :: trace_upstream ncols t1 r
  end.

(* ------------------------------------------------------------------ correspondence *)
Definition val_eqb : val -> val -> bool := zopt_eqb.
Definition row_eqb : row -> row -> bool := list_eqb val_eqb.
Definition table_eqb : table -> table -> bool := list_eqb (list_eqb (list_eqb row_eqb)).

(* observed after each statement: reported count and the table's partitions/batches/rows *)
Inductive c39_case := C39 (ncols : nat) (t0 : table) (ss : list stmt) (obs : list (table * Z)).

Definition obs_eqb (a b : table * Z) : bool := table_eqb (fst a) (fst b) && (snd a =? snd b).

Definition c39_check (c : c39_case) : bool :=
  match c with C39 n t0 ss obs => list_eqb obs_eqb (trace n t0 ss) obs end.

(* histories that run into the constant-WHERE defect are compared with the pipeline as it is *)
Inductive c39u_case := C39U (ncols : nat) (t0 : table) (ss : list stmt) (obs : list (table * Z)).

Definition c39u_check (c : c39u_case) : bool :=
  match c with C39U n t0 ss obs => list_eqb obs_eqb (trace_upstream n t0 ss) obs end.
