(* C09 -- window frames: the DECLARATIVE frame definitions (ROWS / RANGE / GROUPS) and executable models of the
   INCREMENTAL computations of datafusion/expr/src/window_state.rs
     WindowFrameContext::calculate_range_rows        (usize arithmetic: saturating_sub, `idx + n`, min)
     WindowFrameStateRange::calculate_index_of_row   (checked i64 target, linear search resumed from last_range)
     WindowFrameStateGroups::calculate_index_of_row  (deque of group end indices + current_group_idx)
     WindowAggState::prune_state                     (what BoundedWindowAggExec does to the state when it prunes rows)
   plus the declarative semantics of the window functions over a frame.  Definitions only.

   ORDER BY key: one nullable Int64 column with sort options (asc/desc, nulls first/last). *)
From DF Require Import Base.Prelude.
Open Scope Z_scope.

Definition key := option Z.
Record sortopt := { so_desc : bool; so_nf : bool }.

Inductive bound := UnbPrec | Prec (n : Z) | Cur | Foll (n : Z) | UnbFoll.
Inductive units := Rows | Range | Groups.
Record frame := { funits : units; fstart : bound; fend : bound }.

(* physical_planner::is_window_frame_bound_valid + the two parse-time rejections; offsets are unsigned *)
Definition bound_nonneg (b : bound) : bool :=
  match b with Prec n | Foll n => 0 <=? n | _ => true end.
Definition frame_valid (f : frame) : bool :=
  bound_nonneg (fstart f) && bound_nonneg (fend f) &&
  match fstart f, fend f with
  | UnbFoll, _ | _, UnbPrec => false
  | Foll _, Prec _ | Foll _, Cur | Cur, Prec _ => false
  | Prec a, Prec b => b <=? a
  | Foll a, Foll b => a <=? b
  | _, _ => true
  end.

(* ================================================================== declarative definition *)
(* Position of a row on the axis the frame unit measures along; NULL keys sit at -inf / +inf. *)
Inductive ext := NInf | Fin (z : Z) | PInf.
Definition ext_le (a b : ext) : bool :=
  match a, b with
  | NInf, _ => true
  | _, PInf => true
  | Fin x, Fin y => x <=? y
  | _, _ => false
  end.
Definition ext_lt (a b : ext) : bool := negb (ext_le b a).
Definition shift (e : ext) (d : Z) : ext := match e with Fin z => Fin (z + d) | x => x end.

(* RANGE axis: the key value in sort direction *)
Definition ord (so : sortopt) (k : key) : ext :=
  match k with
  | None => if so_nf so then NInf else PInf
  | Some v => Fin (if so_desc so then - v else v)
  end.

Definition key_eqb (a b : key) : bool := opt_eqb Z.eqb a b.

(* GROUPS axis: peer group number = number of key changes up to the row *)
Fixpoint gnums_from (prev : key) (g : Z) (ks : list key) : list Z :=
  match ks with
  | [] => []
  | k :: r => let g' := if key_eqb k prev then g else g + 1 in g' :: gnums_from k g' r
  end.
Definition gnums (ks : list key) : list Z :=
  match ks with [] => [] | k :: r => 0 :: gnums_from k 0 r end.

(* positions of the rows of a partition *)
Definition positions (so : sortopt) (u : units) (ks : list key) : list ext :=
  match u with
  | Rows => map (fun i => Fin (Z.of_nat i)) (seq 0 (length ks))
  | Range => map (ord so) ks
  | Groups => map Fin (gnums ks)
  end.

Definition lo_of (b : bound) (p : ext) : ext :=
  match b with UnbPrec => NInf | Prec a => shift p (- a) | Cur => p | Foll a => shift p a | UnbFoll => PInf end.
Definition hi_of := lo_of.

(* row j belongs to the frame of row i *)
Definition in_frame_pos (f : frame) (ps : list ext) (i j : nat) : bool :=
  let pi := nth i ps PInf in let pj := nth j ps PInf in
  ext_le (lo_of (fstart f) pi) pj && ext_le pj (hi_of (fend f) pi).
Definition in_frame (so : sortopt) (f : frame) (ks : list key) (i j : nat) : bool :=
  in_frame_pos f (positions so (funits f) ks) i j.
(* THE DEFINITION: the frame of row i, as the list of row indices of the partition *)
Definition decl_frame (so : sortopt) (f : frame) (ks : list key) (i : nat) : list nat :=
  filter (in_frame so f ks i) (seq 0 (length ks)).

Definition sortedb_ext (ps : list ext) : bool :=
  forallb (fun i => ext_le (nth i ps PInf) (nth (S i) ps PInf)) (seq 0 (length ps - 1)).
Definition sorted_keys (so : sortopt) (ks : list key) : bool := sortedb_ext (map (ord so) ks).

(* ================================================================== the implementation's computations *)
Definition usize_max : Z := 18446744073709551615.
Definition i64_min : Z := -9223372036854775808.
Definition i64_max : Z := 9223372036854775807.

Inductive outcome :=
  | ORange (s e : Z)
  | OErr             (* internal_err! *)
  | OOverflow        (* usize `+` overflow: panics with overflow checks, wraps without *)
  | OPruned (n : Z).

(* ---- calculate_range_rows *)
Definition rows_start (b : bound) (len idx : Z) : outcome + Z :=
  match b with
  | UnbPrec => inr 0
  | Prec n => inr (Z.max 0 (idx - n))                                  (* saturating_sub *)
  | Cur => inr idx
  | Foll n => if idx + n <=? usize_max then inr (Z.min (idx + n) len) else inl OOverflow
  | UnbFoll => inl OErr
  end.
Definition rows_end (b : bound) (len idx : Z) : outcome + Z :=
  match b with
  | UnbPrec => inl OErr
  | Prec n => inr (if n <=? idx then idx - n + 1 else 0)
  | Cur => inr (idx + 1)
  | Foll n => if idx + n + 1 <=? usize_max then inr (Z.min (idx + n + 1) len) else inl OOverflow
  | UnbFoll => inr len
  end.
Definition rows_range (f : frame) (len idx : Z) : outcome :=
  match rows_start (fstart f) len idx with
  | inl o => o
  | inr s => match rows_end (fend f) len idx with inl o => o | inr e => ORange s e end
  end.

(* ---- datafusion_common::utils::search_in_slice: linear scan while the predicate holds *)
Fixpoint search (p : key -> bool) (ks : list key) (low fuel : nat) : nat :=
  match fuel with
  | O => low
  | S f => if p (nth low ks None) then search p ks (S low) f else low
  end.
Definition search_in_slice (p : key -> bool) (ks : list key) (low high : nat) : nat := search p ks low (high - low).

(* ---- compare_rows on one column *)
Definition cmp_key (so : sortopt) (a b : key) : comparison :=
  match a, b with
  | None, None => Eq
  | None, Some _ => if so_nf so then Lt else Gt
  | Some _, None => if so_nf so then Gt else Lt
  | Some x, Some y => if so_desc so then y ?= x else x ?= y
  end.
Definition is_lt (c : comparison) := match c with Lt => true | _ => false end.
Definition is_le (c : comparison) := match c with Gt => false | _ => true end.

(* ---- WindowFrameStateRange::calculate_index_of_row::<SIDE, SEARCH_SIDE> *)
Definition range_index (so : sortopt) (side search_side : bool) (ks : list key) (ls le : nat)
           (idx : nat) (delta : option Z) (len : nat) : nat :=
  let cur := nth idx ks None in
  let search_start := if side then ls else le in
  let edge := if search_side then search_start else len in
  let go (target : key) :=
    search_in_slice (fun k => if side then is_lt (cmp_key so k target) else is_le (cmp_key so k target))
                    ks search_start len in
  match delta with
  | None => go cur
  | Some d =>
      match cur with
      | None => go None
      | Some v =>
          let t := if Bool.eqb search_side (so_desc so) then v + d else v - d in  (* add_checked / sub_checked *)
          if (i64_min <=? t) && (t <=? i64_max) then go (Some t) else edge
      end
  end.

Definition range_range (so : sortopt) (f : frame) (ks : list key) (ls le : nat) (len idx : nat) : option (nat * nat) :=
  let s := match fstart f with
           | UnbPrec => Some O
           | Prec n => Some (range_index so true true ks ls le idx (Some n) len)
           | Cur => Some (range_index so true true ks ls le idx None len)
           | Foll n => Some (range_index so true false ks ls le idx (Some n) len)
           | UnbFoll => None
           end in
  let e := match fend f with
           | UnbPrec => None
           | Prec n => Some (range_index so false true ks ls le idx (Some n) len)
           | Cur => Some (range_index so false false ks ls le idx None len)
           | Foll n => Some (range_index so false false ks ls le idx (Some n) len)
           | UnbFoll => Some len
           end in
  match s, e with Some s, Some e => Some (s, e) | _, _ => None end.

(* AggregateWindowExpr::aggregate_evaluate (whole partition): rows in order, last_range = the previous row's frame *)
Fixpoint range_run (so : sortopt) (f : frame) (ks : list key) (ls le i fuel : nat) : list (option (nat * nat)) :=
  match fuel with
  | O => []
  | S fu =>
      match range_range so f ks ls le (length ks) i with
      | Some (s, e) => Some (s, e) :: range_run so f ks s e (S i) fu
      | None => [None]
      end
  end.

(* ---- WindowFrameStateGroups *)
Record gstate := { g_ends : list (key * nat); g_cur : nat }.
Definition g_init : gstate := {| g_ends := []; g_cur := 0 |}.

Definition group_end (ks : list key) (k : key) (from len : nat) : nat :=
  search_in_slice (fun x => key_eqb x k) ks from len.

(* push groups while [cond ends group_start] holds *)
Fixpoint push_groups (cond : list (key * nat) -> nat -> bool) (ks : list key) (len : nat)
         (ends : list (key * nat)) (group_start : nat) (fuel : nat) : list (key * nat) * nat :=
  match fuel with
  | O => (ends, group_start)
  | S f =>
      if cond ends group_start then
        let k := nth group_start ks None in
        let e := group_end ks k group_start len in
        push_groups cond ks len (ends ++ [(k, e)]) e f
      else (ends, group_start)
  end.

Fixpoint advance_cur (ends : list (key * nat)) (idx : nat) (cur : nat) (fuel : nat) : nat :=
  match fuel with
  | O => cur
  | S f =>
      if (cur <? length ends)%nat && (snd (nth cur ends (None, O)) <=? idx)%nat
      then advance_cur ends idx (S cur) f else cur
  end.

Definition end_at (ends : list (key * nat)) (i : nat) : nat := snd (nth i ends (None, O)).

(* calculate_index_of_row::<SIDE, SEARCH_SIDE>; None = usize overflow in `current_group_idx + delta` *)
Definition groups_index (side search_side : bool) (ks : list key) (st : gstate) (idx : nat)
           (delta : Z) (len : nat) : gstate * option nat :=
  (* extend the last group if the buffer has grown *)
  let '(ends1, gs1) :=
    match rev (g_ends st) with
    | [] => ([], O)
    | (grow, gend) :: before =>
        let gend' := if (gend <? len)%nat && key_eqb (nth gend ks None) grow
                     then group_end ks grow gend len else gend in
        (rev before ++ [(grow, gend')], gend')
    end in
  (* advance groups until idx is inside a group *)
  let '(ends2, gs2) := push_groups (fun _ gs => (gs <=? idx)%nat) ks len ends1 gs1 (S len) in
  let cur := advance_cur ends2 idx (g_cur st) (S (length ends2)) in
  if negb search_side && (usize_max <? Z.of_nat cur + delta) then ({| g_ends := ends2; g_cur := cur |}, None)
  else
  let group_idx : Z := if search_side then Z.max 0 (Z.of_nat cur - delta) else Z.of_nat cur + delta in
  let '(ends3, _) :=
    push_groups (fun e gs => (Z.of_nat (length e) <=? group_idx) && (gs <? len)%nat) ks len ends2 gs2 (S len) in
  let st' := {| g_ends := ends3; g_cur := cur |} in
  let r :=
    if side then
      let gi := Z.to_nat (Z.min group_idx (Z.of_nat (length ends3))) in
      match gi with O => O | S g => end_at ends3 g end
    else if search_side then
      if delta <=? Z.of_nat cur then end_at ends3 (Z.to_nat (Z.of_nat cur - delta)) else O
    else
      end_at ends3 (Z.to_nat (Z.min (Z.of_nat cur + delta) (Z.of_nat (length ends3) - 1)))
  in (st', Some r).

Definition groups_range (f : frame) (ks : list key) (st : gstate) (len idx : nat) : gstate * outcome :=
  let start :=
    match fstart f with
    | UnbPrec => (st, inr O)
    | Prec n => let '(s, r) := groups_index true true ks st idx n len in (s, match r with Some x => inr x | None => inl OOverflow end)
    | Cur => let '(s, r) := groups_index true true ks st idx 0 len in (s, match r with Some x => inr x | None => inl OOverflow end)
    | Foll n => let '(s, r) := groups_index true false ks st idx n len in (s, match r with Some x => inr x | None => inl OOverflow end)
    | UnbFoll => (st, inl OErr)
    end in
  match start with
  | (st1, inl o) => (st1, o)
  | (st1, inr s) =>
      let fin :=
        match fend f with
        | UnbPrec => (st1, inl OErr)
        | Prec n => let '(s', r) := groups_index false true ks st1 idx n len in (s', match r with Some x => inr x | None => inl OOverflow end)
        | Cur => let '(s', r) := groups_index false false ks st1 idx 0 len in (s', match r with Some x => inr x | None => inl OOverflow end)
        | Foll n => let '(s', r) := groups_index false false ks st1 idx n len in (s', match r with Some x => inr x | None => inl OOverflow end)
        | UnbFoll => (st1, inr len)
        end in
      match fin with
      | (st2, inl o) => (st2, o)
      | (st2, inr e) => (st2, ORange (Z.of_nat s) (Z.of_nat e))
      end
  end.

(* WindowAggState::prune_state on the GROUPS state; None = `current_group_idx -= n_group_to_del` underflows *)
Fixpoint prune_count (n : nat) (l : list (key * nat)) : nat :=   (* n_group_to_del: stop at the first group with n < end *)
  match l with [] => O | x :: r => if (n <? snd x)%nat then O else S (prune_count n r) end.
Definition groups_prune (st : gstate) (n : nat) : option gstate :=
  let ndel := prune_count n (g_ends st) in
  if (g_cur st <? ndel)%nat then None
  else Some {| g_ends := map (fun x => (fst x, (snd x - n)%nat)) (skipn ndel (g_ends st)); g_cur := (g_cur st - ndel)%nat |}.

(* ---- the executors' driving protocol, as observed by the harness *)
Inductive wop :=
  | WCall (len idx : Z) (acc : bool)    (* absolute row positions; acc: the result becomes last_range *)
  | WPrune (n : Z).

Record wstate := { w_off : nat; w_ls : nat; w_le : nat; w_calc : nat; w_g : gstate }.
Definition w_init : wstate := {| w_off := 0; w_ls := 0; w_le := 0; w_calc := 0; w_g := g_init |}.

Definition wstep (so : sortopt) (f : frame) (keys : list key) (st : wstate) (o : wop) : wstate * outcome :=
  match o with
  | WCall len idx acc =>
      let rl := (Z.to_nat len - w_off st)%nat in
      let ri := (Z.to_nat idx - w_off st)%nat in
      let buf := firstn rl (skipn (w_off st) keys) in
      let '(g', out) :=
        match funits f with
        | Rows => (w_g st, rows_range f (Z.of_nat rl) (Z.of_nat ri))
        | Range => (w_g st, match range_range so f buf (w_ls st) (w_le st) rl ri with
                            | Some (s, e) => ORange (Z.of_nat s) (Z.of_nat e) | None => OErr end)
        | Groups => groups_range f buf (w_g st) rl ri
        end in
      match out with
      | ORange s e =>
          if acc then ({| w_off := w_off st; w_ls := Z.to_nat s; w_le := Z.to_nat e; w_calc := S ri; w_g := g' |}, out)
          else ({| w_off := w_off st; w_ls := w_ls st; w_le := w_le st; w_calc := w_calc st; w_g := g' |}, out)
      | _ => ({| w_off := w_off st; w_ls := w_ls st; w_le := w_le st; w_calc := w_calc st; w_g := g' |}, out)
      end
  | WPrune n =>
      let k := Z.to_nat n in
      match (match funits f with Groups => groups_prune (w_g st) k | _ => Some (w_g st) end) with
      | Some g' => ({| w_off := (w_off st + k)%nat; w_ls := (w_ls st - k)%nat; w_le := (w_le st - k)%nat;
                       w_calc := (w_calc st - k)%nat; w_g := g' |}, OPruned n)
      | None => (st, OOverflow)
      end
  end.

Fixpoint wrun (so : sortopt) (f : frame) (keys : list key) (st : wstate) (ops : list wop) : list outcome :=
  match ops with
  | [] => []
  | o :: r => let '(st', x) := wstep so f keys st o in
              x :: match x with ORange _ _ | OPruned _ => wrun so f keys st' r | _ => [] end   (* the harness stops at a failure *)
  end.

Definition outcome_eqb (a b : outcome) : bool :=
  match a, b with
  | ORange s e, ORange s' e' => (s =? s') && (e =? e')
  | OErr, OErr => true
  | OOverflow, OOverflow => true
  | OPruned n, OPruned m => n =? m
  | _, _ => false
  end.

Inductive c09_case := C09 (so : sortopt) (f : frame) (keys : list key) (ops : list wop) (observed : list outcome).

(* the incremental model reproduces the observed outcomes, AND every observed range of a call equals the
   declarative frame of that row within the buffered partition prefix *)
Fixpoint decl_agree (so : sortopt) (f : frame) (keys : list key) (off : nat) (ops : list wop) (obs : list outcome) : bool :=
  match ops, obs with
  | WCall len idx _ :: r, ORange s e :: r' =>
      let buf := firstn (Z.to_nat len) keys in
      list_eqb Nat.eqb (decl_frame so f buf (Z.to_nat idx))
                       (seq (Z.to_nat s + off) (Z.to_nat e - Z.to_nat s))
      && decl_agree so f keys off r r'
  | WPrune _ :: r, OPruned n :: r' => decl_agree so f keys (off + Z.to_nat n) r r'
  | _, _ => true
  end.

Definition c09_model_check (c : c09_case) : bool :=
  match c with C09 so f keys ops obs => list_eqb outcome_eqb (wrun so f keys w_init ops) obs end.
Definition c09_decl_check (c : c09_case) : bool :=
  match c with C09 so f keys ops obs => decl_agree so f keys 0 ops obs end.
Definition c09_check (c : c09_case) : bool := c09_model_check c && c09_decl_check c.

(* ================================================================== window functions over a frame *)
(* a partition in ORDER BY order: (key, argument value) *)
Inductive wfun :=
  | FSum | FCount | FCountStar | FMin | FMax | FAvg
  | FFirst | FLast | FNth (n : Z)
  | FRowNumber | FRank | FDenseRank | FPercentRank | FCumeDist
  | FLag (off : Z) (dflt : option Z) | FLead (off : Z) (dflt : option Z)
  | FNtile (n : Z).

Inductive wval := WNull | WInt (z : Z) | WRat (num den : Z).

Definition nonnull (l : list (option Z)) : list Z :=
  flat_map (fun x => match x with Some v => [v] | None => [] end) l.
Definition zsum (l : list Z) : Z := fold_right Z.add 0 l.
Definition zmin (l : list Z) : option Z :=
  match l with [] => None | x :: r => Some (fold_right Z.min x r) end.
Definition zmax (l : list Z) : option Z :=
  match l with [] => None | x :: r => Some (fold_right Z.max x r) end.
Definition of_opt (o : option Z) : wval := match o with Some v => WInt v | None => WNull end.
Definition zlen {A} (l : list A) : Z := Z.of_nat (length l).

(* aggregate / value functions: a function of the argument values of the frame's rows, in order *)
Definition eval_over (fn : wfun) (vals : list (option Z)) : wval :=
  let nn := nonnull vals in
  match fn with
  | FSum => match nn with [] => WNull | _ => WInt (zsum nn) end
  | FCount => WInt (zlen nn)
  | FCountStar => WInt (zlen vals)
  | FMin => of_opt (zmin nn)
  | FMax => of_opt (zmax nn)
  | FAvg => match nn with [] => WNull | _ => WRat (zsum nn) (zlen nn) end
  | FFirst => match vals with [] => WNull | x :: _ => of_opt x end
  | FLast => of_opt (last vals None)
  | FNth n => if n <=? 0 then WNull else of_opt (nth (Z.to_nat (n - 1)) vals None)
  | _ => WNull
  end.

Definition count_if {A} (p : A -> bool) (l : list A) : Z := zlen (filter p l).

(* SQL NTILE(n) over m rows: the first (m mod n) buckets have one more row *)
Definition ntile_of (n m i : Z) : Z :=
  let base := m / n in let rem := m mod n in
  let large := rem * (base + 1) in
  if i <? large then i / (base + 1) + 1 else rem + (i - large) / base + 1.

(* value of window function fn at row i of the partition (keys ks, arguments xs, in ORDER BY order) *)
Definition eval_window (so : sortopt) (f : frame) (fn : wfun) (ks : list key) (xs : list (option Z)) (i : nat) : wval :=
  let n := zlen ks in
  let ki := nth i ks None in
  let before_peers := count_if (fun k => ext_lt (ord so k) (ord so ki)) ks in   (* rows ordered strictly before row i *)
  let zi := Z.of_nat i in
  match fn with
  | FRowNumber => WInt (zi + 1)
  | FRank => WInt (1 + before_peers)
  | FDenseRank => WInt (1 + nth i (gnums ks) 0)
  | FPercentRank => if n <=? 1 then WRat 0 1 else WRat before_peers (n - 1)
  | FCumeDist => WRat (count_if (fun k => ext_le (ord so k) (ord so ki)) ks) n
  | FLag off d => let j := zi - off in
                  if (0 <=? j) && (j <? n) then of_opt (nth (Z.to_nat j) xs None) else of_opt d
  | FLead off d => let j := zi + off in
                   if (0 <=? j) && (j <? n) then of_opt (nth (Z.to_nat j) xs None) else of_opt d
  | FNtile b => WInt (ntile_of b n zi)
  | _ => eval_over fn (map (fun j => nth j xs None) (decl_frame so f ks i))
  end.

Definition wval_eqb (a b : wval) : bool :=
  match a, b with
  | WNull, WNull => true
  | WInt x, WInt y => x =? y
  | WRat a b, WRat c d => (negb (b =? 0)) && (negb (d =? 0)) && (a * d =? c * b)
  | WInt x, WRat c d => (negb (d =? 0)) && (x * d =? c)
  | WRat a b, WInt y => (negb (b =? 0)) && (a =? y * b)
  | _, _ => false
  end.

(* ---- sliding evaluation (sliding_aggregate.rs): keep sum / count, add entering rows, retract leaving rows *)
Record acc := { a_sum : Z; a_cnt : Z }.
Definition acc0 : acc := {| a_sum := 0; a_cnt := 0 |}.
Definition acc_update (a : acc) (vals : list (option Z)) : acc :=
  {| a_sum := a_sum a + zsum (nonnull vals); a_cnt := a_cnt a + zlen (nonnull vals) |}.
Definition acc_retract (a : acc) (vals : list (option Z)) : acc :=
  {| a_sum := a_sum a - zsum (nonnull vals); a_cnt := a_cnt a - zlen (nonnull vals) |}.
Definition slice {A} (l : list A) (s e : nat) : list A := firstn (e - s) (skipn s l).
(* get_aggregate_result_inside_range of SlidingAggregateWindowExpr (usize subtractions: frames move forward) *)
Definition slide (xs : list (option Z)) (a : acc) (last cur : nat * nat) : acc :=
  if (fst cur =? snd cur)%nat then
    (* empty frame: everything of the last frame is retracted, the result is the default value *)
    if (0 <? snd last - fst last)%nat then acc_retract a (slice xs (fst last) (snd last)) else a
  else
    let a1 := if (0 <? snd cur - snd last)%nat then acc_update a (slice xs (snd last) (snd cur)) else a in
    if (0 <? fst cur - fst last)%nat then acc_retract a1 (slice xs (fst last) (fst cur)) else a1.
Fixpoint slide_run (xs : list (option Z)) (a : acc) (last : nat * nat) (frames : list (nat * nat)) : list acc :=
  match frames with
  | [] => []
  | c :: r => let a' := slide xs a last c in a' :: slide_run xs a' c r
  end.
(* SlidingSumAccumulator::evaluate / count *)
Definition acc_sum (a : acc) : wval := if a_cnt a =? 0 then WNull else WInt (a_sum a).
Definition acc_count (a : acc) : wval := WInt (a_cnt a).
Definition acc_of (xs : list (option Z)) (fr : nat * nat) : acc :=
  acc_update acc0 (slice xs (fst fr) (snd fr)).

(* ---- SQL end-to-end case: one partition in the engine's order *)
Inductive c09s_case :=
  C09S (so : sortopt) (f : frame) (fn : wfun) (rows : list (key * option Z)) (observed : list wval).

Definition c09s_check (c : c09s_case) : bool :=
  match c with
  | C09S so f fn rows obs =>
      let ks := map fst rows in let xs := map snd rows in
      sorted_keys so ks &&
      list_eqb wval_eqb (map (eval_window so f fn ks xs) (seq 0 (length rows))) obs
  end.
