(* C17 -- executable model of datafusion/execution/src/memory_pool/{mod.rs,pool.rs,peak_recording.rs}.

   Definitions only (the proofs are in Proofs/MemPoolProofs.v).

   * [pool]    : UnboundedMemoryPool, GreedyMemoryPool, FairSpillPool, and the wrappers
                 TrackConsumersPool<I> and PeakRecordingPool (arbitrarily nested).
   * [resv]    : a MemoryReservation (its AtomicUsize size + the immutable data of its consumer).
   * [creg]    : an Arc<SharedRegistration> : consumer + strong count; [MemoryPool::unregister] runs when
                 the count reaches zero (SharedRegistration::drop).
   * [step]    : one public-API call, as the sequence "reservation atomic ; pool call" of mod.rs.

   usize is modelled by N.  saturating_sub is N.sub; checked_sub / wrapping fetch_sub / `-=` are modelled
   as an explicit test: an underflow makes the step answer [Fault] (Rust: panic in debug builds, wrap in
   release).  Growth that would take the pool total to 2^64 answers [Overflow] and is outside the model
   (Rust: atomics wrap, `+` panics in debug builds).  Proofs/MemPoolProofs.v shows [Fault] is unreachable
   and that every counter stays below 2^64. *)
From Coq Require Import List NArith Bool.
From DF Require Import Base.Prelude.
Import ListNotations.
Open Scope N_scope.

Definition usize_lim : N := 18446744073709551616.

(* ------------------------------------------------------------------ data *)
Record resv := mkResv { r_id : N; r_cid : N; r_spill : bool; r_size : N }.
Record creg := mkReg { g_id : N; g_spill : bool; g_rc : N }.
(* TrackedConsumer { reserved, peak } keyed by consumer id *)
Record trk := mkTrk { t_cid : N; t_res : N; t_peak : N }.

Inductive pool :=
| PUnbounded (used : N)
| PGreedy (limit used : N)
| PFair (limit num_spill spillable unspillable : N)
| PTrack (inner : pool) (tracked : list trk)
| PPeak (inner : pool) (reserved peak max : N).

(* ------------------------------------------------------------------ HashMap<usize, TrackedConsumer> *)
Fixpoint tr_remove (cid : N) (t : list trk) : list trk :=
  match t with
  | [] => []
  | e :: r => if t_cid e =? cid then r else e :: tr_remove cid r
  end.
(* insert replaces an existing entry *)
Definition tr_insert (cid : N) (t : list trk) : list trk := tr_remove cid t ++ [mkTrk cid 0 0].
(* entry(id).and_modify(|c| c.grow(n)) : reserved += n ; peak = max(peak, reserved) *)
Fixpoint tr_grow (cid n : N) (t : list trk) : list trk :=
  match t with
  | [] => []
  | e :: r => if t_cid e =? cid
              then mkTrk (t_cid e) (t_res e + n) (N.max (t_peak e) (t_res e + n)) :: r
              else e :: tr_grow cid n r
  end.
(* entry(id).and_modify(|c| c.shrink(n)) : reserved.fetch_sub(n) *)
Fixpoint tr_shrink (cid n : N) (t : list trk) : option (list trk) :=
  match t with
  | [] => Some []
  | e :: r => if t_cid e =? cid
              then if n <=? t_res e then Some (mkTrk (t_cid e) (t_res e - n) (t_peak e) :: r) else None
              else match tr_shrink cid n r with Some r' => Some (e :: r') | None => None end
  end.

(* ------------------------------------------------------------------ MemoryPool trait methods *)
Fixpoint pool_reserved (p : pool) : N :=
  match p with
  | PUnbounded u => u
  | PGreedy _ u => u
  | PFair _ _ sp un => sp + un
  | PTrack i _ => pool_reserved i
  | PPeak i _ _ _ => pool_reserved i
  end.

Fixpoint pool_register (p : pool) (cid : N) (spill : bool) : pool :=
  match p with
  | PUnbounded _ | PGreedy _ _ => p
  | PFair l ns sp un => if spill then PFair l (ns + 1) sp un else p
  | PTrack i t => PTrack (pool_register i cid spill) (tr_insert cid t)
  | PPeak i r pk mx => PPeak (pool_register i cid spill) r pk mx
  end.

(* None = `num_spill.checked_sub(1).unwrap()` panics *)
Fixpoint pool_unregister (p : pool) (cid : N) (spill : bool) : option pool :=
  match p with
  | PUnbounded _ | PGreedy _ _ => Some p
  | PFair l ns sp un => if spill then (if 1 <=? ns then Some (PFair l (ns - 1) sp un) else None) else Some p
  | PTrack i t => match pool_unregister i cid spill with
                  | Some i' => Some (PTrack i' (tr_remove cid t))
                  | None => None
                  end
  | PPeak i r pk mx => match pool_unregister i cid spill with
                       | Some i' => Some (PPeak i' r pk mx)
                       | None => None
                       end
  end.

(* PeakRecordingPool::record *)
Definition peak_record (i : pool) (r pk mx n : N) : pool :=
  PPeak i (r + n) (N.max pk (r + n)) (N.max mx (r + n)).

Fixpoint pool_grow (p : pool) (spill : bool) (cid n : N) : pool :=
  match p with
  | PUnbounded u => PUnbounded (u + n)
  | PGreedy l u => PGreedy l (u + n)
  | PFair l ns sp un => if spill then PFair l ns (sp + n) un else PFair l ns sp (un + n)
  | PTrack i t => PTrack (pool_grow i spill cid n) (tr_grow cid n t)
  | PPeak i r pk mx => peak_record (pool_grow i spill cid n) r pk mx n
  end.

(* None = a usize underflow (fetch_sub wraps / `-=` panics in debug builds) *)
Fixpoint pool_shrink (p : pool) (spill : bool) (cid n : N) : option pool :=
  match p with
  | PUnbounded u => if n <=? u then Some (PUnbounded (u - n)) else None
  | PGreedy l u => if n <=? u then Some (PGreedy l (u - n)) else None
  | PFair l ns sp un =>
      if spill then (if n <=? sp then Some (PFair l ns (sp - n) un) else None)
      else (if n <=? un then Some (PFair l ns sp (un - n)) else None)
  | PTrack i t => match pool_shrink i spill cid n with
                  | Some i' => match tr_shrink cid n t with
                               | Some t' => Some (PTrack i' t')
                               | None => None
                               end
                  | None => None
                  end
  | PPeak i r pk mx => match pool_shrink i spill cid n with
                       | Some i' => if n <=? r then Some (PPeak i' (r - n) pk mx) else None
                       | None => None
                       end
  end.

(* None = Err(ResourcesExhausted).  [rsize] = reservation.size() read inside the call. *)
Fixpoint pool_try_grow (p : pool) (spill : bool) (cid rsize n : N) : option pool :=
  match p with
  | PUnbounded u => Some (PUnbounded (u + n))
  | PGreedy l u => if u + n <=? l then Some (PGreedy l (u + n)) else None
  | PFair l ns sp un =>
      if spill then
        let spill_available := l - un in                                   (* saturating_sub *)
        let available := if ns =? 0 then spill_available else spill_available / ns in  (* checked_div.unwrap_or *)
        if available <? rsize + n then None else Some (PFair l ns (sp + n) un)
      else
        let available := l - (un + sp) in                                   (* saturating_sub *)
        if available <? n then None else Some (PFair l ns sp (un + n))
  | PTrack i t => match pool_try_grow i spill cid rsize n with
                  | Some i' => Some (PTrack i' (tr_grow cid n t))
                  | None => None
                  end
  | PPeak i r pk mx => match pool_try_grow i spill cid rsize n with
                       | Some i' => Some (peak_record i' r pk mx n)
                       | None => None
                       end
  end.

(* PeakRecordingPool::reset_peak, applied to every recording layer *)
Fixpoint pool_reset_peak (p : pool) : pool :=
  match p with
  | PTrack i t => PTrack (pool_reset_peak i) t
  | PPeak i r pk mx => PPeak (pool_reset_peak i) r r mx
  | _ => p
  end.

(* observers: TrackConsumersPool::metrics (outermost layer first), PeakRecordingPool::{peak,max}_reserved *)
Fixpoint pool_metrics (p : pool) : list (list trk) :=
  match p with
  | PTrack i t => t :: pool_metrics i
  | PPeak i _ _ _ => pool_metrics i
  | _ => []
  end.
Fixpoint pool_peaks (p : pool) : list (N * N) :=
  match p with
  | PTrack i _ => pool_peaks i
  | PPeak i _ pk mx => (pk, mx) :: pool_peaks i
  | _ => []
  end.
(* the pool at the bottom of the wrappers *)
Fixpoint pool_base (p : pool) : pool :=
  match p with
  | PTrack i _ => pool_base i
  | PPeak i _ _ _ => pool_base i
  | _ => p
  end.

(* a freshly constructed pool (what `new` returns) *)
Fixpoint fresh (p : pool) : bool :=
  match p with
  | PUnbounded u => u =? 0
  | PGreedy _ u => u =? 0
  | PFair _ ns sp un => (ns =? 0) && (sp =? 0) && (un =? 0)
  | PTrack i t => fresh i && match t with [] => true | _ => false end
  | PPeak i r pk mx => fresh i && (r =? 0) && (pk =? 0) && (mx =? 0)
  end.

(* ------------------------------------------------------------------ reservations *)
Record state := mkState {
  st_pool : pool;
  st_regs : list creg;       (* live Arc<SharedRegistration>s, in registration order *)
  st_resvs : list resv;      (* live MemoryReservations, in creation order *)
  st_next_rid : N;
  st_next_cid : N }.

Definition init (cfg : pool) : state := mkState cfg [] [] 0 0.

Fixpoint find_resv (rid : N) (rs : list resv) : option resv :=
  match rs with
  | [] => None
  | r :: t => if r_id r =? rid then Some r else find_resv rid t
  end.
Fixpoint set_size (rid z : N) (rs : list resv) : list resv :=
  match rs with
  | [] => []
  | r :: t => if r_id r =? rid then mkResv (r_id r) (r_cid r) (r_spill r) z :: t else r :: set_size rid z t
  end.
Fixpoint remove_resv (rid : N) (rs : list resv) : list resv :=
  match rs with
  | [] => []
  | r :: t => if r_id r =? rid then t else r :: remove_resv rid t
  end.
(* Arc::clone(&self.registration) *)
Fixpoint reg_incr (cid : N) (cs : list creg) : list creg :=
  match cs with
  | [] => []
  | c :: t => if g_id c =? cid then mkReg (g_id c) (g_spill c) (g_rc c + 1) :: t else c :: reg_incr cid t
  end.
(* dropping one Arc<SharedRegistration>: (remaining registrations, was it the last one) *)
Fixpoint reg_decr (cid : N) (cs : list creg) : option (list creg * bool) :=
  match cs with
  | [] => None
  | c :: t => if g_id c =? cid
              then (if g_rc c <=? 1 then Some (t, true)
                    else Some (mkReg (g_id c) (g_spill c) (g_rc c - 1) :: t, false))
              else match reg_decr cid t with
                   | Some (t', b) => Some (c :: t', b)
                   | None => None
                   end
  end.

Inductive op :=
| ORegister (spill : bool)        (* MemoryConsumer::new(..).with_can_spill(spill).register(&pool) *)
| OTryGrow (rid n : N)
| OGrow (rid n : N)
| OShrink (rid n : N)
| OTryShrink (rid n : N)
| OResize (rid n : N)
| OTryResize (rid n : N)
| OFree (rid : N)
| OSplit (rid n : N)
| OTake (rid : N)
| ONewEmpty (rid : N)
| ODrop (rid : N)
| OResetPeak.

Inductive out :=
| Done                 (* returned () / Ok(()) *)
| DoneN (v : N)        (* free -> bytes freed ; try_shrink -> Ok(new size) *)
| New (rid : N)        (* a new reservation was returned; its id *)
| Err                  (* Result::Err *)
| Panic                (* documented panic (shrink/split by more than the size) *)
| NoSuch               (* rid does not name a live reservation: nothing is called *)
| Overflow             (* pool total would reach 2^64: outside the model *)
| Fault.               (* usize underflow / unwrap on None inside the pool: proved unreachable *)

Definition upd (s : state) (p : pool) (cs : list creg) (rs : list resv) : state :=
  mkState p cs rs (st_next_rid s) (st_next_cid s).

Definition overflows (s : state) (n : N) : bool := usize_lim <=? pool_reserved (st_pool s) + n.

(* grow: pool.grow(self, n) ; size.fetch_add(n) *)
Definition do_grow (s : state) (r : resv) (n : N) : state * out :=
  if overflows s n then (s, Overflow) else
  (upd s (pool_grow (st_pool s) (r_spill r) (r_cid r) n) (st_regs s)
       (set_size (r_id r) (r_size r + n) (st_resvs s)), Done).

(* try_grow: pool.try_grow(self, n)? ; size.fetch_add(n) *)
Definition do_try_grow (s : state) (r : resv) (n : N) : state * out :=
  if overflows s n then (s, Overflow) else
  match pool_try_grow (st_pool s) (r_spill r) (r_cid r) (r_size r) n with
  | None => (s, Err)
  | Some p' => (upd s p' (st_regs s) (set_size (r_id r) (r_size r + n) (st_resvs s)), Done)
  end.

(* shrink / try_shrink: size.fetch_update(checked_sub n) [else panic / Err] ; pool.shrink(self, n) *)
Definition do_shrink (s : state) (r : resv) (n : N) (fail : out) (ok : N -> out) : state * out :=
  if r_size r <? n then (s, fail) else
  match pool_shrink (st_pool s) (r_spill r) (r_cid r) n with
  | None => (s, Fault)
  | Some p' => (upd s p' (st_regs s) (set_size (r_id r) (r_size r - n) (st_resvs s)), ok (r_size r - n))
  end.

(* free: size.swap(0) ; if size != 0 { pool.shrink(self, size) } ; size *)
Definition do_free (s : state) (r : resv) : state * out :=
  if r_size r =? 0 then (s, DoneN 0) else
  match pool_shrink (st_pool s) (r_spill r) (r_cid r) (r_size r) with
  | None => (s, Fault)
  | Some p' => (upd s p' (st_regs s) (set_size (r_id r) 0 (st_resvs s)), DoneN (r_size r))
  end.

(* split: size.fetch_update(checked_sub n).unwrap() ; new reservation of n bytes on the same registration *)
Definition do_split (s : state) (r : resv) (n : N) : state * out :=
  if r_size r <? n then (s, Panic) else
  let rid := st_next_rid s in
  (mkState (st_pool s) (reg_incr (r_cid r) (st_regs s))
           (set_size (r_id r) (r_size r - n) (st_resvs s) ++ [mkResv rid (r_cid r) (r_spill r) n])
           (rid + 1) (st_next_cid s), New rid).

(* Drop for MemoryReservation: free() ; then the Arc<SharedRegistration> is released and, if it was the
   last one, SharedRegistration::drop calls pool.unregister(consumer) *)
Definition do_drop (s : state) (r : resv) : state * out :=
  match (if r_size r =? 0 then Some (st_pool s)
         else pool_shrink (st_pool s) (r_spill r) (r_cid r) (r_size r)) with
  | None => (s, Fault)
  | Some p1 =>
      match reg_decr (r_cid r) (st_regs s) with
      | None => (s, Fault)
      | Some (cs', last) =>
          match (if last then pool_unregister p1 (r_cid r) (r_spill r) else Some p1) with
          | None => (s, Fault)
          | Some p2 => (upd s p2 cs' (remove_resv (r_id r) (st_resvs s)), Done)
          end
      end
  end.

Definition on_resv (s : state) (rid : N) (k : resv -> state * out) : state * out :=
  match find_resv rid (st_resvs s) with
  | None => (s, NoSuch)
  | Some r => k r
  end.

Definition step (s : state) (o : op) : state * out :=
  match o with
  | ORegister spill =>
      let cid := st_next_cid s in
      let rid := st_next_rid s in
      (mkState (pool_register (st_pool s) cid spill)
               (st_regs s ++ [mkReg cid spill 1])
               (st_resvs s ++ [mkResv rid cid spill 0])
               (rid + 1) (cid + 1), New rid)
  | OTryGrow rid n => on_resv s rid (fun r => do_try_grow s r n)
  | OGrow rid n => on_resv s rid (fun r => do_grow s r n)
  | OShrink rid n => on_resv s rid (fun r => do_shrink s r n Panic (fun _ => Done))
  | OTryShrink rid n => on_resv s rid (fun r => do_shrink s r n Err DoneN)
  | OResize rid n =>
      on_resv s rid (fun r =>
        match n ?= r_size r with
        | Gt => do_grow s r (n - r_size r)
        | Lt => do_shrink s r (r_size r - n) Panic (fun _ => Done)
        | Eq => (s, Done)
        end)
  | OTryResize rid n =>
      on_resv s rid (fun r =>
        match n ?= r_size r with
        | Gt => do_try_grow s r (n - r_size r)
        | Lt => do_shrink s r (r_size r - n) Err (fun _ => Done)
        | Eq => (s, Done)
        end)
  | OFree rid => on_resv s rid (fun r => do_free s r)
  | OSplit rid n => on_resv s rid (fun r => do_split s r n)
  | OTake rid => on_resv s rid (fun r => do_split s r (r_size r))
  | ONewEmpty rid => on_resv s rid (fun r => do_split s r 0)
  | ODrop rid => on_resv s rid (fun r => do_drop s r)
  | OResetPeak => (upd s (pool_reset_peak (st_pool s)) (st_regs s) (st_resvs s), Done)
  end.

Fixpoint run (s : state) (h : list op) : state :=
  match h with
  | [] => s
  | o :: t => run (fst (step s o)) t
  end.

(* the states after each operation of the history (not including the start state) *)
Fixpoint run_states (s : state) (h : list op) : list state :=
  match h with
  | [] => []
  | o :: t => fst (step s o) :: run_states (fst (step s o)) t
  end.

(* ------------------------------------------------------------------ specification vocabulary *)
(* sum of the sizes of the live reservations selected by a predicate on (consumer id, can_spill) *)
Definition wsum (g : N -> bool -> bool) (rs : list resv) : N :=
  fold_right (fun r a => if g (r_cid r) (r_spill r) then r_size r + a else a) 0 rs.
Definition g_all : N -> bool -> bool := fun _ _ => true.
Definition g_spillable : N -> bool -> bool := fun _ b => b.
Definition g_unspillable : N -> bool -> bool := fun _ b => negb b.
Definition g_cid (k : N) : N -> bool -> bool := fun c _ => c =? k.

Definition sum_sizes (rs : list resv) : N := wsum g_all rs.
Definition sum_spillable (rs : list resv) : N := wsum g_spillable rs.
Definition sum_unspillable (rs : list resv) : N := wsum g_unspillable rs.
Definition consumer_sum (cid : N) (rs : list resv) : N := wsum (g_cid cid) rs.
(* number of registered consumers that can spill *)
Definition num_spillable (cs : list creg) : N := N.of_nat (length (filter g_spill cs)).
(* what the pool reports *)
Definition total (s : state) : N := pool_reserved (st_pool s).
Definition list_max (l : list N) : N := fold_right N.max 0 l.

(* histories that never use the infallible growth entry points *)
Definition fallible (o : op) : bool :=
  match o with OGrow _ _ | OResize _ _ => false | _ => true end.
Definition is_reset (o : op) : bool := match o with OResetPeak => true | _ => false end.

(* all interleavings of the per-thread operation lists *)
Inductive interleaving : list (list op) -> list op -> Prop :=
| il_done : forall ts, Forall (fun t => t = []) ts -> interleaving ts []
| il_step : forall ts1 o t ts2 l,
    interleaving (ts1 ++ t :: ts2) l -> interleaving (ts1 ++ (o :: t) :: ts2) (o :: l).

(* ------------------------------------------------------------------ correspondence with the implementation *)
(* what the harness prints after every call: the outcome, size() of every live reservation, pool.reserved(),
   metrics() of every tracking layer (sorted by consumer), (peak_reserved, max_reserved) of every recorder *)
Inductive obs := Obs (o : out) (sizes : list (N * N)) (reserved : N)
                     (metrics : list (list trk)) (peaks : list (N * N)).

Definition observe (s : state) (o : out) : obs :=
  Obs o (map (fun r => (r_id r, r_size r)) (st_resvs s)) (pool_reserved (st_pool s))
      (pool_metrics (st_pool s)) (pool_peaks (st_pool s)).

Fixpoint run_obs (s : state) (h : list op) : list obs :=
  match h with
  | [] => []
  | o :: t => let (s', r) := step s o in observe s' r :: run_obs s' t
  end.

Definition out_eqb (a b : out) : bool :=
  match a, b with
  | Done, Done | Err, Err | Panic, Panic | NoSuch, NoSuch | Overflow, Overflow | Fault, Fault => true
  | DoneN x, DoneN y => x =? y
  | New x, New y => x =? y
  | _, _ => false
  end.
Definition pair_eqb (a b : N * N) : bool := (fst a =? fst b) && (snd a =? snd b).
Definition trk_eqb (a b : trk) : bool :=
  (t_cid a =? t_cid b) && (t_res a =? t_res b) && (t_peak a =? t_peak b).
Definition obs_eqb (a b : obs) : bool :=
  match a, b with
  | Obs o1 s1 r1 m1 p1, Obs o2 s2 r2 m2 p2 =>
      out_eqb o1 o2 && list_eqb pair_eqb s1 s2 && (r1 =? r2)
      && list_eqb (list_eqb trk_eqb) m1 m2 && list_eqb pair_eqb p1 p2
  end.

Inductive c17_case := C17Case (cfg : pool) (ops : list op) (observed : list obs).

Definition c17_check (c : c17_case) : bool :=
  match c with
  | C17Case cfg ops observed => fresh cfg && list_eqb obs_eqb (run_obs (init cfg) ops) observed
  end.
