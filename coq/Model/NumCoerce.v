(* C47 -- executable model of DataFusion's comparison type coercion on the numeric type
   universe, of the Arrow cast kernels the coerced comparison goes through, and of the
   evaluation of a mixed-type comparison  `l op r`.

   Modelled code (read at the pinned commit):
     datafusion/expr-common/src/type_coercion/binary.rs
        comparison_coercion, binary_numeric_coercion, decimal_coercion,
        get_wider_decimal_type, get_wider_decimal_type_cross_variant, get_common_decimal_type,
        coerce_numeric_type_to_decimal{32,64,128,256}, numerical_coercion, create_decimal*_type,
        null_coercion
     datafusion/optimizer/src/analyzer/type_coercion.rs  coerce_binary_op (cast both sides to the
        coerced type; Expr::cast_to is the identity when the type already matches)
     datafusion/physical-expr/src/expressions/{cast,binary}.rs (CastExpr uses safe=false: a value
        that does not fit is an ERROR; the comparison kernel compares two arrays of the same type)
     arrow-cast 59.2.0  cast/mod.rs cast_integer_to_decimal, numeric casts; cast/decimal.rs
        cast_decimal_to_decimal(_same_type), make_upscaler, cast_decimal_to_integer

   Numbers: an integer value is its mathematical value; a Decimal(p,s) value is its UNSCALED
   integer v (the number it denotes is v / 10^s).  u8 precisions and i8 scales are Z values.

   Two build flavours exist for the i8 arithmetic in the coercion/cast code:
     release (wrapping)      : what the functions below compute;
     overflow-checks (debug) : panics exactly when [comparison_ovf] / [eval_ovf] is true. *)
From Coq Require Import ZArith Bool List.
From DF Require Import Base.Prelude.
Open Scope Z_scope.

(* ------------------------------------------------------------------ type universe *)
Inductive ity := I8 | I16 | I32 | I64 | U8 | U16 | U32 | U64.
Inductive fty := F16 | F32 | F64.
Inductive dvar := D32 | D64 | D128 | D256.
Inductive nty :=
  | TNull
  | TInt (i : ity)
  | TFloat (f : fty)
  | TDec (v : dvar) (p s : Z).        (* Decimal{32,64,128,256}(precision : u8, scale : i8) *)

Definition ity_eqb (a b : ity) : bool :=
  match a, b with
  | I8, I8 | I16, I16 | I32, I32 | I64, I64 | U8, U8 | U16, U16 | U32, U32 | U64, U64 => true
  | _, _ => false
  end.
Definition fty_eqb (a b : fty) : bool :=
  match a, b with F16, F16 | F32, F32 | F64, F64 => true | _, _ => false end.
Definition dvar_eqb (a b : dvar) : bool :=
  match a, b with D32, D32 | D64, D64 | D128, D128 | D256, D256 => true | _, _ => false end.
Definition nty_eqb (a b : nty) : bool :=
  match a, b with
  | TNull, TNull => true
  | TInt i, TInt j => ity_eqb i j
  | TFloat f, TFloat g => fty_eqb f g
  | TDec v p s, TDec w q t => dvar_eqb v w && (p =? q) && (s =? t)
  | _, _ => false
  end.

(* DataType::is_numeric *)
Definition is_numeric (t : nty) : bool := match t with TNull => false | _ => true end.
Definition is_decimal (t : nty) : bool := match t with TDec _ _ _ => true | _ => false end.

(* ------------------------------------------------------------------ i8 / u8 machine arithmetic *)
Definition wrap_i8 (z : Z) : Z := (z + 128) mod 256 - 128.     (* `as i8`, wrapping i8 ops *)
Definition wrap_u8 (z : Z) : Z := z mod 256.                   (* `as u8` *)
Definition fits_i8 (z : Z) : bool := (-128 <=? z) && (z <=? 127).

(* DECIMALnn_MAX_PRECISION = DECIMALnn_MAX_SCALE *)
Definition max_prec (v : dvar) : Z := match v with D32 => 9 | D64 => 18 | D128 => 38 | D256 => 76 end.

(* create_decimalNN_type(precision, scale) *)
Definition create_decimal (v : dvar) (p s : Z) : nty := TDec v (Z.min (max_prec v) p) (Z.min (max_prec v) s).

(* the shared arithmetic of get_wider_decimal_type / _cross_variant:
     let s = s1.max(s2); let range = (p1 as i8 - s1).max(p2 as i8 - s2); ((range + s) as u8, s) *)
Definition wider_ps (p1 s1 p2 s2 : Z) : Z * Z :=
  let s := Z.max s1 s2 in
  let range := Z.max (wrap_i8 (wrap_i8 p1 - s1)) (wrap_i8 (wrap_i8 p2 - s2)) in
  (wrap_u8 (wrap_i8 (range + s)), s).
(* ... and whether one of its three i8 operations overflows (panic under overflow-checks) *)
Definition wider_ovf (p1 s1 p2 s2 : Z) : bool :=
  let s := Z.max s1 s2 in
  let d1 := wrap_i8 p1 - s1 in
  let d2 := wrap_i8 p2 - s2 in
  negb (fits_i8 d1) || negb (fits_i8 d2) || negb (fits_i8 (Z.max (wrap_i8 d1) (wrap_i8 d2) + s)).

(* get_wider_decimal_type: only the four same-variant arms exist *)
Definition get_wider_decimal_type (l r : nty) : option nty :=
  match l, r with
  | TDec D32 p1 s1, TDec D32 p2 s2 => let '(p, s) := wider_ps p1 s1 p2 s2 in Some (create_decimal D32 p s)
  | TDec D64 p1 s1, TDec D64 p2 s2 => let '(p, s) := wider_ps p1 s1 p2 s2 in Some (create_decimal D64 p s)
  | TDec D128 p1 s1, TDec D128 p2 s2 => let '(p, s) := wider_ps p1 s1 p2 s2 in Some (create_decimal D128 p s)
  | TDec D256 p1 s1, TDec D256 p2 s2 => let '(p, s) := wider_ps p1 s1 p2 s2 in Some (create_decimal D256 p s)
  | _, _ => None
  end.

(* get_wider_decimal_type_cross_variant: larger variant, None when the precision does not fit;
   note: the scale is NOT capped here and the precision is compared, not capped *)
Definition get_wider_decimal_type_cross_variant (l r : nty) : option nty :=
  match l, r with
  | TDec v1 p1 s1, TDec v2 p2 s2 =>
      let '(req, s) := wider_ps p1 s1 p2 s2 in
      match v1, v2 with
      | D32, D64 | D64, D32 => if req <=? 18 then Some (TDec D64 req s) else None
      | D32, D128 | D128, D32 | D64, D128 | D128, D64 => if req <=? 38 then Some (TDec D128 req s) else None
      | D32, D256 | D256, D32 | D64, D256 | D256, D64 | D128, D256 | D256, D128 =>
          if req <=? 76 then Some (TDec D256 req s) else None
      | _, _ => None
      end
  | _, _ => None
  end.

(* coerce_numeric_type_to_decimal{32,64,128,256} *)
Definition coerce_numeric_type_to_decimal (v : dvar) (t : nty) : option nty :=
  match v, t with
  | D32, TInt (I8 | U8) => Some (TDec D32 3 0)
  | D32, TInt (I16 | U16) => Some (TDec D32 5 0)
  | D32, TFloat F16 => Some (TDec D32 6 3)
  | D32, _ => None
  | D64, TInt (I8 | U8) => Some (TDec D64 3 0)
  | D64, TInt (I16 | U16) => Some (TDec D64 5 0)
  | D64, TInt (I32 | U32) => Some (TDec D64 10 0)
  | D64, TFloat F16 => Some (TDec D64 6 3)
  | D64, TFloat F32 => Some (TDec D64 14 7)
  | D64, _ => None
  | v, TInt (I8 | U8) => Some (TDec v 3 0)
  | v, TInt (I16 | U16) => Some (TDec v 5 0)
  | v, TInt (I32 | U32) => Some (TDec v 10 0)
  | v, TInt (I64 | U64) => Some (TDec v 20 0)
  | v, TFloat F16 => Some (TDec v 6 3)
  | v, TFloat F32 => Some (TDec v 14 7)
  | v, TFloat F64 => Some (TDec v 30 15)
  | _, _ => None
  end.

(* get_common_decimal_type(decimal_type, other_type) *)
Definition get_common_decimal_type (d other : nty) : option nty :=
  match d with
  | TDec v _ _ =>
      match coerce_numeric_type_to_decimal v other with
      | Some od => get_wider_decimal_type d od
      | None => None
      end
  | _ => None
  end.

(* decimal_coercion *)
Definition decimal_coercion (l r : nty) : option nty :=
  match l, r with
  | TDec v1 _ _, TDec v2 _ _ =>
      if dvar_eqb v1 v2 then get_wider_decimal_type l r else get_wider_decimal_type_cross_variant l r
  | TDec _ _ _, _ => get_common_decimal_type l r
  | _, TDec _ _ _ => get_common_decimal_type r l
  | _, _ => None
  end.

(* numerical_coercion: the match arms in source order (first match wins) *)
Definition numerical_coercion (l r : nty) : option nty :=
  match l, r with
  | TFloat F64, _ | _, TFloat F64 => Some (TFloat F64)
  | _, TFloat F32 | TFloat F32, _ => Some (TFloat F32)
  | _, TFloat F16 | TFloat F16, _ => Some (TFloat F16)
  | TInt U64, TInt (I64 | I32 | I16 | I8) | TInt (I64 | I32 | I16 | I8), TInt U64 => Some (TDec D128 20 0)
  | TInt U64, _ | _, TInt U64 => Some (TInt U64)
  | TInt I64, _ | _, TInt I64
  | TInt U32, TInt (I32 | I16 | I8) | TInt (I32 | I16 | I8), TInt U32 => Some (TInt I64)
  | TInt U32, _ | _, TInt U32 => Some (TInt U32)
  | TInt I32, _ | _, TInt I32 | TInt U16, TInt (I16 | I8) | TInt (I16 | I8), TInt U16 => Some (TInt I32)
  | TInt U16, _ | _, TInt U16 => Some (TInt U16)
  | TInt I16, _ | _, TInt I16 | TInt I8, TInt U8 | TInt U8, TInt I8 => Some (TInt I16)
  | TInt I8, _ | _, TInt I8 => Some (TInt I8)
  | TInt U8, _ | _, TInt U8 => Some (TInt U8)
  | _, _ => None
  end.

(* binary_numeric_coercion *)
Definition binary_numeric_coercion (l r : nty) : option nty :=
  if negb (is_numeric l) || negb (is_numeric r) then None
  else if nty_eqb l r then Some l
  else match decimal_coercion l r with
       | Some t => Some t
       | None => numerical_coercion l r
       end.

(* null_coercion (can_cast_types(Null, t) holds for every type of this universe) *)
Definition null_coercion (l r : nty) : option nty :=
  match l, r with
  | TNull, t | t, TNull => Some t
  | _, _ => None
  end.

(* comparison_coercion restricted to this universe.  The other links of the or_else chain
   (dictionary, run-end, temporal, string, list, string_numeric, string_temporal, binary, struct,
   map, union coercion) all return None when both types are numeric or Null; the correspondence
   run checks the result on every ordered pair. *)
Definition comparison_coercion (l r : nty) : option nty :=
  if nty_eqb l r then Some l
  else match binary_numeric_coercion l r with
       | Some t => Some t
       | None => null_coercion l r
       end.

(* an i8 operation of the coercion arithmetic overflows (=> panic when built with overflow-checks) *)
Definition comparison_ovf (l r : nty) : bool :=
  if nty_eqb l r then false
  else match l, r with
       | TDec _ p1 s1, TDec _ p2 s2 => wider_ovf p1 s1 p2 s2
       | TDec v p1 s1, o | o, TDec v p1 s1 =>
           match coerce_numeric_type_to_decimal v o with
           | Some (TDec _ p2 s2) => wider_ovf p1 s1 p2 s2
           | _ => false
           end
       | _, _ => false
       end.

(* ------------------------------------------------------------------ value domains *)
Definition ilo (i : ity) : Z :=
  match i with I8 => -128 | I16 => -32768 | I32 => -2147483648 | I64 => -9223372036854775808 | _ => 0 end.
Definition ihi (i : ity) : Z :=
  match i with
  | I8 => 127 | I16 => 32767 | I32 => 2147483647 | I64 => 9223372036854775807
  | U8 => 255 | U16 => 65535 | U32 => 4294967295 | U64 => 18446744073709551615
  end.
Definition in_irange (i : ity) (z : Z) : bool := (ilo i <=? z) && (z <=? ihi i).

Definition dbits (v : dvar) : Z := match v with D32 => 32 | D64 => 64 | D128 => 128 | D256 => 256 end.
(* 2^(bits-1), written out so that evaluation does not recompute the power *)
Definition nat_half (v : dvar) : Z :=
  match v with
  | D32 => 2147483648
  | D64 => 9223372036854775808
  | D128 => 170141183460469231731687303715884105728
  | D256 => 57896044618658097711785492504343953926634992332820282019728792003956564819968
  end.
Definition in_native (v : dvar) (z : Z) : bool := (- nat_half v <=? z) && (z <=? nat_half v - 1).
(* two's-complement wrap-around into the native integer: (z + 2^(b-1)) mod 2^b - 2^(b-1); the
   in-range shortcut only avoids a bignum division during evaluation (wrap_native_spec) *)
Definition wrap_native (v : dvar) (z : Z) : Z :=
  if in_native v z then z else (z + nat_half v) mod (2 * nat_half v) - nat_half v.

(* validate_decimal_precision_and_scale *)
Definition valid_dec (v : dvar) (p s : Z) : bool :=
  (1 <=? p) && (p <=? max_prec v) && (s <=? max_prec v) && ((s <=? 0) || (s <=? p)).
(* is_valid_decimal_precision / validate_decimal_precision: |value| <= 10^p - 1 *)
Definition prec_ok (v : dvar) (p z : Z) : bool := (p <=? max_prec v) && (Z.abs z <=? 10 ^ p - 1).

(* a value of the given type (what an array of that type may hold) *)
Definition val_ok (t : nty) (z : Z) : bool :=
  match t with
  | TInt i => in_irange i z
  | TDec _ p _ => Z.abs z <=? 10 ^ p - 1
  | _ => false
  end.
(* types whose values this model evaluates: integers and valid decimals with scale >= 0 *)
Definition ty_ok (t : nty) : bool :=
  match t with
  | TInt _ => true
  | TDec v p s => valid_dec v p s && (0 <=? s)
  | _ => false
  end.
Definition scale_of (t : nty) : Z := match t with TDec _ _ s => s | _ => 0 end.
(* no Decimal256 operand *)
Definition not256 (t : nty) : bool := match t with TDec D256 _ _ => false | _ => true end.

(* ------------------------------------------------------------------ casts (CastOptions.safe = false) *)
Inductive cres := COk (z : Z) | CErr | CUnm.   (* CUnm: outside what this model describes *)

(* numeric cast between integer types: num::cast, out of range => error *)
Definition cast_int_int (j : ity) (x : Z) : cres := if in_irange j x then COk x else CErr.

(* cast_integer_to_decimal, scale >= 0 arm:
     scale_factor = 10.pow_checked(scale)?;  v.as_().mul_checked(scale_factor)? ;
     validate_decimal_precision ;  with_precision_and_scale *)
Definition cast_int_dec (v : dvar) (p s : Z) (x : Z) : cres :=
  if s <? 0 then CUnm
  else if negb (in_native v (10 ^ s)) then CErr
  else let m := wrap_native v x * 10 ^ s in
       if negb (in_native v m) then CErr
       else if negb (prec_ok v p m) then CErr
       else if negb (valid_dec v p s) then CErr
       else COk m.

(* cast_decimal_to_decimal{,_same_type}; only the scale-increasing direction is modelled (the
   comparison coercion never lowers the scale of a valid decimal type).
   make_upscaler:  delta = s2 - s1 ; mul = 10^delta from O::MAX_FOR_EACH_PRECISION[delta] (else error);
                   is_infallible = (p1 as i8) + delta <= (p2 as i8)
                   infallible  -> from_decimal(x).unwrap().mul_wrapping(mul)      (no validation!)
                   otherwise   -> from_decimal(x)?.mul_checked(mul)? ; validate_decimal_precision *)
Definition cast_dec_dec (v1 : dvar) (p1 s1 : Z) (v2 : dvar) (p2 s2 : Z) (x : Z) : cres :=
  if dvar_eqb v1 v2 && (s1 =? s2) && (p1 <=? p2) then (if valid_dec v2 p2 s2 then COk x else CErr)
  else if s1 <=? s2 then
    let delta := wrap_i8 (s2 - s1) in
    if (delta <? 0) || (max_prec v2 <? delta) then CErr
    else
      let mul := 10 ^ delta in
      if wrap_i8 (wrap_i8 p1 + delta) <=? wrap_i8 p2 then
        (if negb (in_native v2 x) then CUnm
         else if valid_dec v2 p2 s2 then COk (wrap_native v2 (x * mul)) else CErr)
      else if negb (in_native v2 x) then CErr
      else let m := x * mul in
           if negb (in_native v2 m) then CErr
           else if negb (prec_ok v2 p2 m) then CErr
           else if negb (valid_dec v2 p2 s2) then CErr
           else COk m
  else CUnm.
(* i8 overflow inside make_upscaler (=> panic when built with overflow-checks) *)
Definition cast_dec_dec_ovf (v1 : dvar) (p1 s1 : Z) (v2 : dvar) (p2 s2 : Z) : bool :=
  if dvar_eqb v1 v2 && (s1 =? s2) && (p1 <=? p2) then false
  else if s1 <=? s2 then
    negb (fits_i8 (s2 - s1))
    || (let delta := wrap_i8 (s2 - s1) in
        negb ((delta <? 0) || (max_prec v2 <? delta)) && negb (fits_i8 (wrap_i8 p1 + delta)))
  else false.

(* cast_decimal_to_integer, scale >= 0 arm: div = 10.pow_checked(scale)?; value.div_checked(div)
   (integer division truncating towards zero), then NumCast into the integer type *)
Definition cast_dec_int (v : dvar) (s : Z) (j : ity) (x : Z) : cres :=
  if s <? 0 then CUnm
  else if negb (in_native v (10 ^ s)) then CErr
  else let q := Z.quot x (10 ^ s) in if in_irange j q then COk q else CErr.

(* Expr::cast_to + CastExpr: identity when the type already matches *)
Definition cast_val (from to : nty) (x : Z) : cres :=
  if nty_eqb from to then COk x
  else match from, to with
       | TInt _, TInt j => cast_int_int j x
       | TInt _, TDec v p s => cast_int_dec v p s x
       | TDec v1 p1 s1, TDec v2 p2 s2 => cast_dec_dec v1 p1 s1 v2 p2 s2 x
       | TDec v _ s, TInt j => cast_dec_int v s j x
       | _, _ => CUnm
       end.
Definition cast_ovf (from to : nty) : bool :=
  if nty_eqb from to then false
  else match from, to with
       | TDec v1 p1 s1, TDec v2 p2 s2 => cast_dec_dec_ovf v1 p1 s1 v2 p2 s2
       | _, _ => false
       end.

(* ------------------------------------------------------------------ comparison evaluation *)
Inductive cmpop := OEq | ONe | OLt | OLe | OGt | OGe.
Definition all_ops : list cmpop := [OEq; ONe; OLt; OLe; OGt; OGe].
Definition zcmp (op : cmpop) (x y : Z) : bool :=
  match op with
  | OEq => x =? y | ONe => negb (x =? y)
  | OLt => x <? y | OLe => x <=? y
  | OGt => y <? x | OGe => y <=? x
  end.
Definition mirror (op : cmpop) : cmpop :=
  match op with OEq => OEq | ONe => ONe | OLt => OGt | OLe => OGe | OGt => OLt | OGe => OLe end.

Inductive eres := EOk (b : bool) | EPlanErr | ECastErr | EUnm.
Definition exact_ty (t : nty) : bool := match t with TInt _ | TDec _ _ _ => true | _ => false end.

(* `l op r` with l : ta holding x and r : tb holding y (both non-NULL):
   TypeCoercion casts both sides to comparison_coercion(ta, tb); the kernel compares the two
   values of that common type (for Decimal(p,s) arrays: the unscaled integers). *)
Definition eval_cmp (op : cmpop) (ta : nty) (x : Z) (tb : nty) (y : Z) : eres :=
  match comparison_coercion ta tb with
  | None => EPlanErr
  | Some t =>
      if exact_ty t then
        match cast_val ta t x, cast_val tb t y with
        | COk x', COk y' => EOk (zcmp op x' y')
        | CUnm, _ | _, CUnm => EUnm
        | _, _ => ECastErr
        end
      else EUnm
  end.
(* panic (overflow-checks build) while coercing or casting *)
Definition eval_ovf (ta tb : nty) : bool :=
  comparison_ovf ta tb
  || match comparison_coercion ta tb with
     | Some t => cast_ovf ta t || cast_ovf tb t
     | None => false
     end.

(* `l IN (y1, .., yk)` with all list items of type tb: both sides are cast to the same common type *)
Definition eval_inlist (ta : nty) (x : Z) (tb : nty) (ys : list Z) : eres :=
  fold_right (fun y acc =>
                match eval_cmp OEq ta x tb y, acc with
                | EOk b, EOk c => EOk (b || c)
                | EOk _, e => e
                | e, _ => e
                end) (EOk false) ys.

(* ------------------------------------------------------------------ specification *)
(* the mathematical comparison of x / 10^sa with y / 10^sb (integers have scale 0) *)
Definition spec_cmp (op : cmpop) (ta : nty) (x : Z) (tb : nty) (y : Z) : bool :=
  zcmp op (x * 10 ^ scale_of tb) (y * 10 ^ scale_of ta).

(* ------------------------------------------------------------------ correspondence cases *)
Inductive c47_out :=
  | OutRes (l : list bool)      (* the six truth values, order = all_ops *)
  | OutCastErr                  (* evaluation returned an (Arrow cast) error *)
  | OutPlanErr                  (* "Cannot infer common argument type" *)
  | OutPanic.                   (* arithmetic-overflow panic in the overflow-checks build *)

Inductive c47_case :=
  (* comparison_coercion(a, b) returned r / panicked *)
  | CTy (a b : nty) (r : option nty) (panicked : bool)
  (* col(a) op col(b) on rows (x, y): operands were coerced to ct; per row the observed outcome *)
  | CCmp (a b : nty) (ct : option nty) (rows : list (Z * Z * c47_out))
  (* the same, observed on a build WITHOUT overflow checks (the arithmetic of a --release build):
     compared with the wrapping results of the model, no panic expected *)
  | CCmpWrap (a b : nty) (ct : option nty) (rows : list (Z * Z * c47_out))
  (* col op literal through coercion + simplifier: truth value per column value *)
  | CLit (a b : nty) (lit_left : bool) (litv : Z) (op : cmpop) (vals : list Z) (res : list bool)
  (* col(a) [NOT] IN (literals of type b) *)
  | CInl (a b : nty) (neg : bool) (xs ys : list Z) (res : list bool).

Definition eres_eqb (a b : eres) : bool :=
  match a, b with
  | EOk x, EOk y => Bool.eqb x y
  | EPlanErr, EPlanErr | ECastErr, ECastErr | EUnm, EUnm => true
  | _, _ => false
  end.

Definition row_check (a b : nty) (r : Z * Z * c47_out) : bool :=
  let '(x, y, o) := r in
  if eval_ovf a b then match o with OutPanic => true | _ => false end
  else match o with
       | OutRes l => list_eqb eres_eqb (map (fun op => eval_cmp op a x b y) all_ops) (map EOk l)
       | OutCastErr => eres_eqb (eval_cmp OEq a x b y) ECastErr
       | OutPlanErr => eres_eqb (eval_cmp OEq a x b y) EPlanErr
       | OutPanic => false
       end.

Definition row_check_wrap (a b : nty) (r : Z * Z * c47_out) : bool :=
  let '(x, y, o) := r in
  match o with
  | OutRes l => list_eqb eres_eqb (map (fun op => eval_cmp op a x b y) all_ops) (map EOk l)
  | OutCastErr => eres_eqb (eval_cmp OEq a x b y) ECastErr
  | OutPlanErr => eres_eqb (eval_cmp OEq a x b y) EPlanErr
  | OutPanic => false
  end.

Definition c47_check (c : c47_case) : bool :=
  match c with
  | CTy a b r panicked =>
      if panicked then comparison_ovf a b
      else negb (comparison_ovf a b) && opt_eqb nty_eqb (comparison_coercion a b) r
  | CCmp a b ct rows =>
      (match ct with
       | Some _ => opt_eqb nty_eqb (comparison_coercion a b) ct
       | None => true                  (* planning failed / panicked: no coerced type observed *)
       end)
      && forallb (row_check a b) rows
  | CCmpWrap a b ct rows =>
      (match ct with
       | Some _ => opt_eqb nty_eqb (comparison_coercion a b) ct
       | None => true
       end)
      && forallb (row_check_wrap a b) rows
  | CLit a b lit_left litv op vals res =>
      list_eqb eres_eqb
        (map (fun v => if lit_left then eval_cmp op a litv b v else eval_cmp op a v b litv) vals)
        (map EOk res)
  | CInl a b neg xs ys res =>
      list_eqb eres_eqb
        (map (fun x => match eval_inlist a x b ys with EOk r => EOk (xorb r neg) | e => e end) xs)
        (map EOk res)
  end.
