(* C35 -- instantiation of the Expr codec model with the GENERATED operator / type tables, and the checker that
   compares the model with what the real serialize_expr / parse_expr were observed to produce. Definitions only. *)
From Coq Require Import List ZArith String Bool Ascii.
From DF Require Import Base.Prelude Model.ProtoCodec Gen.ProtoEnums.
Import ListNotations.
Open Scope Z_scope.

Definition c35_expr := expr Operator DataType.
Definition c35_encode : c35_expr -> pexpr := encode Operator eqb_Operator enc_Operator DataType enc_DataType.
Definition c35_decode : pexpr -> option c35_expr := decode Operator dec_Operator DataType dec_DataType.
Definition c35_plain : c35_expr -> bool := plain good_Operator.

(* ---- boolean equality (used only by the correspondence checker) *)
Definition opt_eqb {A} (f : A -> A -> bool) (a b : option A) : bool :=
  match a, b with Some x, Some y => f x y | None, None => true | _, _ => false end.
Definition list_eqb {A} (f : A -> A -> bool) : list A -> list A -> bool :=
  fix go (a b : list A) : bool :=
    match a, b with [] , [] => true | x :: a', y :: b' => f x y && go a' b' | _, _ => false end.
Definition pair_eqb {A B} (f : A -> A -> bool) (g : B -> B -> bool) (a b : A * B) : bool :=
  f (fst a) (fst b) && g (snd a) (snd b).
Definition meta_eqb : meta -> meta -> bool := list_eqb (pair_eqb String.eqb String.eqb).
Definition lit_eqb (a b : lit) : bool :=
  match a, b with
  | LNull, LNull => true | LBool x, LBool y => Bool.eqb x y | LInt x, LInt y => x =? y | LUtf8 x, LUtf8 y => String.eqb x y
  | _, _ => false
  end.

Fixpoint expr_eqb (a b : c35_expr) {struct a} : bool :=
  match a, b with
  | EColumn r n, EColumn r' n' => opt_eqb String.eqb r r' && String.eqb n n'
  | ELit l m, ELit l' m' => lit_eqb l l' && opt_eqb meta_eqb m m'
  | EBinary l o r, EBinary l' o' r' => expr_eqb l l' && eqb_Operator o o' && expr_eqb r r'
  | ENot e, ENot e' | EIsNull e, EIsNull e' | EIsNotNull e, EIsNotNull e' | ENegative e, ENegative e' => expr_eqb e e'
  | EBetween e n lo hi, EBetween e' n' lo' hi' => expr_eqb e e' && Bool.eqb n n' && expr_eqb lo lo' && expr_eqb hi hi'
  | ELike n e p s c, ELike n' e' p' s' c' => Bool.eqb n n' && expr_eqb e e' && expr_eqb p p' && opt_eqb String.eqb s s' && Bool.eqb c c'
  | ECase o ws el, ECase o' ws' el' =>
      match o, o' with Some x, Some y => expr_eqb x y | None, None => true | _, _ => false end &&
      (fix go (u v : list (c35_expr * c35_expr)) : bool :=
         match u, v with
         | [], [] => true
         | (w, t) :: u', (w', t') :: v' => expr_eqb w w' && expr_eqb t t' && go u' v'
         | _, _ => false
         end) ws ws' &&
      match el, el' with Some x, Some y => expr_eqb x y | None, None => true | _, _ => false end
  | EInList e is n, EInList e' is' n' =>
      expr_eqb e e' &&
      (fix go (u v : list c35_expr) : bool :=
         match u, v with [], [] => true | x :: u', y :: v' => expr_eqb x y && go u' v' | _, _ => false end) is is' &&
      Bool.eqb n n'
  | ECast e t nb m, ECast e' t' nb' m' | ETryCast e t nb m, ETryCast e' t' nb' m' =>
      expr_eqb e e' && eqb_DataType t t' && Bool.eqb nb nb' && meta_eqb m m'
  | EAlias e r n m, EAlias e' r' n' m' => expr_eqb e e' && opt_eqb String.eqb r r' && String.eqb n n' && opt_eqb meta_eqb m m'
  | _, _ => false
  end.

Fixpoint pexpr_eqb (a b : pexpr) {struct a} : bool :=
  let oe (x y : option pexpr) := match x, y with Some u, Some v => pexpr_eqb u v | None, None => true | _, _ => false end in
  match a, b with
  | PColumn r n, PColumn r' n' => opt_eqb String.eqb r r' && String.eqb n n'
  | PLiteral l, PLiteral l' => lit_eqb l l'
  | PBinary os o, PBinary os' o' =>
      (fix go (u v : list pexpr) : bool :=
         match u, v with [], [] => true | x :: u', y :: v' => pexpr_eqb x y && go u' v' | _, _ => false end) os os' && String.eqb o o'
  | PNot e, PNot e' | PIsNull e, PIsNull e' | PIsNotNull e, PIsNotNull e' | PNegative e, PNegative e' => oe e e'
  | PBetween e n lo hi, PBetween e' n' lo' hi' => oe e e' && Bool.eqb n n' && oe lo lo' && oe hi hi'
  | PLike n e p s, PLike n' e' p' s' | PILike n e p s, PILike n' e' p' s' => Bool.eqb n n' && oe e e' && oe p p' && String.eqb s s'
  | PCase o ws el, PCase o' ws' el' =>
      oe o o' &&
      (fix go (u v : list (option pexpr * option pexpr)) : bool :=
         match u, v with
         | [], [] => true
         | (w, t) :: u', (w', t') :: v' => oe w w' && oe t t' && go u' v'
         | _, _ => false
         end) ws ws' && oe el el'
  | PInList e is n, PInList e' is' n' =>
      oe e e' &&
      (fix go (u v : list pexpr) : bool :=
         match u, v with [], [] => true | x :: u', y :: v' => pexpr_eqb x y && go u' v' | _, _ => false end) is is' && Bool.eqb n n'
  | PCast e t m nb, PCast e' t' m' nb' | PTryCast e t m nb, PTryCast e' t' m' nb' =>
      oe e e' && opt_eqb String.eqb t t' && meta_eqb m m' && opt_eqb Bool.eqb nb nb'
  | PAlias e r n m, PAlias e' r' n' m' => oe e e' && list_eqb String.eqb r r' && String.eqb n n' && meta_eqb m m'
  | _, _ => false
  end.

(* one observation of the implementation *)
Inductive c35_case :=
| CTab (c : pc_case)                                              (* a variant pushed through the real to_proto / from_proto *)
| CExpr (e : c35_expr) (wire : pexpr) (back : option c35_expr).   (* serialize_expr e = wire ; parse_expr wire = back *)

Definition c35_check (c : c35_case) : bool :=
  match c with
  | CTab t => check_case_logical t
  | CExpr e wire back => pexpr_eqb (c35_encode e) wire && opt_eqb expr_eqb (c35_decode wire) back
  end.
