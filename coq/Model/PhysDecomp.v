(* C02 -- physical decomposition operators over the bags of the reference SQL semantics (engine E1, Model/RefSQL.v).

   The engine never evaluates a relational operator on "the relation": it evaluates it on a relation that is cut
   into PARTITIONS (target_partitions, MemTable / file partitions, RepartitionExec hash or round-robin) and each
   partition into BATCHES (batch_size, CoalesceBatches), and it glues the pieces back together with
   CoalescePartitions (concatenation in arrival order), SortPreservingMerge (k-way merge of sorted runs),
   partial -> [repartition by group key] -> final aggregation, local + global limit, and per-partition hash joins.
   This file defines those decomposition operators on RefSQL's own types ([rel], [row], [value], [agg_fn]) and on
   RefSQL's own operators ([filter], [inner_join], [group_pairs], [agg_apply], [isort], [limit_offset], [set_op]).
   Props/C02.v (theorem family [partitioning_invariance_*]) states that every decomposed pipeline returns the bag
   (for ORDER BY: a sorted permutation; for LIMIT: the same prefix) that the undivided reference operator returns,
   for EVERY split of the input and every key-respecting assignment function.

   A split of [l] is any [parts : list (list A)] with [Permutation (concat parts) l]: this covers any number of
   partitions, empty partitions, any assignment of rows to partitions and any arrival order.  Batches are a second
   level of the same thing ([flatten2]).  Definitions only; proofs are in Proofs/PhysDecompProofs.v. *)
From Coq Require Import List ZArith Bool Permutation.
From DF Require Import Base.Prelude Model.RefSQL.
Import ListNotations.
Open Scope Z_scope.

(* ------------------------------------------------------------------ splits *)
Definition is_split {A} (l : list A) (parts : list (list A)) : Prop := Permutation (concat parts) l.

(* partitions of batches *)
Definition flatten2 {A} (pb : list (list (list A))) : list A := concat (map (@concat A) pb).

(* partitions given as a function of the partition number (used where a theorem talks about "partition i") *)
Definition parts_of {A} (P : nat -> list A) (n : nat) : list (list A) := map P (seq 0 n).

(* RepartitionExec(Hash): row x goes to partition [h x mod n]; any function h (a hash of the key columns) *)
Definition hash_part {A} (h : A -> nat) (n : nat) (l : list A) (i : nat) : list A :=
  filter (fun x => Nat.eqb (Nat.modulo (h x) n) i) l.
Definition hash_split {A} (h : A -> nat) (n : nat) (l : list A) : list (list A) := parts_of (hash_part h n l) n.

(* RepartitionExec(RoundRobin) / dealing rows to MemTable partitions: the i-th row goes to partition (i mod n) *)
Definition round_robin {A} (n : nat) (l : list A) : list (list A) :=
  map (map snd) (hash_split (fun p : nat * A => fst p) n (combine (seq 0 (length l)) l)).

(* batch_size: consecutive chunks of at most n rows (n >= 1) *)
Fixpoint chunks_f {A} (fuel n : nat) (l : list A) : list (list A) :=
  match fuel with
  | O => []
  | S f => match l with
           | [] => []
           | _ => firstn n l :: chunks_f f n (skipn n l)
           end
  end.
Definition chunks {A} (n : nat) (l : list A) : list (list A) := chunks_f (length l) (Nat.max 1 n) l.

(* a key-respecting assignment: every row of partition i is assigned to i by a function of its key *)
Definition key_respecting {A K} (key : A -> K) (assign : K -> nat) (P : nat -> list A) (n : nat) : Prop :=
  forall i x, (i < n)%nat -> In x (P i) -> assign (key x) = i.

(* ------------------------------------------------------------------ filter / project, with RefSQL's error monad *)
(* FilterExec / ProjectionExec run per partition (per batch); errors are errors of the whole query *)
Definition filter_parts (p : row -> res tv) (parts : list rel) : res (list rel) := mapM (filter_m p) parts.
Definition project_parts (f : row -> res row) (parts : list rel) : res (list rel) := mapM (mapM f) parts.

(* ------------------------------------------------------------------ two-phase aggregation *)
(* state of one aggregate of one group, as the engine's accumulators keep it between the partial and the final stage *)
Inductive pstate :=
| PCnt (n : Z)                 (* count( * ), count(x): number of (non-NULL) inputs *)
| PSum (n s : Z)               (* sum, avg: number of non-NULL inputs and their exact sum *)
| PExt (m : option value)      (* min, max: None = no non-NULL input yet *)
| PSet (vs : list value).      (* count(DISTINCT x): the set of non-NULL values seen *)

Definition oext (f : value -> value -> value) (m : option value) (x : value) : option value :=
  match m with None => Some x | Some y => Some (f y x) end.
Definition ext (f : value -> value -> value) (xs : list value) : option value := fold_left (oext f) xs None.

(* AggregateMode::Partial: the state of the values [vs] of one group seen by one partition *)
Definition agg_partial (fn : agg_fn) (vs : list value) : res pstate :=
  let xs := nonnull vs in
  match fn with
  | FCountStar => Ok (PCnt (len vs))
  | FCount => Ok (PCnt (len xs))
  | FCountDistinct => Ok (PSet (distinct_vals xs))
  | FSum | FAvg => s <- sum_ints xs;; Ok (PSum (len xs) s)
  | FMin => Ok (PExt (ext vmin xs))
  | FMax => Ok (PExt (ext vmax xs))
  end.

Definition omerge (f : value -> value -> value) (a b : option value) : option value :=
  match a, b with
  | None, x | x, None => x
  | Some x, Some y => Some (f x y)
  end.

(* merge_batch of two states of the same aggregate (states of different shapes never meet; the first is kept) *)
Definition agg_merge (fn : agg_fn) (a b : pstate) : pstate :=
  match a, b with
  | PCnt x, PCnt y => PCnt (x + y)
  | PSum n s, PSum n' s' => PSum (n + n') (s + s')
  | PExt x, PExt y => PExt (omerge (match fn with FMax => vmax | _ => vmin end) x y)
  | PSet x, PSet y => PSet (distinct_vals (x ++ y))
  | _, _ => a
  end.

(* the state of "no input" *)
Definition agg_init (fn : agg_fn) : pstate :=
  match fn with
  | FCountStar | FCount => PCnt 0
  | FSum | FAvg => PSum 0 0
  | FMin | FMax => PExt None
  | FCountDistinct => PSet []
  end.
Definition agg_merge_all (fn : agg_fn) (sts : list pstate) : pstate := fold_left (agg_merge fn) sts (agg_init fn).

(* AggregateMode::Final: evaluate *)
Definition agg_final (fn : agg_fn) (st : pstate) : res value :=
  match fn, st with
  | (FCountStar | FCount), PCnt n => Ok (VInt n)
  | FSum, PSum n s => if n =? 0 then Ok VNull else chk64 s
  | FAvg, PSum n s => if n =? 0 then Ok VNull else Ok (mk_rat s n)
  | (FMin | FMax), PExt m => Ok (match m with Some v => v | None => VNull end)
  | FCountDistinct, PSet l => Ok (VInt (len l))
  | _, _ => Err EType
  end.

(* one aggregate over a partitioned list of values: partial per partition, then one final merge *)
Definition agg_two_phase (fn : agg_fn) (parts : list (list value)) : res value :=
  sts <- mapM (agg_partial fn) parts;; agg_final fn (agg_merge_all fn sts).

(* ---- GROUP BY: input = (group key, aggregate argument) pairs, i.e. RefSQL's [combine ks R] with the argument of the
   aggregate evaluated; the result of a group is kept as a [res value] (an error of one group is that group's result) *)
Definition ref_groups (fn : agg_fn) (l : list (row * value)) : list (row * res value) :=
  map (fun g => (fst g, agg_apply fn (snd g))) (group_pairs l).

(* AggregateExec(Partial) on one input partition: one (key, state) per group present in the partition *)
Definition partial_groups (fn : agg_fn) (p : list (row * value)) : list (row * res pstate) :=
  map (fun g => (fst g, agg_partial fn (snd g))) (group_pairs p).
(* AggregateExec(Final / FinalPartitioned) on a list of (key, state): group the states by key, merge, evaluate *)
Definition final_groups (fn : agg_fn) (sts : list (row * res pstate)) : list (row * res value) :=
  map (fun g => (fst g, ss <- mapM (fun s => s) (snd g);; agg_final fn (agg_merge_all fn ss))) (group_pairs sts).

(* partial per partition -> CoalescePartitions -> Final *)
Definition group_two_phase (fn : agg_fn) (parts : list (list (row * value))) : list (row * res value) :=
  final_groups fn (concat (map (partial_groups fn) parts)).
(* partial per partition -> RepartitionExec(Hash on the group key, n partitions) -> FinalPartitioned per partition
   -> the output partitions concatenated.  [assign] is any function of the key. *)
Definition group_three_phase (fn : agg_fn) (assign : row -> nat) (n : nat) (parts : list (list (row * value)))
  : list (row * res value) :=
  concat (map (final_groups fn)
              (hash_split (fun p : row * res pstate => assign (fst p)) n (concat (map (partial_groups fn) parts)))).

(* ------------------------------------------------------------------ sorted runs and their merge *)
Section Merge.
  Context {A : Type} (leb : A -> A -> bool).
  (* two-way merge; on ties the element of the first run goes first *)
  Fixpoint merge2 (a : list A) : list A -> list A :=
    fix inner (b : list A) : list A :=
      match a, b with
      | [], _ => b
      | _, [] => a
      | x :: a', y :: b' => if leb x y then x :: merge2 a' b else y :: inner b'
      end.
  (* SortPreservingMergeExec: k-way merge of the partitions' sorted streams *)
  Definition kmerge (runs : list (list A)) : list A := fold_right merge2 [] runs.
  (* SortExec(preserve_partitioning) per partition, then SortPreservingMerge *)
  Definition sort_merge (parts : list (list A)) : list A := kmerge (map (isort leb) parts).
  (* TopK / SortExec(fetch = n) per partition, then SortPreservingMerge(fetch = n) *)
  Definition topk_merge (n : nat) (parts : list (list A)) : list A :=
    firstn n (kmerge (map (fun p => firstn n (isort leb p)) parts)).
End Merge.

(* LocalLimitExec(fetch = off + n) per partition, CoalescePartitions, GlobalLimitExec(skip = off, fetch = n) *)
Definition limit_local_global (off n : Z) (parts : list rel) : rel :=
  limit_offset off (Some n) (concat (map (firstn (Z.to_nat off + Z.to_nat n)) parts)).

(* ------------------------------------------------------------------ partitioned hash join *)
(* HashJoinExec(PartitionMode::Partitioned): partition i of the left side is joined with partition i of the right *)
Definition join_parts (on : row -> row -> bool) (Lp Rp : nat -> rel) (n : nat) : rel :=
  concat (map (fun i => inner_join on (Lp i) (Rp i)) (seq 0 n)).

(* ------------------------------------------------------------------ the tie: one query, many runs *)
(* the engine's results of ONE query under several configurations (None = the run failed) *)
Inductive c02_case := C02Case (d : db) (q : query) (runs : list (option rel)).

Definition c02_verdicts (c : c02_case) : list Z :=
  match c with C02Case d q runs => map (fun o => c01_verdict (C01Case d q o)) runs end.
(* every run agrees with the reference (verdict 0), or the reference defines no result (2: run-time error) *)
Definition c02_check (c : c02_case) : bool := forallb (fun v => (v =? 0) || (v =? 2)) (c02_verdicts c).
(* all runs get the same verdict *)
Definition c02_uniform (c : c02_case) : bool :=
  match c02_verdicts c with [] => true | v :: vs => forallb (Z.eqb v) vs end.

(* ------------------------------------------------------------------ side condition of the min / max laws *)
(* values of the base column types (NULL, BIGINT, BOOLEAN, VARCHAR).  On these [vcmp_nn] is a linear order; on the
   exact rationals produced by avg it is only a preorder (VInt 2 and VRat 2 1 compare Eq), so the reference's own
   min / max over a column mixing the two would depend on the row order. *)
Definition plain (v : value) : Prop := match v with VRat _ _ => False | _ => True end.
Definition agg_dom (fn : agg_fn) (vs : list value) : Prop :=
  match fn with FMin | FMax => Forall plain vs | _ => True end.

(* the argument values of the rows with group key k, in input order *)
Definition members {A} (k : row) (l : list (row * A)) : list A := map snd (filter (fun p => row_eqb k (fst p)) l).
