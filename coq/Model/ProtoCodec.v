(* C35 / C36 -- model of datafusion's protobuf (de)serialisation.
   Part 1: enum-like mapping tables (the instances are GENERATED into Gen/ProtoEnums.v / Gen/ProtoEnumsPhys.v by
           translators/rs_enummap2coq.py from the match blocks of the current source) and their executable check.
   Part 2: the structural part of Expr serialisation (datafusion/proto/src/logical_plan/{to,from}_proto.rs:
           serialize_expr / parse_expr) over a small Expr AST, parameterised by the operator and type tables.
           Modelled as the code is written: binary chains of one operator are linearised into an operand list and
           re-folded by the decoder; message-typed fields are optional on the wire and `required` by the decoder;
           the escape character of LIKE travels as a string whose BYTE length the decoder inspects; literal / alias /
           cast metadata is written or dropped exactly where the code writes or drops it.
   Part 3: small physical-plan records (sort options, hash-join options) with the same discipline.
   Definitions only; proofs are in Proofs/ProtoCodecProofs.v. *)
From Coq Require Import List ZArith String Bool Ascii.
Import ListNotations.
Open Scope Z_scope.

(* ------------------------------------------------------------------ Part 1: tables *)
Record enum_table (V T : Type) := mk_table {
  t_all : list V;               (* every Rust variant (arms of the encode match) *)
  t_eqb : V -> V -> bool;
  t_enc : V -> T;               (* encode match (composed with the prost numbering) *)
  t_dec : T -> option V;        (* prost TryFrom<i32> composed with the decode match; None = rejected *)
  t_name : V -> string }.
Arguments mk_table {V T}.
Arguments t_all {V T}. Arguments t_eqb {V T}. Arguments t_enc {V T}. Arguments t_dec {V T}. Arguments t_name {V T}.

Definition rt_ok {V T} (t : enum_table V T) (v : V) : bool :=
  match t_dec t (t_enc t v) with Some w => t_eqb t w v | None => false end.
(* `bad` = the variants already listed as known findings (their round trip is known to fail) *)
Definition listed {V T} (t : enum_table V T) (bad : list V) (v : V) : bool := existsb (t_eqb t v) bad.
Definition table_ok {V T} (t : enum_table V T) (bad : list V) : bool :=
  forallb (fun v => rt_ok t v || listed t bad v) (t_all t).
(* the variants whose round trip fails and that are not listed (failing inputs of the property) *)
Definition bad_variants {V T} (t : enum_table V T) (bad : list V) : list string :=
  map (t_name t) (filter (fun v => negb (rt_ok t v || listed t bad v)) (t_all t)).
(* listed variants that round-trip now (the finding was fixed in the source) *)
Definition stale_listed {V T} (t : enum_table V T) (bad : list V) : list string :=
  map (t_name t) (filter (rt_ok t) bad).
(* pairs of distinct variants sharing one wire tag *)
Fixpoint clash_pairs {V T} (teqb : T -> T -> bool) (t : enum_table V T) (l : list V) : list (string * string) :=
  match l with
  | [] => []
  | v :: r => map (fun w => (t_name t v, t_name t w)) (filter (fun w => teqb (t_enc t v) (t_enc t w)) r) ++ clash_pairs teqb t r
  end.
Definition clash_variants {V T} (teqb : T -> T -> bool) (t : enum_table V T) := clash_pairs teqb t (t_all t).

(* harness correspondence: the real to_proto produced tag `tag` for the variant named `nm`; the real from_proto decoded
   that tag to the variant named `back` (None = error) *)
Definition find_variant {V T} (t : enum_table V T) (nm : string) : option V :=
  find (fun v => String.eqb (t_name t v) nm) (t_all t).
Definition obs_ok {V T} (teqb : T -> T -> bool) (t : enum_table V T) (nm : string) (tag : T) (back : option string) : bool :=
  match find_variant t nm with
  | None => false
  | Some v => teqb (t_enc t v) tag &&
              match t_dec t tag, back with
              | Some w, Some b => String.eqb (t_name t w) b
              | None, None => true
              | _, _ => false
              end
  end.

(* ------------------------------------------------------------------ generic helpers *)
Definition omap_all {A B} (f : A -> option B) : list A -> option (list B) :=
  fix go (l : list A) : option (list B) :=
    match l with
    | [] => Some []
    | x :: t => match f x with
                | Some a => match go t with Some b => Some (a :: b) | None => None end
                | None => None
                end
    end.
Definition req {A B} (f : A -> option B) (o : option A) : option B :=       (* parse_required_expr *)
  match o with Some x => f x | None => None end.
Definition opt {A B} (f : A -> option B) (o : option A) : option (option B) :=   (* parse_optional_expr *)
  match o with Some x => match f x with Some y => Some (Some y) | None => None end | None => Some None end.

Definition meta := list (string * string).
Inductive lit := LNull | LBool (b : bool) | LInt (z : Z) | LUtf8 (s : string).

(* ------------------------------------------------------------------ Part 2: Expr *)
Section ExprCodec.
  Variable Op : Type.
  Variable op_eqb : Op -> Op -> bool.            (* Operator: PartialEq *)
  Variable enc_op : Op -> string.                (* format!("{op:?}") *)
  Variable dec_op : string -> option Op.         (* from_proto_binary_op *)
  Variable good_op : Op -> bool.                 (* operators the decoder knows (all but the listed known findings) *)
  Variable Ty : Type.
  Variable enc_ty : Ty -> string.                (* DataType -> ArrowTypeEnum case *)
  Variable dec_ty : string -> option Ty.

  Inductive expr :=
  | EColumn (rel : option string) (name : string)
  | ELit (l : lit) (m : option meta)                       (* Expr::Literal(value, metadata) *)
  | EBinary (l : expr) (op : Op) (r : expr)
  | ENot (e : expr) | EIsNull (e : expr) | EIsNotNull (e : expr) | ENegative (e : expr)
  | EBetween (e : expr) (negated : bool) (lo hi : expr)
  | ELike (negated : bool) (e pat : expr) (esc : option string) (ci : bool)   (* esc: the UTF-8 bytes of the char *)
  | ECase (operand : option expr) (whens : list (expr * expr)) (els : option expr)
  | EInList (e : expr) (items : list expr) (negated : bool)
  | ECast (e : expr) (ty : Ty) (nullable : bool) (m : meta)                  (* Cast { expr, field } *)
  | ETryCast (e : expr) (ty : Ty) (nullable : bool) (m : meta)
  | EAlias (e : expr) (rel : option string) (name : string) (m : option meta).

  (* the wire message tree (LogicalExprNode.expr_type cases); message-typed fields are options *)
  Inductive pexpr :=
  | PColumn (rel : option string) (name : string)
  | PLiteral (l : lit)
  | PBinary (operands : list pexpr) (op : string)
  | PNot (e : option pexpr) | PIsNull (e : option pexpr) | PIsNotNull (e : option pexpr) | PNegative (e : option pexpr)
  | PBetween (e : option pexpr) (negated : bool) (lo hi : option pexpr)
  | PLike (negated : bool) (e pat : option pexpr) (esc : string)
  | PILike (negated : bool) (e pat : option pexpr) (esc : string)
  | PCase (operand : option pexpr) (whens : list (option pexpr * option pexpr)) (els : option pexpr)
  | PInList (e : option pexpr) (items : list pexpr) (negated : bool)
  | PCast (e : option pexpr) (ty : option string) (m : meta) (nullable : option bool)
  | PTryCast (e : option pexpr) (ty : option string) (m : meta) (nullable : option bool)
  | PAlias (e : option pexpr) (rel : list string) (name : string) (m : meta).

  (* serialize_expr *)
  Fixpoint encode (x : expr) : pexpr :=
    match x with
    | EColumn rel name => PColumn rel name
    | ELit l _ => PLiteral l                                    (* `Expr::Literal(value, _)`: metadata not written *)
    | EBinary l op r =>
        (* exprs = [right]; walk down the left spine while the operator is the same, pushing the right operands;
           push the last left operand; reverse.  `chain cur acc` = the reversed vector so far *)
        PBinary ((fix chain (cur : expr) (acc : list pexpr) {struct cur} : list pexpr :=
                    match cur with
                    | EBinary l' op' r' => if op_eqb op' op then chain l' (encode r' :: acc) else encode cur :: acc
                    | _ => encode cur :: acc
                    end) l [encode r])
                (enc_op op)
    | ENot e => PNot (Some (encode e))
    | EIsNull e => PIsNull (Some (encode e))
    | EIsNotNull e => PIsNotNull (Some (encode e))
    | ENegative e => PNegative (Some (encode e))
    | EBetween e n lo hi => PBetween (Some (encode e)) n (Some (encode lo)) (Some (encode hi))
    | ELike n e p esc ci =>
        let s := match esc with Some c => c | None => EmptyString end in    (* escape_char.map(to_string).unwrap_or_default() *)
        if ci then PILike n (Some (encode e)) (Some (encode p)) s else PLike n (Some (encode e)) (Some (encode p)) s
    | ECase o ws el =>
        PCase (option_map encode o) (map (fun wt => (Some (encode (fst wt)), Some (encode (snd wt)))) ws) (option_map encode el)
    | EInList e items n => PInList (Some (encode e)) (map encode items) n
    | ECast e ty nb m => PCast (Some (encode e)) (Some (enc_ty ty)) m (Some nb)
    | ETryCast e ty nb m => PTryCast (Some (encode e)) (Some (enc_ty ty)) m (Some nb)
    | EAlias e rel name m =>
        PAlias (Some (encode e)) (match rel with Some r => [r] | None => [] end) name
               (match m with Some mm => mm | None => [] end)
    end.

  (* parse_escape_char: by BYTE length of the string *)
  Definition parse_escape (s : string) : option (option string) :=
    match String.length s with
    | O => Some None
    | S O => Some (Some s)
    | _ => None
    end.

  (* operands.into_iter().reduce(|l, r| BinaryExpr(l, op, r)); fewer than 2 operands is an error *)
  Definition reduce_binary (op : Op) (es : list expr) : option expr :=
    match es with
    | a :: b :: rest => Some (fold_left (fun l r => EBinary l op r) (b :: rest) a)
    | _ => None
    end.

  (* parse_expr *)
  Fixpoint decode (p : pexpr) : option expr :=
    match p with
    | PColumn rel name => Some (EColumn rel name)
    | PLiteral l => Some (ELit l None)                           (* Expr::Literal(scalar_value, None) *)
    | PBinary operands ops =>
        match dec_op ops with
        | None => None
        | Some op => match omap_all decode operands with
                     | None => None
                     | Some es => reduce_binary op es
                     end
        end
    | PNot e => option_map ENot (req decode e)
    | PIsNull e => option_map EIsNull (req decode e)
    | PIsNotNull e => option_map EIsNotNull (req decode e)
    | PNegative e => option_map ENegative (req decode e)
    | PBetween e n lo hi =>
        match req decode e, req decode lo, req decode hi with
        | Some e', Some lo', Some hi' => Some (EBetween e' n lo' hi')
        | _, _, _ => None
        end
    | PLike n e pt s =>
        match req decode e, req decode pt, parse_escape s with
        | Some e', Some p', Some esc => Some (ELike n e' p' esc false)
        | _, _, _ => None
        end
    | PILike n e pt s =>
        match req decode e, req decode pt, parse_escape s with
        | Some e', Some p', Some esc => Some (ELike n e' p' esc true)
        | _, _, _ => None
        end
    | PCase o ws el =>
        match omap_all (fun wt => match req decode (fst wt), req decode (snd wt) with
                                  | Some w, Some t => Some (w, t) | _, _ => None end) ws,
              opt decode o, opt decode el with
        | Some ws', Some o', Some el' => Some (ECase o' ws' el')
        | _, _, _ => None
        end
    | PInList e items n =>
        match req decode e, omap_all decode items with
        | Some e', Some is' => Some (EInList e' is' n)
        | _, _ => None
        end
    | PCast e ty _ nb =>                                          (* cast.metadata is not read *)
        match req decode e, req dec_ty ty with
        | Some e', Some t => Some (ECast e' t (match nb with Some b => b | None => true end) [])
        | _, _ => None
        end
    | PTryCast e ty _ nb =>
        match req decode e, req dec_ty ty with
        | Some e', Some t => Some (ETryCast e' t (match nb with Some b => b | None => true end) [])
        | _, _ => None
        end
    | PAlias e rel name _ =>                                      (* Alias::new(expr, relation.first(), name): metadata not read *)
        match req decode e with
        | Some e' => Some (EAlias e' (hd_error rel) name None)
        | None => None
        end
    end.

  (* what the round trip preserves: operators the decoder knows, no metadata on literals / aliases / casts,
     escape characters of one byte *)
  Definition one_byte (o : option string) : bool :=
    match o with None => true | Some s => Nat.eqb (String.length s) 1 end.
  Definition no_meta (o : option meta) : bool := match o with None => true | Some _ => false end.
  Fixpoint plain (x : expr) : bool :=
    match x with
    | EColumn _ _ => true
    | ELit _ m => no_meta m
    | EBinary l op r => good_op op && plain l && plain r
    | ENot e | EIsNull e | EIsNotNull e | ENegative e => plain e
    | EBetween e _ lo hi => plain e && plain lo && plain hi
    | ELike _ e p esc _ => plain e && plain p && one_byte esc
    | ECase o ws el =>
        match o with Some e => plain e | None => true end &&
        forallb (fun wt => plain (fst wt) && plain (snd wt)) ws &&
        match el with Some e => plain e | None => true end
    | EInList e items _ => plain e && forallb plain items
    | ECast e _ _ m | ETryCast e _ _ m => plain e && match m with [] => true | _ => false end
    | EAlias e _ _ m => plain e && no_meta m
    end.

  Fixpoint esize (x : expr) : nat :=
    match x with
    | EColumn _ _ | ELit _ _ => 1
    | EBinary l _ r => S (esize l + esize r)
    | ENot e | EIsNull e | EIsNotNull e | ENegative e => S (esize e)
    | EBetween e _ lo hi => S (esize e + esize lo + esize hi)
    | ELike _ e p _ _ => S (esize e + esize p)
    | ECase o ws el =>
        S (match o with Some e => esize e | None => 0 end +
           list_sum (map (fun wt => esize (fst wt) + esize (snd wt)) ws) +
           match el with Some e => esize e | None => 0 end)%nat
    | EInList e items _ => S (esize e + list_sum (map esize items))
    | ECast e _ _ _ | ETryCast e _ _ _ => S (esize e)
    | EAlias e _ _ _ => S (esize e)
    end.
End ExprCodec.

Arguments EColumn {Op Ty}. Arguments ELit {Op Ty}. Arguments EBinary {Op Ty}. Arguments ENot {Op Ty}.
Arguments EIsNull {Op Ty}. Arguments EIsNotNull {Op Ty}. Arguments ENegative {Op Ty}. Arguments EBetween {Op Ty}.
Arguments ELike {Op Ty}. Arguments ECase {Op Ty}. Arguments EInList {Op Ty}. Arguments ECast {Op Ty}.
Arguments ETryCast {Op Ty}. Arguments EAlias {Op Ty}.
Arguments plain {Op} good_op {Ty}. Arguments esize {Op Ty}.

(* ------------------------------------------------------------------ Part 3: physical-plan records *)
(* PhysicalSortExprNode { asc, nulls_first } <-> SortOptions { descending, nulls_first } *)
Record sort_options := mk_so { so_descending : bool; so_nulls_first : bool }.
Record p_sort := mk_ps { ps_asc : bool; ps_nulls_first : bool }.
Definition enc_sort (o : sort_options) : p_sort := mk_ps (negb (so_descending o)) (so_nulls_first o).
Definition dec_sort (p : p_sort) : sort_options := mk_so (negb (ps_asc p)) (ps_nulls_first p).

(* HashJoinExecNode options (physical-plan/src/joins/hash_join/exec.rs try_to_proto / try_from_proto):
   join_type / partition_mode / null_equality as i32 tags, null_aware, optional fetch (presence-tracked u64), and the
   embedded projection: proto3 `repeated` cannot tell None from Some([]), so Some([]) travels as the sentinel
   [u32::MAX]; indices are written with `as u32` *)
Definition enc_proj (p : option (list Z)) : list Z :=
  match p with
  | None => []
  | Some [] => [4294967295]
  | Some v => map (fun x => x mod 4294967296) v
  end.
Definition dec_proj (l : list Z) : option (list Z) :=
  match l with
  | [] => None
  | [x] => if x =? 4294967295 then Some [] else Some [x]
  | _ => Some l
  end.
(* column indices below u32::MAX (they index the join's output columns) *)
Definition proj_ok (p : option (list Z)) : bool :=
  match p with None => true | Some v => forallb (fun x => (0 <=? x) && (x <? 4294967295)) v end.

Section HashJoin.
  Variables JT PM NE : Type.
  Variable jt : enum_table JT Z.
  Variable pm : enum_table PM Z.
  Variable ne : enum_table NE Z.
  Record hj := mk_hj { hj_type : JT; hj_mode : PM; hj_nulleq : NE; hj_null_aware : bool;
                       hj_projection : option (list Z); hj_fetch : option Z }.
  Record p_hj := mk_phj { ph_type : Z; ph_mode : Z; ph_nulleq : Z; ph_null_aware : bool;
                          ph_projection : list Z; ph_fetch : option Z }.
  Definition enc_hj (h : hj) : p_hj :=
    mk_phj (t_enc jt (hj_type h)) (t_enc pm (hj_mode h)) (t_enc ne (hj_nulleq h)) (hj_null_aware h)
           (enc_proj (hj_projection h)) (hj_fetch h).
  Definition dec_hj (p : p_hj) : option hj :=
    match t_dec jt (ph_type p), t_dec pm (ph_mode p), t_dec ne (ph_nulleq p) with
    | Some a, Some b, Some c => Some (mk_hj a b c (ph_null_aware p) (dec_proj (ph_projection p)) (ph_fetch p))
    | _, _, _ => None
    end.
End HashJoin.

(* ------------------------------------------------------------------ case checker used by the drivers *)
Inductive pc_case :=
| PCz (tbl : string) (variant : string) (tag : Z) (back : option string)
| PCs (tbl : string) (variant : string) (tag : string) (back : option string).
