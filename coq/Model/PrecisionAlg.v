(* C29 -- statistics reported as exact are exact.  Model of datafusion/common/src/stats.rs:
   Precision<usize> = Exact n | Inexact n | Absent with add / sub / multiply (checked arithmetic on usize,
   saturating + downgrade to Inexact on overflow), min / max, to_inexact, and the num_rows part of
   Statistics::with_fetch(fetch, skip, n_partitions) together with the fate of the column statistics
   (kept as they are / downgraded to inexact).  Plus the verified monitor over observed claims.
   Definitions only. *)
From Coq Require Import ZArith List Bool Lia.
From DF Require Import Base.Prelude.
Import ListNotations.
Open Scope Z_scope.

Definition USIZE_MAX : Z := 18446744073709551615.

Inductive prec := Exact (n : Z) | Inexact (n : Z) | Absent.

Definition prec_eqb (a b : prec) : bool :=
  match a, b with
  | Exact x, Exact y => x =? y
  | Inexact x, Inexact y => x =? y
  | Absent, Absent => true
  | _, _ => false
  end.

Definition is_exact (p : prec) : bool := match p with Exact _ => true | _ => false end.
Definition get_value (p : prec) : option Z := match p with Exact n | Inexact n => Some n | Absent => None end.
Definition to_inexact (p : prec) : prec := match p with Exact n => Inexact n | _ => p end.

(* usize arithmetic *)
Definition checked (r : Z) : option Z := if (0 <=? r) && (r <=? USIZE_MAX) then Some r else None.
Definition saturate (r : Z) : Z := Z.max 0 (Z.min r USIZE_MAX).

(* the common shape of add / sub / multiply: (Exact, Exact) -> checked, else Exact; any Inexact -> Inexact saturating; Absent -> Absent *)
Definition arith (f : Z -> Z -> Z) (a b : prec) : prec :=
  match a, b with
  | Exact x, Exact y => match checked (f x y) with Some r => Exact r | None => Inexact (saturate (f x y)) end
  | Inexact x, Exact y | Exact x, Inexact y | Inexact x, Inexact y => Inexact (saturate (f x y))
  | _, _ => Absent
  end.
Definition p_add := arith Z.add.
Definition p_sub := arith Z.sub.
Definition p_mul := arith Z.mul.

Definition pick (f : Z -> Z -> Z) (a b : prec) : prec :=
  match a, b with
  | Exact x, Exact y => Exact (f x y)
  | Inexact x, Exact y | Exact x, Inexact y | Inexact x, Inexact y => Inexact (f x y)
  | _, _ => Absent
  end.
Definition p_max := pick Z.max.
Definition p_min := pick Z.min.

(* check_num_rows(value: Option<usize>, is_exact) *)
Definition check_num_rows (v : option Z) (ex : bool) : prec :=
  match v with Some n => if ex then Exact n else Inexact n | None => Absent end.

(* Statistics::with_fetch -- num_rows, and [true] when the statistics are returned AS THEY ARE (column statistics keep
   their exactness), [false] when every column statistic is downgraded with to_inexact *)
Definition with_fetch (nr : prec) (fetch : option Z) (skip npart : Z) : prec * bool :=
  match fetch, skip =? 0 with
  | None, true => (nr, true)
  | _, _ =>
    let fetch_val := match fetch with Some f => f | None => USIZE_MAX end in
    match nr with
    | Absent => (check_num_rows (match fetch with Some f => checked (f * npart) | None => None end) false, false)
    | Exact n | Inexact n =>
        let ex := is_exact nr in
        if n <=? skip then (check_num_rows (Some 0) ex, false)
        else if (n <=? fetch_val) && (skip =? 0) then (nr, true)
        else if n - skip <=? fetch_val then (check_num_rows (checked ((n - skip) * npart)) ex, false)
        else (check_num_rows (checked (fetch_val * npart)) ex, false)
    end
  end.

(* ---- specification side: limits on lists *)
Definition limit {A} (skip : Z) (fetch : option Z) (l : list A) : list A :=
  let r := skipn (Z.to_nat skip) l in
  match fetch with Some f => firstn (Z.to_nat f) r | None => r end.
Definition zlen {A} (l : list A) : Z := Z.of_nat (length l).

(* a precision is TRUE of a measured value when an Exact claim equals it (Inexact / Absent claim nothing) *)
Definition claim_true (p : prec) (v : Z) : Prop := forall n, p = Exact n -> n = v.

(* ---- the monitor: a list of (claimed precision, measured value) *)
Definition claims_exact (cs : list (prec * Z)) : Prop := Forall (fun c => claim_true (fst c) (snd c)) cs.
Definition claim_ok (c : prec * Z) : bool := match fst c with Exact n => n =? snd c | _ => true end.
Definition monitor_ok (cs : list (prec * Z)) : bool := forallb claim_ok cs.

(* ---- cases replayed from the harness *)
Inductive alg_op := OAdd | OSub | OMul | OMin | OMax | OInexact.
Inductive c29_case :=
| C29Alg (op : alg_op) (a b out : prec)
| C29Fetch (nr : prec) (fetch : option Z) (skip npart : Z) (out : prec) (kept : bool)
| C29Claims (cs : list (prec * Z)) (verdict : bool).

Definition c29_check (c : c29_case) : bool :=
  match c with
  | C29Alg op a b out =>
      prec_eqb out (match op with OAdd => p_add a b | OSub => p_sub a b | OMul => p_mul a b
                                | OMin => p_min a b | OMax => p_max a b | OInexact => to_inexact a end)
  | C29Fetch nr f s np out kept =>
      let '(o, k) := with_fetch nr f s np in prec_eqb o out && Bool.eqb k kept
  | C29Claims cs v => Bool.eqb (monitor_ok cs) v
  end.
