(* C25 -- written files read back to the data that was written.  Executable definitions only.
   Models datafusion/datasource/src/write/demux.rs:
     hive_style_partitions_demuxer, compute_partition_keys_by_row, compute_take_arrays,
     remove_partition_by_columns, compute_hive_style_file_path (with object_store's PathPart::from
     percent-encoding of each `col=val` segment), row_count_demuxer;
   and the read side of catalog-listing/src/helpers.rs parse_partitions_for_path (split_once('='),
   compare the raw name, percent-decode + UTF-8 check of the value).
   Reused: Model.ListingPrune (C27: pct_decode, unhex, hexd, split_eq, show_int, text),
           Model.CliSplit (C51: write_csv, the arrow-csv / csv-core field encoder). *)
From DF Require Import Base.Prelude Model.ListingPrune Model.CliSplit.
Open Scope Z_scope.

(* ------------------------------------------------------------------ object_store PathPart::from *)
(* INVALID = CONTROLS + / \ { ^ } % ` ] ` > [ ~ < # | CR LF * ? ; percent_encode also encodes every
   non-ASCII byte *)
Definition os_special : list Z := [47; 92; 123; 94; 125; 37; 96; 93; 34; 62; 91; 126; 60; 35; 124; 13; 10; 42; 63].
Definition os_needs_enc (b : Z) : bool :=
  (b <? 32) || (b =? 127) || (128 <=? b) || existsb (Z.eqb b) os_special.

Fixpoint os_encode (t : text) : text :=
  match t with
  | [] => []
  | b :: r => if os_needs_enc b then 37 :: ListingPrune.hexd (b / 16) :: ListingPrune.hexd (b mod 16) :: os_encode r
              else b :: os_encode r
  end.

(* `.` and `..` are spelled %2E / %2E%2E *)
Definition os_part (t : text) : text :=
  if text_eqb t [46] then [37; 50; 69]
  else if text_eqb t [46; 46] then [37; 50; 69; 37; 50; 69]
  else os_encode t.

(* ------------------------------------------------------------------ reader: value decoding *)
Definition cont (b : Z) : bool := (128 <=? b) && (b <=? 191).
(* std::str::from_utf8 validity *)
Fixpoint utf8_valid (t : text) : bool :=
  match t with
  | [] => true
  | b :: r =>
      if b <? 0 then false
      else if b <? 128 then utf8_valid r
      else if (194 <=? b) && (b <=? 223) then
        match r with c1 :: r1 => cont c1 && utf8_valid r1 | _ => false end
      else if (224 <=? b) && (b <=? 239) then
        match r with
        | c1 :: c2 :: r2 =>
            (if b =? 224 then (160 <=? c1) && (c1 <=? 191)
             else if b =? 237 then (128 <=? c1) && (c1 <=? 159) else cont c1)
            && cont c2 && utf8_valid r2
        | _ => false
        end
      else if (240 <=? b) && (b <=? 244) then
        match r with
        | c1 :: c2 :: c3 :: r3 =>
            (if b =? 240 then (144 <=? c1) && (c1 <=? 191)
             else if b =? 244 then (128 <=? c1) && (c1 <=? 143) else cont c1)
            && cont c2 && cont c3 && utf8_valid r3
        | _ => false
        end
      else false
  end.

(* percent_decode_str(val).decode_utf8().unwrap_or(val) *)
Definition decode_val8 (v : text) : text :=
  let d := pct_decode v in if utf8_valid d then d else v.

(* parse_partitions_for_path on the segments below the table root (zip stops at the shorter side) *)
Fixpoint parse_dirs8 (pby : list text) (file : list text) : option (list text) :=
  match pby, file with
  | [], _ => Some []
  | _, [] => Some []
  | p :: pr, s :: sr =>
      match split_eq s with
      | Some (name, v) =>
          if text_eqb name p
          then match parse_dirs8 pr sr with Some vs => Some (decode_val8 v :: vs) | None => None end
          else None
      | None => None
      end
  end.

(* ------------------------------------------------------------------ cells, partition value text *)
Inductive cty := TyInt | TyStr | TyBool | TyDate | TyOpq.
Inductive cell := CNull | CInt (z : Z) | CStr (t : text) | CBool (b : bool) | CDate (d : Z) | COpq (z : Z).
Definition schema := list (text * cty).
Definition row := list cell.

(* chrono NaiveDate from days since 1970-01-01, `%Y-%m-%d` (exact for years 0..9999) *)
Definition dig (n : Z) : Z := 48 + n mod 10.
Definition show_date (days : Z) : text :=
  let z := days + 719468 in
  let era := z / 146097 in
  let doe := z mod 146097 in
  let yoe := (doe - doe / 1460 + doe / 36524 - doe / 146096) / 365 in
  let doy := doe - (365 * yoe + yoe / 4 - yoe / 100) in
  let mp := (5 * doy + 2) / 153 in
  let d := doy - (153 * mp + 2) / 5 + 1 in
  let m := if mp <? 10 then mp + 3 else mp - 9 in
  let y := yoe + era * 400 + (if m <=? 2 then 1 else 0) in
  [dig (y / 1000); dig (y / 100); dig (y / 10); dig y; 45; dig (m / 10); dig m; 45; dig (d / 10); dig d].

Definition t_true : text := [116; 114; 117; 101].
Definition t_false : text := [102; 97; 108; 115; 101].

(* compute_partition_keys_by_row: `array.value(i)` with NO validity check -- a NULL slot yields the
   value stored under it, which for arrays built by arrow's builders / from Option vectors is the
   type's zero: `` / 0 / false / day 0.  Unsupported type: not_impl_err (None). *)
Definition render (t : cty) (c : cell) : option text :=
  match t with
  | TyStr => Some (match c with CStr s => s | _ => [] end)
  | TyInt => Some (show_int (match c with CInt z => z | _ => 0 end))
  | TyBool => Some (if match c with CBool b => b | _ => false end then t_true else t_false)
  | TyDate => Some (show_date (match c with CDate d => d | _ => 0 end))
  | TyOpq => None
  end.

(* schema.field_with_name / column_by_name: first column with that name *)
Fixpoint lookup (s : schema) (r : row) (n : text) : option (cty * cell) :=
  match s, r with
  | (m, t) :: s', c :: r' => if text_eqb m n then Some (t, c) else lookup s' r' n
  | _, _ => None
  end.

Definition key := list text.
Definition key_eqb : key -> key -> bool := list_eqb text_eqb.

Fixpoint key_of (s : schema) (pby : list text) (r : row) : option key :=
  match pby with
  | [] => Some []
  | p :: ps =>
      match lookup s r p with
      | Some (t, c) =>
          match render t c, key_of s ps r with
          | Some x, Some xs => Some (x :: xs)
          | _, _ => None
          end
      | None => None
      end
  end.

(* remove_partition_by_columns: filter the columns by name *)
Fixpoint drop_cols (s : schema) (pby : list text) (r : row) : row :=
  match s, r with
  | (m, _) :: s', c :: r' =>
      if existsb (text_eqb m) pby then drop_cols s' pby r' else c :: drop_cols s' pby r'
  | _, _ => []
  end.
Definition drop_schema (s : schema) (pby : list text) : schema :=
  filter (fun f => negb (existsb (text_eqb (fst f)) pby)) s.

(* ------------------------------------------------------------------ the hive demultiplexer *)
(* one output file per distinct key (value_map); a file = its key and the rows sent to it, in order.
   Polymorphic in the row payload: the demux never looks at it. *)
Section Demux.
Context {R : Type}.
Definition files := list (key * list R).

(* value_map.get_mut(key) / insert + send: append rows to the key's file, creating it at first use *)
Fixpoint append_to (fs : files) (k : key) (rows : list R) : files :=
  match fs with
  | [] => [(k, rows)]
  | (k', rs) :: fs' =>
      if key_eqb k' k then (k', rs ++ rows) :: fs' else (k', rs) :: append_to fs' k rows
  end.

(* compute_take_arrays: per distinct key of the batch the row indices in increasing order
   (HashMap iteration order is unspecified; it only affects the order in which files are created,
   which nothing observes: file names are random) *)
Definition take_map (batch : list (key * R)) : files :=
  fold_left (fun acc kr => append_to acc (fst kr) [snd kr]) batch [].

Definition demux_batch (fs : files) (batch : list (key * R)) : files :=
  fold_left (fun acc g => append_to acc (fst g) (snd g)) (take_map batch) fs.

Definition demux (batches : list (list (key * R))) : files :=
  fold_left demux_batch batches [].

(* specification: the file of key k holds exactly the rows of key k, in input order *)
Definition rows_of (k : key) (input : list (key * R)) : list R :=
  map snd (filter (fun kr => key_eqb (fst kr) k) input).

Fixpoint content (fs : files) (k : key) : list R :=
  match fs with
  | [] => []
  | (k', rs) :: fs' => if key_eqb k' k then rs else content fs' k
  end.

(* all (key, row) pairs held by the files *)
Definition flatten (fs : files) : list (key * R) :=
  flat_map (fun f => map (fun r => (fst f, r)) (snd f)) fs.
End Demux.

(* compute_hive_style_file_path: base.join(`col=val`) per partition column, then the file name *)
Fixpoint hive_dirs (pby : list text) (k : key) : list text :=
  match pby, k with
  | p :: pr, v :: vr => os_part (p ++ 61 :: v) :: hive_dirs pr vr
  | _, _ => []
  end.

(* keys per row, all or nothing (an error aborts the write) *)
Fixpoint keyed (s : schema) (pby : list text) (keep : bool) (batch : list row) : option (list (key * row)) :=
  match batch with
  | [] => Some []
  | r :: rs =>
      match key_of s pby r, keyed s pby keep rs with
      | Some k, Some ks => Some ((k, if keep then r else drop_cols s pby r) :: ks)
      | _, _ => None
      end
  end.
Fixpoint keyed_all (s : schema) (pby : list text) (keep : bool) (bs : list (list row)) : option (list (list (key * row))) :=
  match bs with
  | [] => Some []
  | b :: r =>
      match keyed s pby keep b, keyed_all s pby keep r with
      | Some x, Some xs => Some (x :: xs)
      | _, _ => None
      end
  end.

(* the written layout: directory segments below the table root and the rows of the file there *)
Definition hive_write (s : schema) (pby : list text) (keep : bool) (bs : list (list row))
  : option (list (list text * list row)) :=
  match keyed_all s pby keep bs with
  | Some kbs => Some (map (fun f => (hive_dirs pby (fst f), snd f)) (demux kbs))
  | None => None
  end.

(* reading a file back: its rows with the partition values parsed from the directory names appended
   (as Utf8 texts; typed parsing of the text is outside the model) *)
Definition read_file (pby : list text) (fname : text) (f : list text * list row) : option (list (row * list text)) :=
  match parse_dirs8 pby (fst f ++ [fname]) with
  | Some vs => Some (map (fun r => (r, vs)) (snd f))
  | None => None                      (* the listing ignores the file *)
  end.

(* ------------------------------------------------------------------ the row-count demultiplexer *)
(* B = a record batch, sz = its number of rows.  slots = the open file streams (part index, rows
   sent, batches sent), closed = files whose stream was replaced.  None = index out of bounds (panic). *)
Section RowCount.
Context {B : Type}.
Variable sz : B -> Z.
Definition slot := (Z * Z * list B)%type.
Record rc_state := { rc_slots : list slot; rc_closed : list (Z * list B); rc_next : nat; rc_part : Z }.

Definition rc_init (pre : bool) : rc_state :=
  if pre then {| rc_slots := [(0, 0, [])]; rc_closed := []; rc_next := O; rc_part := 1 |}
  else {| rc_slots := []; rc_closed := []; rc_next := O; rc_part := 0 |}.

Definition set_nth (l : list slot) (i : nat) (x : slot) : list slot := firstn i l ++ x :: skipn (S i) l.

Definition rc_send (m : nat) (st : rc_state) (b : B) : option rc_state :=
  match nth_error (rc_slots st) (rc_next st) with
  | Some (idx, cnt, bs) =>
      Some {| rc_slots := set_nth (rc_slots st) (rc_next st) (idx, cnt + sz b, bs ++ [b]);
              rc_closed := rc_closed st;
              rc_next := Nat.modulo (S (rc_next st)) m;
              rc_part := rc_part st |}
  | None => None
  end.

Definition rc_step (m : nat) (maxr : Z) (st : rc_state) (b : B) : option rc_state :=
  if Nat.ltb (length (rc_slots st)) m then
    rc_send m {| rc_slots := rc_slots st ++ [(rc_part st, 0, [])]; rc_closed := rc_closed st;
                 rc_next := rc_next st; rc_part := rc_part st + 1 |} b
  else
    match nth_error (rc_slots st) (rc_next st) with
    | Some (idx, cnt, bs) =>
        if maxr <=? cnt then
          rc_send m {| rc_slots := set_nth (rc_slots st) (rc_next st) (rc_part st, 0, []);
                       rc_closed := rc_closed st ++ [(idx, bs)];
                       rc_next := rc_next st; rc_part := rc_part st + 1 |} b
        else rc_send m st b
    | None => None
    end.

Fixpoint rc_run (m : nat) (maxr : Z) (st : rc_state) (bs : list B) : option rc_state :=
  match bs with
  | [] => Some st
  | b :: r => match rc_step m maxr st b with Some st' => rc_run m maxr st' r | None => None end
  end.

(* all files (part index, batches): replaced streams first, then the still open ones *)
Definition rc_files (st : rc_state) : list (Z * list B) :=
  rc_closed st ++ map (fun s => (fst (fst s), snd s)) (rc_slots st).

(* single_file_output: one stream opened up front, minimum_parallel_files = 1, no row limit *)
Definition row_count_demux (single : bool) (m : nat) (maxr : Z) (bs : list B) : option (list (Z * list B)) :=
  match (if single then rc_run 1 18446744073709551615 (rc_init true) bs   (* usize::MAX rows *)
         else rc_run m maxr (rc_init false) bs) with
  | Some st => Some (rc_files st)
  | None => None
  end.
End RowCount.

(* ------------------------------------------------------------------ correspondence cases *)
Definition t_id : text := [105; 100].
Definition id_of (s : schema) (r : row) : Z :=
  match lookup s r t_id with Some (_, CInt z) => z | _ => -1 end.

Definition tlist_eqb8 := list_eqb text_eqb.

Fixpoint find_idx (fs : list (Z * list (list Z))) (i : Z) : option (list (list Z)) :=
  match fs with
  | [] => None
  | (j, b) :: r => if j =? i then Some b else find_idx r i
  end.

Inductive c25_case :=
| CHive (s : schema) (pby : list text) (keep : bool) (batches : list (list row)) (obs : list (list text * list Z))
| CFlat (single : bool) (m maxr : Z) (batches : list (list Z)) (obs : list (Z * list Z))
| CCsvBytes (d : Z) (records : list (list text)) (bytes : text).

Definition c25_check (c : c25_case) : bool :=
  match c with
  | CHive s pby keep batches obs =>
      match hive_write s pby keep batches with
      | Some fs =>
          let fsch := if keep then s else drop_schema s pby in
          let mine := map (fun f => (fst f, map (id_of fsch) (snd f))) fs in
          let same (a b : list text * list Z) := tlist_eqb8 (fst a) (fst b) && zlist_eqb (snd a) (snd b) in
          Nat.eqb (length mine) (length obs)
          && forallb (fun a => existsb (same a) obs) mine
          && forallb (fun b => existsb (same b) mine) obs
      | None => false
      end
  | CFlat single m maxr batches obs =>
      match row_count_demux (fun b : list Z => Z.of_nat (length b)) single (Z.to_nat m) maxr batches with
      | Some fs =>
          (* files that received no batch do not exist on disk only if never created; every created
             stream is a file *)
          Nat.eqb (length fs) (length obs)
          && forallb (fun o => match find_idx fs (fst o) with
                               | Some bs => zlist_eqb (concat bs) (snd o)
                               | None => false end) obs
      | None => false
      end
  | CCsvBytes d records bytes => zlist_eqb (write_csv d records) bytes
  end.
