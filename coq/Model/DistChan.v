(* C15 -- model of datafusion/physical-plan/src/repartition/distributor_channels.rs at POLL granularity.

   One Gallina function per operation of the Rust module; each mirrors the body of the Rust function statement by
   statement over the module's own fields:
     Channel      { n_senders, state: Mutex<ChannelState { data: Option<VecDeque<T>>, recv_wakers: Option<Vec<Waker>> }> }
     Gate         { empty_channels: AtomicUsize, send_wakers: Mutex<Option<Vec<(Waker, usize)>>> }
     send_poll  = <SendFuture as Future>::poll          recv_poll = <RecvFuture as Future>::poll
     clone_s    = <DistributionSender as Clone>::clone  drop_s    = <DistributionSender as Drop>::drop
     drop_r     = <DistributionReceiver as Drop>::drop  decr_empty = Gate::decr_empty_channels
   Wakers are identifiers (Z); every operation returns its result and the list of wakers it wakes, in wake order.
   Items are Z.  ATOMICITY: each operation is one atomic step (the Rust code holds the channel mutex for the whole
   body of send_poll / recv_poll / drop_r and the last-sender part of drop_s; the gate is accessed through SeqCst
   atomics and its own mutex, taken after the channel mutex).  Interleavings inside one operation are not modelled.

   [step] returns None when the operation cannot be issued at all in safe Rust (no such channel; send/clone/drop on a
   channel whose sender handles are all gone; recv/drop of a receiver that was already dropped).  The module's own
   [expect]s on internal state are modelled as the explicit outcome [RPanic] (proved unreachable). *)
From DF Require Import Base.Prelude.
Open Scope Z_scope.

Record chan := mkChan {
  data : option (list Z);      (* ChannelState::data; None = receiver gone *)
  nsend : nat;                 (* Channel::n_senders *)
  rwk : option (list Z)        (* ChannelState::recv_wakers; None = closed (all senders gone) *)
}.

Record state := mkState {
  chans : list chan;
  empty : Z;                               (* Gate::empty_channels *)
  swk : option (list (Z * nat))            (* Gate::send_wakers (waker, channel id); None = gate open *)
}.

Inductive op :=
| SendPoll (c : nat) (w x : Z)   (* poll a SendFuture for item x on channel c with waker w *)
| RecvPoll (c : nat) (w : Z)     (* poll the RecvFuture of channel c with waker w *)
| CloneS (c : nat)
| DropS (c : nat)
| DropR (c : nat).

Inductive res := ROk | RErr (x : Z) | RPending | RSome (x : Z) | RNone | RUnit | RPanic.
Definition out := (res * list Z)%type.       (* result, wakers woken by the operation (in order) *)

Definition op_chan (o : op) : nat :=
  match o with SendPoll c _ _ | RecvPoll c _ | CloneS c | DropS c | DropR c => c end.

Fixpoint set_nth {A} (n : nat) (x : A) (l : list A) : list A :=
  match l, n with
  | [], _ => []
  | _ :: t, O => x :: t
  | h :: t, S n' => h :: set_nth n' x t
  end.

Definition new_chan : chan := mkChan (Some []) 1 (Some []).
(* channels(n) *)
Definition init (n : nat) : state := mkState (repeat new_chan n) (Z.of_nat n) None.

Definition is_nil {A} (l : list A) : bool := match l with [] => true | _ => false end.
Definition is_some {A} (o : option A) : bool := match o with Some _ => true | None => false end.

(* Gate::decr_empty_channels: fetch_sub; if the old value was 1, lock send_wakers and, if the counter is (still) 0 and
   the list is None, install an empty list (= close the gate) *)
Definition decr_empty (e : Z) (sw : option (list (Z * nat))) : Z * option (list (Z * nat)) :=
  let e' := e - 1 in
  if e =? 1
  then (e', if e' =? 0 then match sw with None => Some [] | Some l => Some l end else sw)
  else (e', sw).

Definition send_poll (c : nat) (w x : Z) (s : state) : option (state * out) :=
  match nth_error (chans s) c with
  | None => None
  | Some ch =>
    if (nsend ch =? 0)%nat then None else
    match data ch with
    | None => Some (s, (RErr x, []))                                  (* receiver end dead *)
    | Some q =>
      match (if empty s =? 0 then swk s else None) with
      | Some l => Some (mkState (chans s) (empty s) (Some (l ++ [(w, c)])), (RPending, []))
      | None =>
        if is_nil q then
          let g := decr_empty (empty s) (swk s) in
          match rwk ch with                                           (* take_recv_wakers: expect("not closed") *)
          | None => Some (s, (RPanic, []))
          | Some rl =>
            Some (mkState (set_nth c (mkChan (Some [x]) (nsend ch) (Some [])) (chans s)) (fst g) (snd g), (ROk, rl))
          end
        else
          Some (mkState (set_nth c (mkChan (Some (q ++ [x])) (nsend ch) (rwk ch)) (chans s)) (empty s) (swk s), (ROk, []))
      end
    end
  end.

Definition recv_poll (c : nat) (w : Z) (s : state) : option (state * out) :=
  match nth_error (chans s) c with
  | None => None
  | Some ch =>
    match data ch with
    | None => None                                                    (* the receiver handle is gone *)
    | Some [] =>
      match rwk ch with
      | Some rl => Some (mkState (set_nth c (mkChan (Some []) (nsend ch) (Some (rl ++ [w]))) (chans s)) (empty s) (swk s),
                         (RPending, []))
      | None => Some (s, (RNone, []))
      end
    | Some (x :: q') =>
      let cs' := set_nth c (mkChan (Some q') (nsend ch) (rwk ch)) (chans s) in
      if is_nil q' && is_some (rwk ch) then
        let old := empty s in                                         (* fetch_add(1) *)
        let e' := old + 1 in
        if old =? 0 then
          if e' >? 0                                                  (* re-check under the gate lock *)
          then Some (mkState cs' e' None, (RSome x, map fst (match swk s with Some l => l | None => [] end)))
          else Some (mkState cs' e' (swk s), (RSome x, []))
        else Some (mkState cs' e' (swk s), (RSome x, []))
      else Some (mkState cs' (empty s) (swk s), (RSome x, []))
    end
  end.

Definition clone_s (c : nat) (s : state) : option (state * out) :=
  match nth_error (chans s) c with
  | None => None
  | Some ch =>
    if (nsend ch =? 0)%nat then None else
    Some (mkState (set_nth c (mkChan (data ch) (S (nsend ch)) (rwk ch)) (chans s)) (empty s) (swk s), (RUnit, []))
  end.

Definition drop_s (c : nat) (s : state) : option (state * out) :=
  match nth_error (chans s) c with
  | None => None
  | Some ch =>
    match nsend ch with
    | O => None
    | S O =>                                                          (* last sender *)
      let dec := match data ch with Some [] => true | _ => false end in
      let g := if dec then decr_empty (empty s) (swk s) else (empty s, swk s) in
      match rwk ch with                                               (* recv_wakers.take().expect("not closed yet") *)
      | None => Some (s, (RPanic, []))
      | Some rl => Some (mkState (set_nth c (mkChan (data ch) 0 None) (chans s)) (fst g) (snd g), (RUnit, rl))
      end
    | S (S k) => Some (mkState (set_nth c (mkChan (data ch) (S k) (rwk ch)) (chans s)) (empty s) (swk s), (RUnit, []))
    end
  end.

Definition drop_r (c : nat) (s : state) : option (state * out) :=
  match nth_error (chans s) c with
  | None => None
  | Some ch =>
    match data ch with
    | None => None
    | Some q =>
      let dec := is_nil q && negb (nsend ch =? 0)%nat in
      let g := if dec then decr_empty (empty s) (swk s) else (empty s, swk s) in
      let cs' := set_nth c (mkChan None (nsend ch) (rwk ch)) (chans s) in
      match snd g with                                                (* Gate::wake_channel_senders(id) *)
      | Some l => Some (mkState cs' (fst g) (Some (filter (fun p => negb (snd p =? c)%nat) l)),
                        (RUnit, map fst (filter (fun p => (snd p =? c)%nat) l)))
      | None => Some (mkState cs' (fst g) None, (RUnit, []))
      end
    end
  end.

Definition step (s : state) (o : op) : option (state * out) :=
  match o with
  | SendPoll c w x => send_poll c w x s
  | RecvPoll c w => recv_poll c w s
  | CloneS c => clone_s c s
  | DropS c => drop_s c s
  | DropR c => drop_r c s
  end.

(* a run: the trace is kept most-recent-first *)
Definition event := (op * out)%type.
Fixpoint run_from (s : state) (rtr : list event) (ops : list op) : option (state * list event) :=
  match ops with
  | [] => Some (s, rtr)
  | o :: r => match step s o with
              | None => None
              | Some (s', ou) => run_from s' ((o, ou) :: rtr) r
              end
  end.
Definition run (n : nat) (ops : list op) := run_from (init n) [] ops.

(* ---------------------------------------------------------------- specification vocabulary (functions of the trace) *)
Definition sent_ev (e : event) : list Z :=
  match fst e, fst (snd e) with SendPoll _ _ x, ROk => [x] | _, _ => [] end.
Definition recv_ev (e : event) : list Z :=
  match fst (snd e) with RSome x => [x] | _ => [] end.
Definition on_chan {A} (c : nat) (e : event) (l : list A) : list A :=
  if (op_chan (fst e) =? c)%nat then l else [].

(* items whose send on channel c completed with Ok, in completion order *)
Fixpoint sent_ok (rtr : list event) (c : nat) : list Z :=
  match rtr with [] => [] | e :: tr => sent_ok tr c ++ on_chan c e (sent_ev e) end.
(* items returned by recv on channel c, in order *)
Fixpoint received (rtr : list event) (c : nat) : list Z :=
  match rtr with [] => [] | e :: tr => received tr c ++ on_chan c e (recv_ev e) end.
Fixpoint clones (rtr : list event) (c : nat) : nat :=
  match rtr with [] => O | e :: tr => (clones tr c + match fst e with CloneS c' => if (c' =? c)%nat then 1 else 0 | _ => 0 end)%nat end.
Fixpoint sdrops (rtr : list event) (c : nat) : nat :=
  match rtr with [] => O | e :: tr => (sdrops tr c + match fst e with DropS c' => if (c' =? c)%nat then 1 else 0 | _ => 0 end)%nat end.
Fixpoint rdropped (rtr : list event) (c : nat) : bool :=
  match rtr with [] => false | e :: tr => match fst e with DropR c' => (c' =? c)%nat | _ => false end || rdropped tr c end.

Definition zmem (w : Z) (l : list Z) : bool := existsb (Z.eqb w) l.
(* send wakers (with their channel) registered by a Pending send poll and not woken since *)
Fixpoint parked_send (rtr : list event) : list (Z * nat) :=
  match rtr with
  | [] => []
  | e :: tr =>
    match fst e, fst (snd e) with SendPoll c w _, RPending => [(w, c)] | _, _ => [] end
    ++ filter (fun p => negb (zmem (fst p) (snd (snd e)))) (parked_send tr)
  end.
(* recv wakers of channel c registered by a Pending recv poll and not woken since *)
Fixpoint parked_recv (rtr : list event) (c : nat) : list Z :=
  match rtr with
  | [] => []
  | e :: tr =>
    on_chan c e (match fst e, fst (snd e) with RecvPoll _ w, RPending => [w] | _, _ => [] end)
    ++ filter (fun w => negb (zmem w (snd (snd e)))) (parked_recv tr c)
  end.

(* "open and empty": what Gate::empty_channels is documented to count *)
Definition open_empty (ch : chan) : bool :=
  match data ch with Some [] => is_some (rwk ch) | _ => false end.
Fixpoint count_oe (l : list chan) : Z :=
  match l with [] => 0 | ch :: t => (if open_empty ch then 1 else 0) + count_oe t end.

(* ---------------------------------------------------------------- correspondence with the implementation *)
Definition res_eqb (a b : res) : bool :=
  match a, b with
  | ROk, ROk | RPending, RPending | RNone, RNone | RUnit, RUnit | RPanic, RPanic => true
  | RErr x, RErr y | RSome x, RSome y => x =? y
  | _, _ => false
  end.
Definition out_eqb (a b : out) : bool := res_eqb (fst a) (fst b) && zlist_eqb (snd a) (snd b).

(* n channels sharing one gate; the schedule; the outcome (result + woken wakers) observed for every operation *)
Inductive c15_case := C15 (n : nat) (ops : list op) (outs : list out).
Definition c15_check (k : c15_case) : bool :=
  match k with
  | C15 n ops outs =>
    match run n ops with
    | Some (_, rtr) => list_eqb out_eqb (rev (map snd rtr)) outs
    | None => false
    end
  end.
