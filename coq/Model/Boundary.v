(* C26 -- model of datafusion/datasource/src/boundary_stream.rs (AlignedBoundaryStream) and of
   FileGroupPartitioner::repartition_evenly_by_size (datafusion/datasource/src/file_groups.rs).
   Definitions only: executable model, specification, and the correspondence checker.

   A file is a list of bytes (Z).  An object-store GET of the byte range [a,b) delivers the bytes
   in arbitrarily many chunks (possibly empty ones): that is the function [chunker a b].  The model
   never looks at the file itself, only at what the GETs deliver -- like the implementation. *)
From Coq Require Import List ZArith Bool Lia.
From DF Require Import Base.Prelude.
Import ListNotations.
Open Scope Z_scope.

Definition U64MAX : Z := 18446744073709551615.
Definition zlen {A} (l : list A) : Z := Z.of_nat (length l).

(* `chunk.iter().position(|&b| b == terminator)` *)
Fixpoint find_term (t : Z) (c : list Z) : option nat :=
  match c with
  | [] => None
  | b :: r => if b =? t then Some O else option_map S (find_term t r)
  end.

(* `chunk.last() == Some(&terminator)` *)
Definition last_is (t : Z) (c : list Z) : bool :=
  match rev c with b :: _ => b =? t | [] => false end.

(* u64::saturating_add *)
Definition sat_add (a b : Z) : Z := Z.min (a + b) U64MAX.

(* result of polling the stream to exhaustion: the chunks it yielded, in order; or a panic
   (integer underflow / slice index out of range); or model fuel exhausted (never, see proofs) *)
Inductive res := ROk (outs : list (list Z)) | RPanic | RFuel.
Definition emit (c : list Z) (r : res) : res := match r with ROk o => ROk (c :: o) | x => x end.
Definition emits (cs : list (list Z)) (r : res) : res := match r with ROk o => ROk (cs ++ o) | x => x end.

(* what FetchingChunks does with one chunk *)
Inductive fstep := FCont (o : list Z) | FDone (o : list Z) | FLast (o : list Z) | FPanic.

Section Stream.
  Variable term : Z.                          (* terminator byte *)
  Variable L : Z.                             (* END_SCAN_LOOKAHEAD *)
  Variable chunker : Z -> Z -> list (list Z). (* chunks delivered by get_opts(Bounded(a..b)) *)
  Variable size : Z.                          (* file_size *)
  Variable fstart : Z.                        (* self.fetch_start *)
  Variable end_ : Z.                          (* self.end (u64::MAX for the last partition) *)

  (* Phase::ScanningLastTerminator on the current `inner` stream.  Returns the yielded chunks and
     None if the terminator was found (phase = Done), Some bytes_consumed if `inner` ran dry. *)
  Fixpoint last_inner (consumed : Z) (inner : list (list Z)) : list (list Z) * option Z :=
    match inner with
    | [] => ([], Some consumed)
    | c :: rest =>
        let consumed' := consumed + zlen c in
        match find_term term c with
        | Some p => ([firstn (S p) c], None)            (* chunk.slice(..=pos); Done *)
        | None => let '(o, r) := last_inner consumed' rest in (c :: o, r)
        end
    end.

  (* ... and the overflow GETs: when `inner` is exhausted and abs_pos() < file_size, fetch
     [pos, min(pos + LOOKAHEAD, file_size)) and keep scanning.  [fuel] bounds the number of GETs. *)
  Fixpoint last_gets (fuel : nat) (consumed : Z) (inner : list (list Z)) : res :=
    match fuel with
    | O => RFuel
    | S f =>
        let '(o, r) := last_inner consumed inner in
        match r with
        | None => ROk o
        | Some consumed' =>
            let pos := fstart + consumed' in
            if pos <? size then
              let fetch_end := Z.min (sat_add pos L) size in
              emits o (last_gets f consumed' (chunker pos fetch_end))
            else ROk o
        end
    end.

  (* Phase::FetchingChunks, one chunk, [pos_after] = abs_pos() after the chunk was counted *)
  Definition fetch_chunk (pos_after : Z) (chunk : list Z) : fstep :=
    if pos_after <? end_ then FCont chunk
    else if pos_after =? end_ then
      (if last_is term chunk then FDone chunk else FLast chunk)
    else
      let pos_before := pos_after - zlen chunk in
      if pos_before <? 0 then FPanic else                       (* u64 subtraction *)
      let chunk_in_range_len := end_ - pos_before in
      if chunk_in_range_len <? 0 then FPanic else               (* u64 subtraction *)
      let search_from := chunk_in_range_len - 1 in
      if search_from <? 0 then FPanic else                      (* usize subtraction *)
      if zlen chunk <? search_from then FPanic else             (* chunk[search_from..] *)
      match find_term term (skipn (Z.to_nat search_from) chunk) with
      | Some rel => FDone (firstn (S (Z.to_nat search_from + rel)) chunk)
      | None => FLast chunk
      end.

  Section Fetch.
    Variable fuel : nat.
    (* Phase::FetchingChunks polling `inner` *)
    Fixpoint fetch_inner (consumed : Z) (inner : list (list Z)) : res :=
      match inner with
      | [] => ROk []                                            (* Ready(None): Done *)
      | c :: rest =>
          let consumed' := consumed + zlen c in
          match fetch_chunk (fstart + consumed') c with
          | FCont o => emit o (fetch_inner consumed' rest)
          | FDone o => ROk [o]
          | FLast o => emit o (last_gets fuel consumed' rest)
          | FPanic => RPanic
          end
      end.

    (* FetchingChunks entered from ScanningFirstTerminator: `pending` first (already counted) *)
    Definition fetch_pending (pending : option (list Z)) (consumed : Z) (inner : list (list Z)) : res :=
      match pending with
      | None => fetch_inner consumed inner
      | Some p =>
          match fetch_chunk (fstart + consumed) p with
          | FCont o => emit o (fetch_inner consumed inner)
          | FDone o => ROk [o]
          | FLast o => emit o (last_gets fuel consumed inner)
          | FPanic => RPanic
          end
      end.

    (* Phase::ScanningFirstTerminator *)
    Fixpoint first_inner (consumed : Z) (inner : list (list Z)) : res :=
      match inner with
      | [] => ROk []                                            (* Ready(None): Done *)
      | c :: rest =>
          let consumed' := consumed + zlen c in
          match find_term term c with
          | Some p =>
              let remainder := skipn (S p) c in
              let aligned_start := fstart + consumed' - zlen remainder in
              if aligned_start <? 0 then RPanic
              else if end_ <=? aligned_start then ROk []
              else fetch_pending (match remainder with [] => None | _ => Some remainder end) consumed' rest
          | None => first_inner consumed' rest
          end
      end.
  End Fetch.
End Stream.

(* AlignedBoundaryStream::new(store, location, raw_start, raw_end, file_size, terminator)
   followed by polling until Ready(None) *)
Definition stream_run (term L : Z) (chunker : Z -> Z -> list (list Z)) (size raw_start raw_end : Z) : res :=
  if (raw_end <=? raw_start) || (size <=? raw_start) then ROk []
  else
    let fstart := if raw_start =? 0 then 0 else raw_start - 1 in
    let initial_fetch_end := Z.min (sat_add raw_end L) size in
    let inner := chunker fstart initial_fetch_end in
    let end_ := if size <=? raw_end then U64MAX else raw_end in
    let fuel := S (Z.to_nat size) in
    if raw_start =? 0 then fetch_inner term L chunker size fstart end_ fuel 0 inner
    else first_inner term L chunker size fstart end_ fuel 0 inner.

(* the bytes a range scan hands to the decoder *)
Definition range_bytes (term L : Z) (chunker : Z -> Z -> list (list Z)) (size s e : Z) : option (list Z) :=
  match stream_run term L chunker size s e with ROk o => Some (concat o) | _ => None end.

(* ------------------------------------------------------------------ specification *)

Definition slice (l : list Z) (a b : Z) : list Z :=
  firstn (Z.to_nat (b - a)) (skipn (Z.to_nat a) l).

(* a chunker is any way of cutting the requested byte range into chunks *)
Definition chunker_ok (file : list Z) (chunker : Z -> Z -> list (list Z)) : Prop :=
  forall a b, 0 <= a <= b -> b <= zlen file -> concat (chunker a b) = slice file a b.

(* the records of a newline-delimited file: maximal runs ending with the terminator; a non-empty
   unterminated tail is the last record *)
Fixpoint split_lines (t : Z) (l : list Z) : list (list Z) :=
  match l with
  | [] => []
  | b :: r =>
      if b =? t then [b] :: split_lines t r
      else match split_lines t r with
           | [] => [[b]]
           | ln :: rest => (b :: ln) :: rest
           end
  end.

(* each record with the file offset of its first byte *)
Fixpoint number_lines (p : Z) (ls : list (list Z)) : list (Z * list Z) :=
  match ls with
  | [] => []
  | ln :: r => (p, ln) :: number_lines (p + zlen ln) r
  end.

Definition in_range (s e p : Z) : bool := (s <=? p) && (p <? e).

(* the records owned by the byte range [s,e): those whose first byte lies in it *)
Definition owned (t : Z) (file : list Z) (s e : Z) : list (list Z) :=
  map snd (filter (fun pl => in_range s e (fst pl)) (number_lines 0 (split_lines t file))).

(* consecutive, non-empty, disjoint ranges covering [a,b) *)
Fixpoint chain (a b : Z) (rs : list (Z * Z)) : Prop :=
  match rs with
  | [] => a = b
  | (x, y) :: r => x = a /\ a < y /\ chain y b r
  end.

(* ------------------------------------------------------------------ the byte-range splitter *)
(* FileGroupPartitioner::repartition_evenly_by_size.  A source file is its effective range
   (range_start, file_end); produced entries are (partition index, file index, start, end). *)

Definition entry := (Z * Z * Z * Z)%type.

(* the `while range_start < file_end` loop for one source file; state = (index, size) of the
   partition being filled.  None = u64 underflow or fuel (never, see proofs). *)
Fixpoint split_one (fuel : nat) (tps fidx idx cur rs fe : Z) : option (list entry * (Z * Z)) :=
  if rs <? fe then
    match fuel with
    | O => None
    | S f =>
        if tps <? cur then None else                      (* target_partition_size - current *)
        let re := Z.min (rs + (tps - cur)) fe in
        let '(idx', cur') :=
          if tps <=? cur + (re - rs) then (idx + 1, 0) else (idx, cur + (re - rs)) in
        match split_one f tps fidx idx' cur' re fe with
        | Some (l, st) => Some ((idx, fidx, rs, re) :: l, st)
        | None => None
        end
    end
  else Some ([], (idx, cur)).

(* the `.scan(..)` over all source files *)
Fixpoint split_files (tps fidx idx cur : Z) (files : list (Z * Z)) : option (list entry) :=
  match files with
  | [] => Some []
  | (rs, fe) :: r =>
      match split_one (S (Z.to_nat (fe - rs))) tps fidx idx cur rs fe with
      | None => None
      | Some (l, (idx', cur')) =>
          match split_files tps (fidx + 1) idx' cur' r with
          | Some l' => Some (l ++ l')
          | None => None
          end
      end
  end.

(* `.chunk_by(partition_idx)`: consecutive entries with the same partition index form a group *)
Fixpoint group_entries (es : list entry) : list (Z * list (Z * Z * Z)) :=
  match es with
  | [] => []
  | (idx, f, s, e) :: r =>
      match group_entries r with
      | (idx', g) :: gs => if idx =? idx' then (idx, (f, s, e) :: g) :: gs
                           else (idx, [(f, s, e)]) :: (idx', g) :: gs
      | [] => [(idx, [(f, s, e)])]
      end
  end.

Definition total_size (files : list (Z * Z)) : Z := fold_right (fun f acc => (snd f - fst f) + acc) 0 files.

Inductive split_res := SNone | SPanic | SGroups (gs : list (list (Z * Z * Z))).

Definition split_entries (n min_size : Z) (files : list (Z * Z)) : option (option (list entry)) :=
  let total := total_size files in
  if (total <? min_size) || (total =? 0) then Some None
  else if n =? 0 then None                                  (* div_ceil by zero *)
  else
    let tps := (total + n - 1) / n in                       (* total_size.div_ceil(target_partitions) *)
    match split_files tps 0 0 0 files with
    | None => None
    | Some es => Some (Some es)
    end.

Definition repartition_evenly (n min_size : Z) (files : list (Z * Z)) : split_res :=
  match split_entries n min_size files with
  | None => SPanic
  | Some None => SNone
  | Some (Some es) => SGroups (map snd (group_entries es))
  end.

(* ------------------------------------------------------------------ correspondence *)

(* The harness' object store cuts every GET response by a cyclic pattern of chunk sizes
   (0 = an empty chunk), optionally followed by an empty trailing chunk. *)
Fixpoint split_pat (fuel : nat) (pat cur : list Z) (bytes : list Z) : list (list Z) :=
  match fuel with
  | O => [bytes]
  | S f =>
      match bytes with
      | [] => []
      | _ =>
          match cur with
          | [] => split_pat f pat pat bytes
          | n :: cur' => firstn (Z.to_nat n) bytes :: split_pat f pat cur' (skipn (Z.to_nat n) bytes)
          end
      end
  end.

Definition pat_chunker (file : list Z) (pat : list Z) (trail : bool) (a b : Z) : list (list Z) :=
  let bytes := slice file a b in
  split_pat ((S (length bytes)) * (S (S (length pat)))) pat pat bytes ++ (if trail then [[]] else []).

(* run-length encoded file contents: (byte, count) *)
Fixpoint rle_expand (r : list (Z * Z)) : list Z :=
  match r with
  | [] => []
  | (b, n) :: r' => repeat b (Z.to_nat n) ++ rle_expand r'
  end.

Fixpoint list_eqb2 {A B} (f : A -> B -> bool) (a : list A) (b : list B) : bool :=
  match a, b with
  | [], [] => true
  | x :: a', y :: b' => f x y && list_eqb2 f a' b'
  | _, _ => false
  end.

Definition chunks_eqb : list (list Z) -> list (list Z) -> bool := list_eqb zlist_eqb.

Definition res_eqb (r : res) (obs : option (list (list (Z * Z)))) : bool :=
  match r, obs with
  | ROk o, Some o' => chunks_eqb o (map rle_expand o')
  | RPanic, None => true
  | _, _ => false
  end.

Definition triple_eqb (a b : Z * Z * Z) : bool :=
  let '(a1, a2, a3) := a in let '(b1, b2, b3) := b in (a1 =? b1) && (a2 =? b2) && (a3 =? b3).

Inductive c26_case :=
  (* file (RLE), terminator, lookahead, chunk pattern, trailing empty chunk, ranges,
     and for every range the exact sequence of chunks (each RLE) the real stream yielded
     (None = panic) *)
  | CStream (file : list (Z * Z)) (term L : Z) (pat : list Z) (trail : bool)
            (ranges : list (Z * Z)) (obs : list (option (list (list (Z * Z)))))
  (* target_partitions, repartition_file_min_size, source files (effective ranges),
     observed groups (None = repartition returned None), each entry (file index, start, end) *)
  | CSplit (n min_size : Z) (files : list (Z * Z)) (obs : option (list (list (Z * Z * Z))))
  (* end to end: single-column integer records; observed decoded values per range must be the
     decimal values of the records the model's stream yields *)
  | CScan (file : list Z) (L : Z) (pat : list Z) (trail : bool)
          (ranges : list (Z * Z)) (obs : list (list Z)).

Fixpoint parse_dec (acc : Z) (l : list Z) : Z :=
  match l with
  | [] => acc
  | b :: r => if (48 <=? b) && (b <=? 57) then parse_dec (acc * 10 + (b - 48)) r else parse_dec acc r
  end.

(* digits only count; records without any digit (blank lines) are skipped by both decoders *)
Definition has_digit (l : list Z) : bool := existsb (fun b => (48 <=? b) && (b <=? 57)) l.

Definition c26_check (c : c26_case) : bool :=
  match c with
  | CStream rle term L pat trail ranges obs =>
      let file := rle_expand rle in
      let ck := pat_chunker file pat trail in
      list_eqb2 res_eqb
        (map (fun r => stream_run term L ck (zlen file) (fst r) (snd r)) ranges) obs
  | CSplit n min_size files obs =>
      match repartition_evenly n min_size files, obs with
      | SNone, None => true
      | SGroups gs, Some gs' => list_eqb (list_eqb triple_eqb) gs gs'
      | _, _ => false
      end
  | CScan file L pat trail ranges obs =>
      let ck := pat_chunker file pat trail in
      list_eqb zlist_eqb
        (map (fun r => match range_bytes 10 L ck (zlen file) (fst r) (snd r) with
                       | Some bytes => map (parse_dec 0) (filter has_digit (split_lines 10 bytes))
                       | None => [-1]
                       end) ranges) obs
  end.
