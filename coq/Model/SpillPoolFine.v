(* C16 -- the spill pool at CRITICAL-SECTION granularity: the same sections as Model/SpillPool.v ([sec_*]), but a
   thread can be preempted between any two of them (each lock-protected block of spill_pool.rs is one atomic step;
   the lock-free parts -- create_in_progress_file, reading the file stream -- are merged into the following/preceding
   section because they touch no shared state).  Executable.  [explore] enumerates ALL interleavings with a bounded
   number of preemptions for small configurations and checks the property on every reachable state: that is a TEST
   (bounded model checking by vm_compute at check time), not a theorem.  The theorems are in
   Proofs/SpillPoolProofs.v and hold for call-granularity interleavings. *)
From DF Require Import Base.Prelude Model.SpillPool.
From Coq Require Import PeanoNat.
Open Scope Z_scope.

Inductive wop := WPush (b rows sz : Z) (flt : fault) | WDrop.

Inductive wpc :=
| WIdle
| WCreate (b sz : Z) (flt : fault)           (* section 1 found no open file; the new file is published next *)
| WHave (i : nat) (b sz : Z) (flt : fault)   (* holds write_file, next: lock it and append *)
| WPut (i : nat)                             (* next: lock the pool and push the file back *)
| WFin (fs : list nat).                      (* last writer dropped: finalizing the files it took, then pool wake *)

Record wthread := mkW { wprog : list wop; wstate : wpc }.

Inductive rpc := RIdle | RLoop | RRead | RPop | RReg.

Record fstate := mkF {
  fpool : pool;
  fws : list wthread;
  frd : rpc;
  fres : list pollres }.     (* results of the reader's completed polls, most recent first *)

Definition set_w (k : nat) (w : wthread) (st : fstate) : fstate :=
  mkF (fpool st) (upd k (fun _ => w) (fws st)) (frd st) (fres st).

Definition wstep (rep : bool) (maxsz : Z) (k : nat) (st : fstate) : fstate :=
  let w := nth k (fws st) (mkW [] WIdle) in
  let p := fpool st in
  let put p' w' := mkF p' (upd k (fun _ => w') (fws st)) (frd st) (fres st) in
  match wstate w with
  | WIdle =>
    match wprog w with
    | [] => st
    | WPush b rows sz flt :: rest =>
      if rows =? 0 then put p (mkW rest WIdle) else
      match sec_take p with
      | (Some i, p1) => put p1 (mkW rest (WHave i b sz flt))
      | (None, p1) => put p1 (mkW rest (WCreate b sz flt))
      end
    | WDrop :: rest =>
      match sec_drop_dec p with
      | (DDone, p1) => put p1 (mkW rest WIdle)
      | (DFinalize fs, p1) => put p1 (mkW rest (WFin fs))
      end
    end
  | WCreate b sz flt => let '(i, p1) := sec_publish p in put p1 (mkW (wprog w) (WHave i b sz flt))
  | WHave i b sz flt =>
    match sec_append rep maxsz i b sz flt p with
    | (ADone _, p1) => put p1 (mkW (wprog w) WIdle)
    | (APutBack, p1) => put p1 (mkW (wprog w) (WPut i))
    end
  | WPut i => put (sec_putback i p) (mkW (wprog w) WIdle)
  | WFin (i :: fs) => put (sec_finalize i p) (mkW (wprog w) (WFin fs))
  | WFin [] => put (sec_drop_wake p) (mkW (wprog w) WIdle)
  end.

Definition finish_poll (r : pollres) (p : pool) (st : fstate) : fstate :=
  mkF (set_flags (is_pending r) (woken p) p) (fws st) RIdle (r :: fres st).

Definition rstep (st : fstate) : fstate :=
  let p := fpool st in
  let go p' pc := mkF p' (fws st) pc (fres st) in
  match frd st with
  | RIdle => go (set_flags false false p) RLoop            (* the executor polls the task: its wake flag is reset *)
  | RLoop =>
    if cur p then
      match sec_file_check p with
      | (FRead, p1) => go p1 RRead
      | (FEof, p1) => go p1 RPop
      | (FWait, p1) => go p1 RReg
      end
    else
      match sec_next_file p with
      | (NFile, p1) => go p1 RLoop
      | (NEof, p1) => finish_poll PEof p1 st
      | (NWait, p1) => finish_poll PPending p1 st
      end
  | RRead => let '(b, p1) := sec_read false p in finish_poll (PBatch b) p1 st
  | RPop => go (sec_pop p) RLoop
  | RReg => finish_poll PPending (sec_reg_pool p) st
  end.

Definition w_enabled (w : wthread) : bool :=
  match wstate w, wprog w with
  | WIdle, [] => false
  | _, _ => true
  end.

Definition got_eof (st : fstate) : bool := match fres st with PEof :: _ => true | _ => false end.

(* a fair executor: the reader task is polled again after a Ready result, and after a Pending one only once woken *)
Definition r_enabled (st : fstate) : bool :=
  match frd st with
  | RIdle => negb (got_eof st) && negb (parked (fpool st))
  | _ => true
  end.

(* thread 0 is the reader, thread k+1 is writer k *)
Definition enabled (st : fstate) : list nat :=
  (if r_enabled st then [0%nat] else []) ++
  map S (filter (fun k => w_enabled (nth k (fws st) (mkW [] WIdle))) (seq 0 (length (fws st)))).

Definition fstep (rep : bool) (maxsz : Z) (t : nat) (st : fstate) : fstate :=
  match t with
  | O => rstep st
  | S k => wstep rep maxsz k st
  end.

Fixpoint frun (rep : bool) (maxsz : Z) (sched : list nat) (st : fstate) : fstate :=
  match sched with
  | [] => st
  | t :: r => frun rep maxsz r (fstep rep maxsz t st)
  end.

(* ------------------------------------------------------------------ what is checked on every explored state *)
Fixpoint remove1 (b : Z) (l : list Z) : option (list Z) :=
  match l with
  | [] => None
  | x :: r => if x =? b then Some r else match remove1 b r with Some r' => Some (x :: r') | None => None end
  end.
Fixpoint submultiset (a b : list Z) : bool :=
  match a with
  | [] => true
  | x :: a' => match remove1 x b with Some b' => submultiset a' b' | None => false end
  end.

(* safety: nothing invented, nothing twice; one writer: push order; no lost wake-up: an idle reader that is parked
   (returned Pending, not woken since) would still get Pending if it polled now *)
Definition safe (st : fstate) : bool :=
  let p := fpool st in
  submultiset (yielded p) (appended p) &&
  (if Nat.eqb (length (fws st)) 1 then is_prefix (yielded p) (appended p) else true) &&
  (match frd st with
   | RIdle => if parked p then is_pending (fst (do_poll false p)) else true
   | _ => true
   end) &&
  (if got_eof st then Nat.eqb (wcount p) 0 && submultiset (appended p) (yielded p) else true).

(* quiescence: every thread is finished or blocked.  The reader must have seen end-of-stream with everything delivered *)
Definition final_ok (st : fstate) : bool :=
  let p := fpool st in
  got_eof st && submultiset (appended p) (yielded p) && submultiset (yielded p) (appended p) && Nat.eqb (wcount p) 0.

Fixpoint explore (rep : bool) (maxsz : Z) (fuel pre : nat) (last : option nat) (st : fstate) : Z * bool :=
  if negb (safe st) then (1, false) else
  match fuel with
  | O => (1, false)
  | S fuel' =>
    let en := enabled st in
    match en with
    | [] => (1, final_ok st)
    | _ =>
      fold_left (fun (acc : Z * bool) (t : nat) =>
        let cost := match last with
                    | Some l => if Nat.eqb l t then 0%nat else if existsb (Nat.eqb l) en then 1%nat else 0%nat
                    | None => 0%nat
                    end in
        if Nat.leb cost pre then
          let '(c, ok) := explore rep maxsz fuel' (pre - cost) (Some t) (fstep rep maxsz t st) in
          (fst acc + c, snd acc && ok)
        else acc) en (0, true)
    end
  end.

Definition finit (progs : list (list wop)) : fstate :=
  mkF (init (length progs)) (map (fun pr => mkW pr WIdle) progs) RIdle [].

Definition explore_cfg (rep : bool) (pre : nat) (cfg : Z * list (list wop)) : Z * bool :=
  explore rep (fst cfg) 400 pre None (finit (snd cfg)).

Definition big : Z := 2 ^ 40.
Definition suite : list (Z * list (list wop)) :=
  [ (* the failed-append history of the pinned defect, one writer *)
    (big, [[WPush 1 3 128 NoFault; WPush 2 250 1088 FailAppend; WPush 3 3 128 NoFault; WDrop]]);
    (* rotation after every batch, a failed rotation finish *)
    (0, [[WPush 1 3 128 FailFinish; WPush 2 3 128 NoFault; WDrop]]);
    (* two writers, never rotating, one failing append *)
    (big, [[WPush 1 3 128 NoFault; WPush 2 3 128 NoFault; WDrop]; [WPush 3 3 128 FailAppend; WPush 4 3 128 NoFault; WDrop]]);
    (* two writers, rotation after two batches, an empty batch *)
    (200, [[WPush 1 3 128 NoFault; WPush 2 0 0 NoFault; WPush 3 3 128 NoFault; WDrop]; [WPush 4 3 128 NoFault; WPush 5 3 128 FailAppend; WDrop]]);
    (* three writers, rotation after every batch *)
    (0, [[WPush 1 3 128 NoFault; WDrop]; [WPush 2 3 128 FailAppend; WDrop]; [WPush 3 3 128 NoFault; WPush 4 3 128 FailFinish; WDrop]]) ].

(* (number of complete interleavings explored, all of them good) with at most [pre] preemptions each *)
Definition explore_suite (pre : nat) : Z * bool :=
  fold_left (fun acc cfg => let '(c, ok) := explore_cfg true pre cfg in (fst acc + c, snd acc && ok)) suite (0, true).

(* the same exploration finds the hang of the pinned upstream behaviour ([rep = false]) *)
Definition explore_upstream (pre : nat) : Z * bool :=
  explore_cfg false pre (big, [[WPush 1 3 128 NoFault; WPush 2 250 1088 FailAppend; WPush 3 3 128 NoFault; WDrop]]).
