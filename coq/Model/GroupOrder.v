(* C06 -- grouped aggregation under every aggregation strategy: the strategy-specific bookkeeping.

   DEFINITION of grouped aggregation = RefSQL's [group_pairs] + [agg_apply] (Model/RefSQL.v); the two-phase laws are
   C02's (Model/PhysDecomp.v: partial_groups / final_groups / group_partitioned_final), the accumulators are C07's
   (Model/Accum.v), group interning is C13's (Model/GroupValues.v).  NEW here:

   1. datafusion/physical-plan/src/aggregates/order/{full.rs,partial.rs,mod.rs}: [GroupOrderingFull],
      [GroupOrderingPartial], [GroupOrdering] as state machines ([gof], [gop], [gord]): new_groups (sort-key boundary
      detection inside a batch = start of the last range of arrow_ord::partition, and across batches = comparison with
      the stored sort_key), emit_to, remove_groups, input_done, reset; a panic of the Rust code is [None].
   2. aggregates/aggregate_hash_table/common_ordered.rs [OrderedAggregateTable]: intern the batch (first-seen group
      ids), call new_groups only when the batch created a group, emit = clamp_emit_to(batch_size) + GroupValues::emit +
      remove_groups, take_state_batch (emit everything and reset: memory pressure in the partial stage / a spill run).
      The accumulators are abstracted to "the list of the group's rows in arrival order" (what they compute from it is
      C07's business), so an emitted group is a pair (key, members).
   3. the stream schedules of ordered_{single,partial,final}_stream.rs are event lists [ev]: any interleaving of input
      batches and emit attempts, then input_done, then emit attempts until the table is empty.
   4. spill = sort the partial states of each run by key and k-way merge; skipped partial aggregation = the rows after
      the probe are passed through as single-row states (convert_to_state); GROUPING SETS = one pass per set with the
      masked-out columns replaced by NULL and the grouping id appended to the key.

   Definitions only; proofs are in Proofs/GroupOrderProofs.v; the property theorems in Props/C06.v. *)
From Coq Require Import List ZArith Bool Permutation Arith.
From DF Require Import Base.Prelude Model.RefSQL Model.PhysDecomp.
Import ListNotations.

(* ------------------------------------------------------------------ EmitTo *)
Inductive emit_to := EFirst (n : nat) | EAll.

(* ------------------------------------------------------------------ GroupOrderingFull (order/full.rs) *)
Inductive gof := FStart | FInProgress (current : nat) | FComplete.

Definition gof_emit_to (s : gof) : option emit_to :=
  match s with
  | FStart => None
  | FInProgress c => if Nat.eqb c 0 then None else Some (EFirst c)
  | FComplete => Some EAll
  end.
(* None = the Rust code panics *)
Definition gof_remove_groups (n : nat) (s : gof) : option gof :=
  match s with
  | FInProgress c => if Nat.leb n c then Some (FInProgress (c - n)) else None
  | _ => None
  end.
Definition gof_new_groups (total : nat) (s : gof) : option gof :=
  match total with
  | O => None
  | S m => match s with
           | FStart => Some (FInProgress m)
           | FInProgress c => if Nat.leb c m then Some (FInProgress m) else None
           | FComplete => None
           end
  end.

(* ------------------------------------------------------------------ GroupOrderingPartial (order/partial.rs) *)
Inductive gop := PStart | PInProgress (current_sort : nat) (sort_key : row) (current : nat) | PComplete.

(* compute_sort_keys: the columns [order_indices] of a group key *)
Definition proj (idx : list nat) (k : row) : row := map (fun i => nth i k VNull) idx.

(* partition(&sort_keys).ranges().last().start: start of the last run of equal consecutive rows (NULL = NULL) *)
Fixpoint last_range_start (l : list row) : nat :=
  match l with
  | [] => 0
  | x :: l' => if forallb (row_eqb x) l' then 0 else S (last_range_start l')
  end.

Definition gop_emit_to (s : gop) : option emit_to :=
  match s with
  | PStart => None
  | PInProgress cs _ _ => if Nat.eqb cs 0 then None else Some (EFirst cs)
  | PComplete => Some EAll
  end.
Definition gop_remove_groups (n : nat) (s : gop) : option gop :=
  match s with
  | PInProgress cs sk c => if Nat.leb n c && Nat.leb n cs then Some (PInProgress (cs - n) sk (c - n)) else None
  | _ => None
  end.
(* [keys]: the group key of every row of the batch; [gidx]: the group index of every row; [total]: number of groups *)
Definition gop_new_groups (idx : list nat) (keys : list row) (gidx : list nat) (total : nat) (s : gop) : option gop :=
  match total with
  | O => None                                  (* assert!(total_num_groups > 0) *)
  | S m =>
    let sks := map (proj idx) keys in
    let p := last_range_start sks in
    match nth_error gidx p, nth_error sks p with    (* ranges.last().unwrap(), group_indices[last_range.start] *)
    | Some rcs, Some rsk =>
        match s with
        | PComplete => None                    (* "Saw new group after the end of input" *)
        | PStart => Some (PInProgress rcs rsk m)
        | PInProgress cs sk _ =>
            if Nat.eqb p 0 && row_eqb sk rsk then Some (PInProgress cs sk m) else Some (PInProgress rcs rsk m)
        end
    | _, _ => None
    end
  end.

(* ------------------------------------------------------------------ GroupOrdering (order/mod.rs) *)
Inductive gord := ONone | OPartial (idx : list nat) (s : gop) | OFull (s : gof).

Definition gord_emit_to (o : gord) : option emit_to :=
  match o with ONone => None | OPartial _ s => gop_emit_to s | OFull s => gof_emit_to s end.
Definition gord_remove_groups (n : nat) (o : gord) : option gord :=
  match o with
  | ONone => Some ONone
  | OPartial idx s => option_map (OPartial idx) (gop_remove_groups n s)
  | OFull s => option_map OFull (gof_remove_groups n s)
  end.
Definition gord_new_groups (keys : list row) (gidx : list nat) (total : nat) (o : gord) : option gord :=
  match o with
  | ONone => Some ONone
  | OPartial idx s => option_map (OPartial idx) (gop_new_groups idx keys gidx total s)
  | OFull s => option_map OFull (gof_new_groups total s)
  end.
Definition gord_input_done (o : gord) : gord :=
  match o with ONone => ONone | OPartial idx _ => OPartial idx PComplete | OFull _ => OFull FComplete end.
Definition gord_reset (o : gord) : gord :=
  match o with ONone => ONone | OPartial idx _ => OPartial idx PStart | OFull _ => OFull FStart end.
(* oom_emit_to(n): the emit strategy under memory pressure *)
Definition gord_oom_emit_to (n : nat) (o : gord) : option emit_to :=
  match n with
  | O => None
  | _ => match o with
         | ONone => Some (EFirst n)
         | _ => match gord_emit_to o with
                | Some (EFirst mx) => Some (EFirst (Nat.min n mx))
                | Some EAll => Some (EFirst n)
                | None => None
                end
         end
  end.

(* ------------------------------------------------------------------ the ordered aggregate table *)
Section Table.
  Context {A : Type}.
  Definition groups := list (row * list A).

  (* GroupValues::intern of one row: group ids are positions in first-seen order; the row joins its group *)
  Fixpoint add_row (k : row) (x : A) (gs : groups) : groups :=
    match gs with
    | [] => [(k, [x])]
    | (k', xs) :: gs' => if row_eqb k k' then (k', xs ++ [x]) :: gs' else (k', xs) :: add_row k x gs'
    end.
  Fixpoint key_index (k : row) (gs : groups) : nat :=
    match gs with
    | [] => 0
    | (k', _) :: gs' => if row_eqb k k' then 0 else S (key_index k gs')
    end.
  Fixpoint intern_all (gs : groups) (b : list (row * A)) : groups :=
    match b with [] => gs | (k, x) :: b' => intern_all (add_row k x gs) b' end.
  Fixpoint batch_indices (gs : groups) (b : list (row * A)) : list nat :=
    match b with [] => [] | (k, x) :: b' => key_index k gs :: batch_indices (add_row k x gs) b' end.

  (* the DEFINITION in first-seen order: one entry per distinct key, members in input order *)
  Definition fs_groups (l : list (row * A)) : groups := intern_all [] l.

  Record otab := OTab { ot_gs : groups; ot_ord : gord }.

  (* aggregate_evaluated_batch *)
  Definition ot_push (b : list (row * A)) (t : otab) : option otab :=
    let gs' := intern_all (ot_gs t) b in
    if Nat.ltb (length (ot_gs t)) (length gs') then
      option_map (OTab gs') (gord_new_groups (map fst b) (batch_indices (ot_gs t) b) (length gs') (ot_ord t))
    else Some (OTab gs' (ot_ord t)).

  (* clamp_emit_to: (emit_to, should_remove_groups) *)
  Definition clamp_emit_to (bs count : nat) (e : emit_to) : emit_to * bool :=
    match e with
    | EFirst n => (EFirst (Nat.min n bs), true)
    | EAll => if Nat.leb count bs then (EAll, false) else (EFirst bs, false)
    end.

  (* next_output_batch_inner: the emitted groups ([] = Ok(None)) and the table afterwards; None = panic *)
  Definition ot_emit (bs : nat) (t : otab) : option (groups * otab) :=
    match ot_gs t with
    | [] => Some ([], t)
    | _ =>
      match gord_emit_to (ot_ord t) with
      | None => Some ([], t)
      | Some e =>
        match clamp_emit_to bs (length (ot_gs t)) e with
        | (EAll, _) => Some (ot_gs t, OTab [] (ot_ord t))
        | (EFirst n, rm) =>
            match (if rm then gord_remove_groups n (ot_ord t) else Some (ot_ord t)) with
            | Some o => Some (firstn n (ot_gs t), OTab (skipn n (ot_gs t)) o)
            | None => None
            end
        end
      end
    end.

  (* take_state_batch: emit every group, the unfinished ones included, and start a new ordered segment *)
  Definition ot_take (t : otab) : groups * otab := (ot_gs t, OTab [] (gord_reset (ot_ord t))).
  Definition ot_done (t : otab) : otab := OTab (ot_gs t) (gord_input_done (ot_ord t)).

  Inductive ev := EvBatch (b : list (row * A)) | EvEmit | EvDone | EvTake.

  (* the outputs, oldest first *)
  Fixpoint ot_run (bs : nat) (evs : list ev) (t : otab) : option (list groups * otab) :=
    match evs with
    | [] => Some ([], t)
    | e :: evs' =>
      match (match e with
             | EvBatch b => option_map (fun t' => ([], t')) (ot_push b t)
             | EvEmit => ot_emit bs t
             | EvDone => Some ([], ot_done t)
             | EvTake => Some (ot_take t)
             end) with
      | Some (o, t') => option_map (fun r => (o :: fst r, snd r)) (ot_run bs evs' t')
      | None => None
      end
    end.

  Definition ev_input (e : ev) : list (row * A) := match e with EvBatch b => b | _ => [] end.
  Definition evs_input (evs : list ev) : list (row * A) := concat (map ev_input evs).
  Definition is_feed (e : ev) : Prop := match e with EvBatch _ | EvEmit => True | _ => False end.

  (* ordered_single_stream.rs / ordered_final_stream.rs without memory pressure: one emit attempt after every input
     batch; at the end of the input input_done, then emit until the table is empty ([drain] attempts suffice when
     drain * batch_size >= number of groups left) *)
  Definition stream_schedule (batches : list (list (row * A))) (drain : nat) : list ev :=
    concat (map (fun b => [EvBatch b; EvEmit]) batches) ++ EvDone :: repeat EvEmit drain.
End Table.
Arguments groups A : clear implicits.
Arguments otab A : clear implicits.
Arguments ev A : clear implicits.

(* ------------------------------------------------------------------ input that is sorted on the ordering columns *)
(* "the input is sorted on sk" is used through its only consequence: a value of sk that has occurred before can only
   recur immediately after itself (equal values are contiguous).  Proofs/GroupOrderProofs.v: sorted_clustered. *)
Definition clustered {S} (l : list S) : Prop :=
  forall pre x post, l = pre ++ x :: post -> In x pre -> exists pre', pre = pre' ++ [x].
Fixpoint clusteredb_from (prev : option row) (seen : list row) (l : list row) : bool :=
  match l with
  | [] => true
  | x :: l' =>
      let same := match prev with Some p => row_eqb p x | None => false end in
      (same || negb (existsb (row_eqb x) seen)) && clusteredb_from (Some x) (x :: seen) l'
  end.
Definition clusteredb (l : list row) : bool := clusteredb_from None [] l.

(* the two ordered modes: InputOrderMode::Sorted (every group column is an ordering column) and
   InputOrderMode::PartiallySorted(idx) *)
Definition ord_start (full : bool) (idx : list nat) : gord := if full then OFull FStart else OPartial idx PStart.
Definition ord_sk (full : bool) (idx : list nat) : row -> row := if full then (fun k => k) else proj idx.
Definition sorted_on {A} (full : bool) (idx : list nat) (l : list (row * A)) : Prop :=
  clustered (map (fun p : row * A => ord_sk full idx (fst p)) l).

(* ------------------------------------------------------------------ strategies expressed with C02's stage operators *)
(* spill: every run = the partial states of one segment of the input, sorted by key with any comparison [leb];
   replay = k-way merge of the runs fed to the final stage *)
Definition spill_runs (fn : agg_fn) (leb : row * res pstate -> row * res pstate -> bool)
           (segs : list (list (row * value))) : list (list (row * res pstate)) :=
  map (fun s => isort leb (partial_groups fn s)) segs.
Definition spill_merge (fn : agg_fn) (leb : row * res pstate -> row * res pstate -> bool)
           (segs : list (list (row * value))) : list (row * res value) :=
  final_groups fn (kmerge leb (spill_runs fn leb segs)).

(* skipped partial aggregation of one input partition: [pre] was aggregated before the probe decided to skip; every row
   of [suf] is passed through as the state of a group with that single row (GroupsAccumulator::convert_to_state) *)
Definition convert_to_state (fn : agg_fn) (p : row * value) : row * res pstate := (fst p, agg_partial fn [snd p]).
Definition skip_partial_out (fn : agg_fn) (ps : list (row * value) * list (row * value)) : list (row * res pstate) :=
  partial_groups fn (fst ps) ++ map (convert_to_state fn) (snd ps).

(* the partial stage of an ordered / memory-limited plan: its input cut into segments (at every take_state_batch), one
   state per group of each segment *)
Definition segmented_partial (fn : agg_fn) (segs : list (list (row * value))) : list (row * res pstate) :=
  concat (map (partial_groups fn) segs).

(* one ordered segment of the partial stage: any feed schedule, closed by take_state_batch; its output rows *)
Definition seg_out {A} (full : bool) (idx : list nat) (bs : nat) (evs : list (ev A)) : groups A :=
  match ot_run bs (evs ++ [EvTake]) (OTab [] (ord_start full idx)) with
  | Some (outs, _) => concat outs
  | None => []
  end.
(* the accumulators' view of emitted groups: state (partial stage) / value (single and final stage) per group *)
Definition states_of (fn : agg_fn) (gs : groups value) : list (row * res pstate) :=
  map (fun g => (fst g, agg_partial fn (snd g))) gs.
Definition values_of (fn : agg_fn) (gs : groups value) : list (row * res value) :=
  map (fun g => (fst g, agg_apply fn (snd g))) gs.
Definition finals_of (fn : agg_fn) (gs : groups (res pstate)) : list (row * res value) :=
  map (fun g => (fst g, ss <- mapM (fun s => s) (snd g);; agg_final fn (agg_merge_all fn ss))) gs.

(* GROUPING SETS / ROLLUP / CUBE (evaluate_group_by + group_id_array): a set is a mask (true = the column is replaced by
   NULL); grouping id = the mask read as a binary number, first column most significant, plus ordinal << #columns
   for the ordinal-th repetition of the same mask *)
Definition mask_key (m : list bool) (k : row) : row :=
  map (fun p : bool * value => if fst p then VNull else snd p) (combine m k).
Definition mask_id (m : list bool) : Z := fold_left (fun acc (b : bool) => 2 * acc + (if b then 1 else 0))%Z m 0%Z.
Definition set_id (m : list bool) (ordinal : Z) : Z := (mask_id m + ordinal * 2 ^ (Z.of_nat (length m)))%Z.
Fixpoint count_before (m : list bool) (ms : list (list bool)) : Z :=
  match ms with [] => 0%Z | m' :: ms' => ((if list_eqb Bool.eqb m m' then 1 else 0) + count_before m ms')%Z end.
(* the masks with their ordinals *)
Fixpoint with_ordinals (done : list (list bool)) (ms : list (list bool)) : list (list bool * Z) :=
  match ms with [] => [] | m :: ms' => (m, count_before m done) :: with_ordinals (done ++ [m]) ms' end.
Definition set_rows {A} (mo : list bool * Z) (l : list (row * A)) : list (row * A) :=
  map (fun p => (mask_key (fst mo) (fst p) ++ [VInt (set_id (fst mo) (snd mo))], snd p)) l.
(* what the operator does: every input batch is pushed once per set into ONE table *)
Definition grouping_sets_rows {A} (ms : list (list bool)) (l : list (row * A)) : list (row * A) :=
  concat (map (fun mo => set_rows mo l) (with_ordinals [] ms)).
Definition grouping_sets_exec (fn : agg_fn) (ms : list (list bool)) (l : list (row * value)) : list (row * res value) :=
  ref_groups fn (grouping_sets_rows ms l).
(* the DEFINITION: the union of the per-set aggregations; the empty grouping set "()" (every column masked) has its
   grand-total group even when the input has no row (standard SQL; init_empty_grouping_sets) *)
Definition grand_total (m : list bool) : bool := forallb (fun b : bool => b) m.
Definition set_groups {A} (mo : list bool * Z) (l : list (row * A)) : groups A :=
  match l with
  | [] => if grand_total (fst mo)
          then [(map (fun _ => VNull) (fst mo) ++ [VInt (set_id (fst mo) (snd mo))], [])]
          else []
  | _ => group_pairs (set_rows mo l)
  end.
Definition grouping_sets_groups {A} (ms : list (list bool)) (l : list (row * A)) : groups A :=
  concat (map (fun mo => set_groups mo l) (with_ordinals [] ms)).
Definition grouping_sets_def (fn : agg_fn) (ms : list (list bool)) (l : list (row * value)) : list (row * res value) :=
  map (fun g => (fst g, agg_apply fn (snd g))) (grouping_sets_groups ms l).

(* ------------------------------------------------------------------ the tie *)
(* (a) operation histories on the real GroupOrderingPartial / GroupOrderingFull *)
Inductive c06_op :=
| OpNew (keys : list row) (gidx : list Z) (total : Z)
| OpEmit
| OpRemove (n : Z)
| OpDone
| OpReset
| OpOom (n : Z).
(* the state printed by the harness after the operation (Debug output of the struct) and emit_to():
   tag 0 Start, 1 InProgress, 2 Complete; emit: -1 None, -2 All, n First(n); Full: current_sort = -1, sort_key = [] *)
Inductive c06_obs := ObsPanic | ObsState (tag current_sort current : Z) (sort_key : row) (emit : Z).

Definition emit_code (e : option emit_to) : Z :=
  match e with None => -1 | Some EAll => -2 | Some (EFirst n) => Z.of_nat n end%Z.
Definition obs_of (o : gord) : c06_obs :=
  match o with
  | ONone => ObsState 0 (-1) (-1) [] (-1)
  | OPartial _ s =>
      match s with
      | PStart => ObsState 0 (-1) (-1) [] (emit_code (gop_emit_to s))
      | PInProgress cs sk c => ObsState 1 (Z.of_nat cs) (Z.of_nat c) sk (emit_code (gop_emit_to s))
      | PComplete => ObsState 2 (-1) (-1) [] (emit_code (gop_emit_to s))
      end
  | OFull s =>
      match s with
      | FStart => ObsState 0 (-1) (-1) [] (emit_code (gof_emit_to s))
      | FInProgress c => ObsState 1 (-1) (Z.of_nat c) [] (emit_code (gof_emit_to s))
      | FComplete => ObsState 2 (-1) (-1) [] (emit_code (gof_emit_to s))
      end
  end.
Definition zneg (z : Z) : bool := (z <? 0)%Z.
Definition op_step (op : c06_op) (o : gord) : option gord :=
  match op with
  | OpNew keys gidx total =>
      if zneg total || existsb zneg gidx then None
      else gord_new_groups keys (map Z.to_nat gidx) (Z.to_nat total) o
  | OpEmit => Some o
  | OpRemove n => if zneg n then None else gord_remove_groups (Z.to_nat n) o
  | OpDone => Some (gord_input_done o)
  | OpReset => Some (gord_reset o)
  | OpOom _ => Some o
  end.
(* OpOom n is observed through oom_emit_to(n) instead of emit_to() *)
Definition obs_after (op : c06_op) (o : gord) : c06_obs :=
  match op, obs_of o with
  | OpOom n, ObsState t cs c sk _ => ObsState t cs c sk (emit_code (gord_oom_emit_to (Z.to_nat n) o))
  | _, ob => ob
  end.
(* the history stops at the first panic *)
Fixpoint ops_run (ops : list c06_op) (o : gord) : list c06_obs :=
  match ops with
  | [] => []
  | op :: ops' => match op_step op o with
                  | Some o' => obs_after op o' :: ops_run ops' o'
                  | None => [ObsPanic]
                  end
  end.

Definition obs_eqb (a b : c06_obs) : bool :=
  match a, b with
  | ObsPanic, ObsPanic => true
  | ObsState t cs c sk e, ObsState t' cs' c' sk' e' =>
      (t =? t')%Z && (cs =? cs')%Z && (c =? c')%Z && row_eqb sk sk' && (e =? e')%Z
  | _, _ => false
  end.

(* (b) AggregateExec: one input, several aggregates over one nullable BIGINT argument, several runs *)
Definition agg_row (aggs : list agg_fn) (g : row * list value) : res row :=
  vs <- mapM (fun fn => agg_apply fn (snd g)) aggs;; Ok (fst g ++ vs).
Definition c06_ref (aggs : list agg_fn) (rows : list (row * value)) : res rel :=
  mapM (agg_row aggs) (group_pairs rows).
Definition c06_ref_sets (aggs : list agg_fn) (ms : list (list bool)) (rows : list (row * value)) : res rel :=
  mapM (agg_row aggs) (grouping_sets_groups ms rows).

(* the output batches of the model of the ordered single-stage stream (empty emissions are not output batches) *)
Definition stream_model (aggs : list agg_fn) (o : gord) (bs : nat) (batches : list (list (row * value)))
  : option (list (res rel)) :=
  let n := length (concat batches) in
  match ot_run bs (stream_schedule batches (S n)) (OTab [] o) with
  | Some (outs, _) =>
      Some (map (fun gs : groups value =>
                   mapM (fun g : row * list value =>
                           vs <- mapM (fun fn => agg_apply fn (snd g)) aggs;; Ok (fst g ++ vs)) gs)
                (filter (fun gs => match gs with [] => false | _ => true end) outs))
  | None => None
  end.

Definition res_rel_eqb (a : res rel) (b : rel) : bool :=
  match a with Ok r => list_eqb row_eqb r b | Err _ => false end.
Fixpoint outs_eqb (a : list (res rel)) (b : list rel) : bool :=
  match a, b with
  | [], [] => true
  | x :: a', y :: b' => res_rel_eqb x y && outs_eqb a' b'
  | _, _ => false
  end.

Inductive c06_case :=
| C06Ord (full : bool) (idx : list Z) (ops : list c06_op) (obs : list c06_obs)
| C06Agg (aggs : list agg_fn) (sets : list (list bool)) (keys : list row) (vals : list value)
         (runs : list (option rel))
| C06Stream (aggs : list agg_fn) (full : bool) (idx : list Z) (bs : Z) (batches : list (list (row * value)))
            (obs : list rel).

Definition c06_check (c : c06_case) : bool :=
  match c with
  | C06Ord full idx ops obs =>
      list_eqb obs_eqb (ops_run ops (ord_start full (map Z.to_nat idx))) obs
  | C06Agg aggs sets keys vals runs =>
      let rows := combine keys vals in
      match (match sets with [] => c06_ref aggs rows | _ => c06_ref_sets aggs sets rows end) with
      | Ok R => forallb (fun o => match o with Some r => bag_eqb r R | None => false end) runs
      | Err _ => false
      end
  | C06Stream aggs full idx bs batches obs =>
      let o := ord_start full (map Z.to_nat idx) in
      clusteredb (map (fun p : row * value => ord_sk full (map Z.to_nat idx) (fst p)) (concat batches)) &&
      match stream_model aggs o (Z.to_nat bs) batches with
      | Some outs => outs_eqb outs obs
      | None => false
      end
  end.
