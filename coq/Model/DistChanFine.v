(* C15 -- fine-grained (gate-access granularity) executable model of distributor_channels.rs, for bounded exhaustive
   exploration (a TEST, not a theorem).  Threads are tasks running small programs of blocking operations; an operation
   is split into micro-steps exactly where the Rust code touches state that is shared across channels or not protected
   by the channel mutex:
     - Channel::n_senders            (atomic, touched outside the channel mutex by DistributionSender::drop / clone)
     - Gate::empty_channels          (atomic: load, fetch_add, fetch_sub)
     - Gate::send_wakers             (own mutex; a locked region together with its single re-check load of
                                      empty_channels is one micro-step)
   The channel mutex is held from the first micro-step of SendFuture::poll / RecvFuture::poll / DistributionReceiver::drop
   / the last-sender part of DistributionSender::drop to their last one (flag [flock]); acquiring it is merged with the
   next shared access (acquire is a right-mover).  A task whose poll returned Pending parks with its waker (= its thread
   id) registered and becomes runnable again when that waker is woken (tokio semantics: a wake during the poll is kept).
   Wakes are issued after the locks are released, as in the Rust code; issuing them in the releasing micro-step is
   equivalent because a wake only sets the target's flag. *)
From DF Require Import Base.Prelude Model.DistChan.
Open Scope Z_scope.

Record fchan := mkF { fdata : option (list Z); fns : nat; frwk : option (list nat); flock : bool }.

Inductive pop :=
| PSend (c : nat) (x : Z)      (* send(x).await *)
| PRecv (c : nat)              (* recv().await once *)
| PRecvAll (c : nat)           (* while let Some(_) = recv().await {} *)
| PClone (c : nat)
| PDropS (c : nat)
| PDropR (c : nat).

Definition pop_chan (o : pop) : nat :=
  match o with PSend c _ | PRecv c | PRecvAll c | PClone c | PDropS c | PDropR c => c end.

Inductive pcs := Idle | Parked | AtS1 | AtS2 | AtS3 | AtR1 | AtD1 | AtD2 | AtQ2 | AtQ2b | AtQ3.

Record thread := mkT { prog : list pop; pc : pcs; wflag : bool }.

Record fstate := mkFS {
  fch : list fchan;
  fempty : Z;
  fswk : option (list (nat * nat));       (* (waker = thread id, channel) *)
  thr : list thread;
  slog : list (nat * Z);                  (* (channel, value) pushed, most recent first *)
  rlog : list (nat * Z);                  (* (channel, value) popped, most recent first *)
  errs : list (nat * Z);                  (* sends that returned Err *)
  bad : bool                              (* an internal expect fired / counter underflow *)
}.

Definition set_ch (c : nat) (ch : fchan) (st : fstate) : fstate :=
  mkFS (set_nth c ch (fch st)) (fempty st) (fswk st) (thr st) (slog st) (rlog st) (errs st) (bad st).
Definition set_gate (e : Z) (sw : option (list (nat * nat))) (st : fstate) : fstate :=
  mkFS (fch st) e sw (thr st) (slog st) (rlog st) (errs st) (bad st || (e <? 0)).
Definition set_thr (t : nat) (th : thread) (st : fstate) : fstate :=
  mkFS (fch st) (fempty st) (fswk st) (set_nth t th (thr st)) (slog st) (rlog st) (errs st) (bad st).
Definition set_bad (st : fstate) : fstate :=
  mkFS (fch st) (fempty st) (fswk st) (thr st) (slog st) (rlog st) (errs st) true.
Definition log_send (c : nat) (x : Z) (st : fstate) : fstate :=
  mkFS (fch st) (fempty st) (fswk st) (thr st) ((c, x) :: slog st) (rlog st) (errs st) (bad st).
Definition log_recv (c : nat) (x : Z) (st : fstate) : fstate :=
  mkFS (fch st) (fempty st) (fswk st) (thr st) (slog st) ((c, x) :: rlog st) (errs st) (bad st).
Definition log_err (c : nat) (x : Z) (st : fstate) : fstate :=
  mkFS (fch st) (fempty st) (fswk st) (thr st) (slog st) (rlog st) ((c, x) :: errs st) (bad st).

Definition nmem (n : nat) (l : list nat) : bool := existsb (Nat.eqb n) l.
Fixpoint mapi_from {A B} (f : nat -> A -> B) (i : nat) (l : list A) : list B :=
  match l with [] => [] | x :: r => f i x :: mapi_from f (S i) r end.
(* waker.wake(): the task is (re)scheduled *)
Definition wake (ids : list nat) (st : fstate) : fstate :=
  mkFS (fch st) (fempty st) (fswk st)
       (mapi_from (fun i th => if nmem i ids then mkT (prog th) (pc th) true else th) O (thr st))
       (slog st) (rlog st) (errs st) (bad st).

(* the current operation is complete *)
Definition finish (t : nat) (th : thread) (keep : bool) (st : fstate) : fstate :=
  set_thr t (mkT (if keep then prog th else tl (prog th)) Idle (wflag th)) st.
Definition goto (t : nat) (th : thread) (p : pcs) (st : fstate) : fstate :=
  set_thr t (mkT (prog th) p (wflag th)) st.

Definition is_recvall (o : pop) : bool := match o with PRecvAll _ => true | _ => false end.

(* take recv_wakers of a live channel, release the channel mutex, wake *)
Definition take_rwk_unlock (c : nat) (ch : fchan) (close : bool) (st : fstate) : fstate :=
  match frwk ch with
  | None => set_bad st
  | Some rl => wake rl (set_ch c (mkF (fdata ch) (fns ch) (if close then None else Some []) false) st)
  end.

(* the double-check of Gate::decr_empty_channels under the send_wakers lock *)
Definition double_check (st : fstate) : fstate :=
  if (fempty st =? 0) && negb (is_some (fswk st)) then set_gate (fempty st) (Some []) st else st.

(* one micro-step of thread t; None = not enabled *)
Definition tstep (t : nat) (st : fstate) : option fstate :=
  match nth_error (thr st) t with
  | None => None
  | Some th0 =>
    match prog th0 with
    | [] => None
    | o :: _ =>
      let c := pop_chan o in
      match nth_error (fch st) c with
      | None => None
      | Some ch =>
        let starting := match pc th0 with Idle => true | Parked => wflag th0 | _ => false end in
        if starting then
          let th := mkT (prog th0) Idle false in       (* the notification is consumed by the poll *)
          let st := set_thr t th st in
          match o with
          | PSend _ x =>
            if flock ch then None else
            match fdata ch with
            | None => Some (finish t th false (log_err c x st))
            | Some _ =>
              let st1 := set_ch c (mkF (fdata ch) (fns ch) (frwk ch) true) st in
              Some (goto t th (if fempty st =? 0 then AtS1 else AtS2) st1)
            end
          | PRecv _ | PRecvAll _ =>
            if flock ch then None else
            match fdata ch with
            | None => Some (set_bad st)
            | Some [] =>
              match frwk ch with
              | Some rl => Some (goto t th Parked (set_ch c (mkF (Some []) (fns ch) (Some (rl ++ [t])) false) st))
              | None => Some (finish t th false st)
              end
            | Some (x :: q') =>
              let st1 := log_recv c x st in
              if is_nil q' && is_some (frwk ch) then
                let old := fempty st in
                let st2 := set_gate (old + 1) (fswk st) st1 in
                if old =? 0
                then Some (goto t th AtR1 (set_ch c (mkF (Some q') (fns ch) (frwk ch) true) st2))
                else Some (finish t th (is_recvall o) (set_ch c (mkF (Some q') (fns ch) (frwk ch) false) st2))
              else Some (finish t th (is_recvall o) (set_ch c (mkF (Some q') (fns ch) (frwk ch) false) st1))
            end
          | PClone _ => Some (finish t th false (set_ch c (mkF (fdata ch) (S (fns ch)) (frwk ch) (flock ch)) st))
          | PDropS _ =>
            match fns ch with
            | O => Some (set_bad st)
            | S O => Some (goto t th AtD1 (set_ch c (mkF (fdata ch) O (frwk ch) (flock ch)) st))
            | S (S k) => Some (finish t th false (set_ch c (mkF (fdata ch) (S k) (frwk ch) (flock ch)) st))
            end
          | PDropR _ =>
            if flock ch then None else
            match fdata ch with
            | None => Some (set_bad st)
            | Some q =>
              let st1 := set_ch c (mkF None (fns ch) (frwk ch) true) st in
              Some (goto t th (if is_nil q && negb (fns ch =? 0)%nat then AtQ2 else AtQ3) st1)
            end
          end
        else
          let th := th0 in
          match pc th0, o with
          | AtS1, PSend _ _ =>
            match fswk st with
            | Some l => Some (goto t th Parked (set_ch c (mkF (fdata ch) (fns ch) (frwk ch) false)
                                                       (set_gate (fempty st) (Some (l ++ [(t, c)])) st)))
            | None => Some (goto t th AtS2 st)
            end
          | AtS2, PSend _ x =>
            match fdata ch with
            | None => Some (set_bad st)
            | Some q =>
              let ch1 := mkF (Some (q ++ [x])) (fns ch) (frwk ch) true in
              let st1 := log_send c x (set_ch c ch1 st) in
              if is_nil q then
                let old := fempty st in
                let st2 := set_gate (old - 1) (fswk st) st1 in
                if old =? 1 then Some (goto t th AtS3 st2)
                else Some (finish t th false (take_rwk_unlock c ch1 false st2))
              else Some (finish t th false (set_ch c (mkF (Some (q ++ [x])) (fns ch) (frwk ch) false) st1))
            end
          | AtS3, PSend _ _ => Some (finish t th false (take_rwk_unlock c ch false (double_check st)))
          | AtR1, (PRecv _ | PRecvAll _) =>
            let st0 := set_ch c (mkF (fdata ch) (fns ch) (frwk ch) false) st in
            if fempty st >? 0
            then Some (finish t th (is_recvall o)
                         (wake (map fst (match fswk st with Some l => l | None => [] end)) (set_gate (fempty st) None st0)))
            else Some (finish t th (is_recvall o) st0)
          | AtD1, PDropS _ =>
            if flock ch then None else
            let ch1 := mkF (fdata ch) (fns ch) (frwk ch) true in
            match fdata ch with
            | Some [] =>
              let old := fempty st in
              let st2 := set_gate (old - 1) (fswk st) (set_ch c ch1 st) in
              if old =? 1 then Some (goto t th AtD2 st2)
              else Some (finish t th false (take_rwk_unlock c ch1 true st2))
            | _ => Some (finish t th false (take_rwk_unlock c ch1 true st))
            end
          | AtD2, PDropS _ => Some (finish t th false (take_rwk_unlock c ch true (double_check st)))
          | AtQ2, PDropR _ =>
            let old := fempty st in
            Some (goto t th (if old =? 1 then AtQ2b else AtQ3) (set_gate (old - 1) (fswk st) st))
          | AtQ2b, PDropR _ => Some (goto t th AtQ3 (double_check st))
          | AtQ3, PDropR _ =>
            let st0 := set_ch c (mkF (fdata ch) (fns ch) (frwk ch) false) st in
            match fswk st with
            | Some l =>
              Some (finish t th false
                      (wake (map fst (filter (fun p => (snd p =? c)%nat) l))
                            (set_gate (fempty st) (Some (filter (fun p => negb (snd p =? c)%nat) l)) st0)))
            | None => Some (finish t th false st0)
            end
          | _, _ => None
          end
      end
    end
  end.

Fixpoint frun (sched : list nat) (st : fstate) : option fstate :=
  match sched with
  | [] => Some st
  | t :: r => match tstep t st with Some st' => frun r st' | None => None end
  end.

(* channels(n); [handles] = number of sender handles of each channel when the tasks start (1 + clones made before) *)
Definition finit (handles : list nat) (progs : list (list pop)) : fstate :=
  mkFS (map (fun k => mkF (Some []) k (Some []) false) handles) (Z.of_nat (length handles)) None
       (map (fun p => mkT p Idle false) progs) [] [] [] false.

Definition enabled (st : fstate) : list nat :=
  filter (fun t => is_some (tstep t st)) (seq 0 (length (thr st))).

(* ---------------------------------------------------------------- verdicts at a terminal state *)
Definition f_open_empty (ch : fchan) : bool := match fdata ch with Some [] => is_some (frwk ch) | _ => false end.
Definition f_count (st : fstate) : Z := fold_right (fun ch a => (if f_open_empty ch then 1 else 0) + a) 0 (fch st).
Definition of_chan (c : nat) (l : list (nat * Z)) : list Z :=
  rev (map snd (filter (fun p => (fst p =? c)%nat) l)).
Fixpoint prefix_of (a b : list Z) : bool :=
  match a, b with
  | [], _ => true
  | x :: a', y :: b' => (x =? y) && prefix_of a' b'
  | _, [] => false
  end.
(* nothing lost / duplicated / reordered *)
Definition fifo_ok (st : fstate) : bool :=
  forallb (fun c =>
    match nth_error (fch st) c with
    | Some ch => match fdata ch with
                 | Some q => zlist_eqb (of_chan c (rlog st) ++ q) (of_chan c (slog st))
                 | None => prefix_of (of_chan c (rlog st)) (of_chan c (slog st))
                 end
    | None => false
    end) (seq 0 (length (fch st))).
Definition all_done (st : fstate) : bool := forallb (fun th => is_nil (prog th)) (thr st).
(* the counter is never too LOW (that would block senders for ever) and the waker list exists iff it is 0 *)
Definition gate_safe (st : fstate) : bool :=
  (f_count st <=? fempty st) && Bool.eqb (is_some (fswk st)) (fempty st =? 0).
Definition gate_tight (st : fstate) : bool := fempty st =? f_count st.

(* (complete runs, stuck = deadlock or lost wake-up, unsafe, loose = counter too high at the end) *)
Definition verdict := (Z * Z * Z * Z)%type.
Definition vadd (a b : verdict) : verdict :=
  match a, b with (a1, a2, a3, a4), (b1, b2, b3, b4) => (a1 + b1, a2 + b2, a3 + b3, a4 + b4) end.
Definition terminal (st : fstate) : verdict :=
  (1, if all_done st then 0 else 1,
      if negb (bad st) && fifo_ok st && gate_safe st then 0 else 1,
      if gate_tight st then 0 else 1).

(* all schedules with at most [pre] preemptions (switching away from a thread that could have continued) *)
Fixpoint explore (fuel pre : nat) (last : option nat) (st : fstate) : verdict :=
  match fuel with
  | O => (1, 1, 0, 0)
  | S f =>
    if bad st then (1, 0, 1, 0) else
    let en := enabled st in
    match en with
    | [] => terminal st
    | _ =>
      fold_right (fun t acc =>
        let preempt := match last with Some l => nmem l en && negb (l =? t)%nat | None => false end in
        match tstep t st with
        | None => acc
        | Some st' =>
          if preempt then match pre with O => acc | S p => vadd (explore f p (Some t) st') acc end
          else vadd (explore f pre (Some t) st') acc
        end) (0, 0, 0, 0) en
    end
  end.

Definition explore_cfg (pre : nat) (cfg : list nat * list (list pop)) : verdict :=
  explore 400 pre None (finit (fst cfg) (snd cfg)).

(* configurations: producers send and drop, consumers drain (or stop early and drop) *)
Definition suite_small : list (list nat * list (list pop)) :=
  [ (* one channel, gate closes after the first value *)
    ([1%nat], [[PSend 0 1; PSend 0 2; PSend 0 3; PDropS 0]; [PRecvAll 0; PDropR 0]]);
    (* two channels, two producers, two consumers *)
    ([1; 1]%nat, [[PSend 0 1; PSend 0 2; PDropS 0]; [PSend 1 11; PSend 1 12; PDropS 1]; [PRecvAll 0; PDropR 0]; [PRecvAll 1; PDropR 1]]);
    (* one producer routing to two channels, consumers drain *)
    ([1; 1]%nat, [[PSend 0 1; PSend 1 11; PSend 0 2; PSend 1 12; PDropS 0; PDropS 1]; [PRecvAll 0; PDropR 0]; [PRecvAll 1; PDropR 1]]);
    (* a consumer stops early and drops its receiver while the producer may be blocked on it *)
    ([1; 1]%nat, [[PSend 0 1; PSend 0 2; PSend 0 3; PDropS 0]; [PSend 1 11; PSend 1 12; PDropS 1]; [PRecv 0; PDropR 0]; [PRecvAll 1; PDropR 1]])
  ].
Definition suite_big : list (list nat * list (list pop)) :=
  [ (* two sender handles on channel 0 (one of them cloned again by its task) *)
    ([2; 1]%nat, [[PClone 0; PSend 0 1; PDropS 0; PSend 0 2; PDropS 0]; [PSend 0 5; PDropS 0]; [PSend 1 11; PDropS 1]; [PRecvAll 0; PDropR 0]; [PRecvAll 1; PDropR 1]]);
    (* three channels *)
    ([1; 1; 1]%nat, [[PSend 0 1; PSend 1 11; PSend 2 21; PSend 0 2; PDropS 0; PDropS 1; PDropS 2]; [PRecvAll 0; PDropR 0]; [PRecvAll 1; PDropR 1]; [PRecvAll 2; PDropR 2]])
  ].
(* configurations in which the last sender and the receiver of an EMPTY channel may be dropped concurrently *)
Definition suite_drop_race : list (list nat * list (list pop)) :=
  [ ([1; 1]%nat, [[PDropS 0]; [PDropR 0]; [PSend 1 11; PSend 1 12; PDropS 1]; [PRecvAll 1; PDropR 1]]);
    ([1; 1]%nat, [[PSend 0 1; PDropS 0]; [PRecv 0; PDropR 0]; [PSend 1 11; PDropS 1]; [PRecvAll 1; PDropR 1]]) ].

Definition explore_list (pre : nat) (l : list (list nat * list (list pop))) : verdict :=
  fold_right (fun cfg a => vadd (explore_cfg pre cfg) a) (0, 0, 0, 0) l.

(* the concurrent-drop schedule: sender decrements n_senders (0), receiver takes the lock, sees n_senders = 0 and
   does not decrement empty_channels, sender then sees data = None and does not decrement either *)
Definition leak_cfg : list nat * list (list pop) := ([1%nat], [[PDropS 0]; [PDropR 0]]).
Definition leak_sched : list nat := [0; 1; 1; 0]%nat.
