(* C10 -- model of datafusion/physical-plan/src/repartition/mod.rs (BatchPartitioner and the exchange around it).
   Definitions only; the proofs are in Proofs/RepartitionProofs.v.

   What is modelled, following the code:
   * compare_rows (common/src/utils/mod.rs): zip of the two rows and the sort options, per column
     (lhs NULL?, rhs NULL?, nulls_first) arms, operands swapped when descending, NULL/NULL = continue.
   * range_partition_id: the low/high/mid loop with its Ordering arms (Less => high = mid, Equal|Greater => low = mid+1).
   * partition_range_indices / StrengthReducedU64::partition_indices: row i is pushed on indices[partition of row i];
     the hash partition of a row is computed by the GENERATED kernel of C11 (Gen/StrengthReduced.v).
   * partition_grouped_take: non-empty index vectors are concatenated (remembering (partition, start, len)),
     one take, then slice(start, len) of the reordered batch.
   * round robin: next_idx starts at (input_partition * num_partitions) / num_input_partitions, one whole batch per step,
     next_idx := (next_idx + 1) % num_partitions.
   * RepartitionExec: one partitioner per input task (pull_from_input: empty batches are skipped before the
     partitioner sees them), per-output queues; the queues (distributor channels, spill pool, coalescer) are
     taken as exactly-once FIFOs (C15 / C16 own them); events = "input task i handles its next batch" and
     "output p is dropped", in any order. *)
From Coq Require Import List ZArith Bool Arith Lia.
From DF Require Import Base.Prelude Base.Bits Gen.StrengthReduced.
Import ListNotations.
Close Scope Z_scope.
Open Scope nat_scope.

(* ------------------------------------------------------------------ values, cells, the comparator *)
(* A non-NULL value is a list of integers compared lexicographically (a proper prefix is smaller):
   Int64 v is [v]; Utf8 s is the list of its UTF-8 bytes (Rust compares str bytewise). *)
Definition val := list Z.
Fixpoint lexZ (a b : val) : comparison :=
  match a, b with
  | [], [] => Eq
  | [], _ :: _ => Lt
  | _ :: _, [] => Gt
  | x :: a', y :: b' => match Z.compare x y with Eq => lexZ a' b' | c => c end
  end.

Definition cell := option val.              (* None = NULL *)
Definition key := list cell.
Record sopt := { s_desc : bool; s_nulls_first : bool }.     (* arrow SortOptions *)

Fixpoint compare_rows (x y : key) (os : list sopt) : comparison :=
  match x, y, os with
  | a :: x', b :: y', o :: os' =>
      match a, b with
      | None, None => compare_rows x' y' os'                        (* (true, true, _) => continue *)
      | None, Some _ => if s_nulls_first o then Lt else Gt          (* (true,false,true) Less / (true,false,false) Greater *)
      | Some _, None => if s_nulls_first o then Gt else Lt          (* (false,true,true) Greater / (false,true,false) Less *)
      | Some u, Some v =>
          match (if s_desc o then lexZ v u else lexZ u v) with
          | Eq => compare_rows x' y' os'
          | c => c
          end
      end
  | _, _, _ => Eq                                                     (* zip ends with the shortest *)
  end.

(* validate_range_split_points: every split point has the ordering's width; adjacent ones strictly increasing *)
Fixpoint adjacent_lt (sps : list key) (os : list sopt) : bool :=
  match sps with
  | a :: ((b :: _) as r) => match compare_rows a b os with Lt => adjacent_lt r os | _ => false end
  | _ => true
  end.
Definition valid_splits (sps : list key) (os : list sopt) : bool :=
  forallb (fun s => length s =? length os) sps && adjacent_lt sps os.

(* ------------------------------------------------------------------ range_partition_id *)
(* The while loop; every iteration strictly shrinks high - low, so `high - low` iterations of fuel always suffice
   (Proofs: bsearch_fuel_irrelevant) -- the fuel-exhausted arm is never the answer. *)
Fixpoint bsearch (fuel : nat) (k : key) (sps : list key) (os : list sopt) (low high : nat) : nat :=
  match fuel with
  | O => low
  | S f =>
      if low <? high then
        let mid := low + (high - low) / 2 in
        match compare_rows k (nth mid sps []) os with
        | Lt => bsearch f k sps os low mid
        | _ => bsearch f k sps os (mid + 1) high
        end
      else low
  end.
Definition range_partition_id (k : key) (sps : list key) (os : list sopt) : nat :=
  bsearch (length sps) k sps os 0 (length sps).

(* specification: the number of split points that are <= the key *)
Definition sp_le_key (os : list sopt) (k s : key) : bool :=
  match compare_rows k s os with Lt => false | _ => true end.
Definition count_le (k : key) (sps : list key) (os : list sopt) : nat := length (filter (sp_le_key os k) sps).

(* ------------------------------------------------------------------ index vectors *)
(* indices[p].push(i); an out-of-range p panics in Rust -- the theorems carry `p < n`, which is proved for both routers *)
Fixpoint push_at (p i : nat) (ind : list (list nat)) : list (list nat) :=
  match ind, p with
  | [], _ => []
  | v :: r, O => (v ++ [i]) :: r
  | v :: r, S p' => v :: push_at p' i r
  end.
Fixpoint route_from (i : nat) (parts : list nat) (ind : list (list nat)) : list (list nat) :=
  match parts with
  | [] => ind
  | p :: r => route_from (S i) r (push_at p i ind)
  end.
(* parts = the partition of row 0, 1, ...; result = indices[0..n) *)
Definition route_indices (n : nat) (parts : list nat) : list (list nat) := route_from 0 parts (repeat [] n).

(* specification of one index vector *)
Definition rows_of_part (parts : list nat) (n p : nat) : list nat :=
  filter (fun i => nth i parts n =? p) (seq 0 (length parts)).

(* hash router: StrengthReducedU64::new(n).partition_indices(hash_buffer, indices), kernel = C11's generated code;
   None = the kernel left its machine types (never, by C11) *)
Fixpoint hash_parts (n : Z) (hashes : list Z) : option (list nat) :=
  match hashes with
  | [] => Some []
  | h :: r =>
      match partition_of n h, hash_parts n r with
      | Some p, Some ps => Some (Z.to_nat p :: ps)
      | _, _ => None
      end
  end.
Definition hash_indices (n : nat) (hashes : list Z) : option (list (list nat)) :=
  option_map (route_indices n) (hash_parts (Z.of_nat n) hashes).

(* range router: partition_range_indices; indices has split_points.len() + 1 vectors *)
Definition range_parts (os : list sopt) (sps : list key) (keys : list key) : list nat :=
  map (fun k => range_partition_id k sps os) keys.
Definition range_indices (os : list sopt) (sps : list key) (keys : list key) : list (list nat) :=
  route_indices (S (length sps)) (range_parts os sps keys).

(* ------------------------------------------------------------------ partition_grouped_take *)
Definition gt_acc := (list (nat * nat * nat) * list nat)%type.      (* partition_ranges, reordered_indices *)
Definition gt_step (acc : gt_acc) (pp : nat * list nat) : gt_acc :=
  let '(rg, ro) := acc in
  let '(p, pi) := pp in
  match pi with
  | [] => acc                                                         (* if p_indices.is_empty() { continue } *)
  | _ => (rg ++ [(p, length ro, length pi)], ro ++ pi)
  end.
Definition gt_pass1 (ind : list (list nat)) : gt_acc :=
  fold_left gt_step (combine (seq 0 (length ind)) ind) ([], []).
Definition grouped_take {R} (d : R) (batch : list R) (ind : list (list nat)) : list (nat * list R) :=
  let '(rg, ro) := gt_pass1 ind in
  match ro with
  | [] => []                                                          (* reordered_indices.is_empty() => vec![] *)
  | _ =>
      let taken := map (fun i => nth i batch d) ro in                (* take_arrays(batch, reordered_indices) *)
      map (fun r => let '(p, start, len) := r in (p, firstn len (skipn start taken))) rg   (* slice(start, len) *)
  end.

(* specification: for each non-empty index vector, the rows at those indices *)
Definition take_spec {R} (d : R) (batch : list R) (ind : list (list nat)) : list (nat * list R) :=
  flat_map (fun pp : nat * list nat =>
              match snd pp with [] => [] | _ => [(fst pp, map (fun i => nth i batch d) (snd pp))] end)
           (combine (seq 0 (length ind)) ind).

(* the sub-sequence of batch rows whose partition is p, in input order *)
Fixpoint sub_rows {R} (parts : list nat) (batch : list R) (p : nat) : list R :=
  match parts, batch with
  | q :: parts', r :: batch' => if q =? p then r :: sub_rows parts' batch' p else sub_rows parts' batch' p
  | _, _ => []
  end.

(* ------------------------------------------------------------------ round robin *)
Definition rr_start (input_partition num_partitions num_input_partitions : Z) : Z :=
  (input_partition * num_partitions / num_input_partitions)%Z.
Definition rr_advance (num_partitions next_idx : Z) : Z := ((next_idx + 1) mod num_partitions)%Z.
(* the partitions of k successive batches *)
Fixpoint rr_targets (n next : Z) (k : nat) : list Z :=
  match k with
  | O => []
  | S k' => next :: rr_targets n (rr_advance n next) k'
  end.

(* ------------------------------------------------------------------ the partitioner as a state machine on batches *)
(* rows as the harness sees them: key cells, the row hash (create_hashes with REPARTITION_RANDOM_STATE), a row id *)
Record xrow := { xkey : key; xhash : Z; xid : Z }.
Definition xrow_d : xrow := {| xkey := []; xhash := 0%Z; xid := (-1)%Z |}.

Inductive scheme :=
  | SHash (n : nat)
  | SRoundRobin (n : Z)
  | SRange (os : list sopt) (sps : list key).

Definition scheme_outputs (s : scheme) : nat :=
  match s with SHash n => n | SRoundRobin n => Z.to_nat n | SRange _ sps => S (length sps) end.

(* partition_iter: state = next_idx (only round robin uses it); None = kernel failure *)
Definition pstep (s : scheme) (next : Z) (b : list xrow) : option (Z * list (nat * list xrow)) :=
  match s with
  | SRoundRobin n => Some (rr_advance n next, [(Z.to_nat next, b)])
  | SHash n =>
      match hash_indices n (map xhash b) with
      | Some ind => Some (next, grouped_take xrow_d b ind)
      | None => None
      end
  | SRange os sps =>
      match sps with
      | [] => Some (next, [(0, b)])                                   (* split_points.is_empty(): whole batch to 0 *)
      | _ => Some (next, grouped_take xrow_d b (range_indices os sps (map xkey b)))
      end
  end.

(* BatchPartitioner::try_new start state; RepartitionExec passes input_partition = 0 in preserve_order mode *)
Definition pinit (s : scheme) (preserve_order : bool) (i m : Z) : Z :=
  match s with
  | SRoundRobin n => rr_start (if preserve_order then 0%Z else i) n m
  | _ => 0%Z
  end.

(* rows of partition p among the (partition, rows) pairs of one partition_iter call *)
Definition rows_for {R} (p : nat) (outs : list (nat * list R)) : list R :=
  flat_map (fun o => if fst o =? p then snd o else []) outs.

(* pull_from_input over a sequence of batches (empty batches skipped): rows sent towards output p, in order *)
Fixpoint routed (s : scheme) (next : Z) (batches : list (list xrow)) (p : nat) : option (list xrow) :=
  match batches with
  | [] => Some []
  | [] :: r => routed s next r p
  | b :: r =>
      match pstep s next b with
      | Some (next', outs) =>
          match routed s next' r p with
          | Some rest => Some (rows_for p outs ++ rest)
          | None => None
          end
      | None => None
      end
  end.

(* ------------------------------------------------------------------ the abstract exchange *)
(* Generic in the row type, the partitioner state and its step function. *)
Section Exchange.
  Variable R St : Type.
  Variable step : St -> list R -> St * list (nat * list R).

  Inductive ev := Step (i : nat) | Drop (p : nat).

  Record xst := {
    x_pos : nat -> nat;                (* batches input task i has pulled *)
    x_ps : nat -> St;                  (* partitioner state of input task i *)
    x_q : nat -> list (nat * R);       (* everything delivered to output p so far, tagged with the input it came from *)
    x_drop : nat -> bool               (* output p was dropped (its receiver hung up) *)
  }.

  Definition upd {X} (f : nat -> X) (i : nat) (v : X) : nat -> X := fun j => if j =? i then v else f j.

  Definition xinit (s0 : nat -> St) : xst :=
    {| x_pos := fun _ => 0; x_ps := s0; x_q := fun _ => []; x_drop := fun _ => false |}.

  Definition xstep (inputs : nat -> list (list R)) (st : xst) (e : ev) : xst :=
    match e with
    | Drop p =>
        {| x_pos := x_pos st; x_ps := x_ps st; x_q := upd (x_q st) p []; x_drop := upd (x_drop st) p true |}
    | Step i =>
        match nth_error (inputs i) (x_pos st i) with
        | None => st                                                  (* input exhausted: the task has ended *)
        | Some [] =>                                                  (* batch.num_rows() == 0 => continue *)
            {| x_pos := upd (x_pos st) i (S (x_pos st i)); x_ps := x_ps st; x_q := x_q st; x_drop := x_drop st |}
        | Some b =>
            let '(s', outs) := step (x_ps st i) b in
            {| x_pos := upd (x_pos st) i (S (x_pos st i));
               x_ps := upd (x_ps st) i s';
               x_q := fun p => if x_drop st p then x_q st p          (* send failed / channel removed: rows discarded *)
                               else x_q st p ++ map (fun r => (i, r)) (rows_for p outs);
               x_drop := x_drop st |}
        end
    end.

  Definition xrun (inputs : nat -> list (list R)) (s0 : nat -> St) (sched : list ev) : xst :=
    fold_left (xstep inputs) sched (xinit s0).

  (* specification side: the partitioner of one input run over a prefix of its batches *)
  Fixpoint prun (s : St) (batches : list (list R)) (p : nat) : St * list R :=
    match batches with
    | [] => (s, [])
    | [] :: r => prun s r p
    | b :: r =>
        let '(s', outs) := step s b in
        let '(s'', rest) := prun s' r p in
        (s'', rows_for p outs ++ rest)
    end.

  Definition from_input (i : nat) (q : list (nat * R)) : list R :=
    map snd (filter (fun e => fst e =? i) q).
  Definition steps_of (i : nat) (sched : list ev) : nat :=
    length (filter (fun e => match e with Step j => j =? i | Drop _ => false end) sched).
  Definition never_dropped (p : nat) (sched : list ev) : Prop :=
    forall e, In e sched -> e <> Drop p.
End Exchange.
Arguments x_pos {R St}. Arguments x_ps {R St}. Arguments x_q {R St}. Arguments x_drop {R St}.

(* ------------------------------------------------------------------ correspondence cases *)
Definition zpair_eqb (a b : Z * list Z) : bool := Z.eqb (fst a) (fst b) && zlist_eqb (snd a) (snd b).
Definition render_outs (outs : list (nat * list xrow)) : list (Z * list Z) :=
  map (fun o => (Z.of_nat (fst o), map xid (snd o))) outs.

Fixpoint zinsert (x : Z) (l : list Z) : list Z :=
  match l with [] => [x] | y :: r => if (x <=? y)%Z then x :: l else y :: zinsert x r end.
Definition zsort (l : list Z) : list Z := fold_right zinsert [] l.

(* ids of (b) cases: id = input * 2^20 + position in that input *)
Definition id_input (id : Z) : Z := (id / 1048576)%Z.

Fixpoint opt_all {X} (l : list (option X)) : option (list X) :=
  match l with
  | [] => Some []
  | Some x :: r => match opt_all r with Some xs => Some (x :: xs) | None => None end
  | None :: _ => None
  end.

(* one output of an end-to-end run: None = the harness dropped that stream early; Some ids = read to the end *)
Definition exch_output_ok (s : scheme) (preserve : bool) (ordered : bool) (inputs : list (list (list xrow)))
           (p : nat) (obs : option (list Z)) : bool :=
  match obs with
  | None => true
  | Some ids =>
      let m := Z.of_nat (length inputs) in
      match opt_all (map (fun ib : nat * list (list xrow) =>
                            routed s (pinit s preserve (Z.of_nat (fst ib)) m) (snd ib) p)
                         (combine (seq 0 (length inputs)) inputs)) with
      | None => false
      | Some per_input =>
          let expect := map (map xid) per_input in
          if ordered then
            (* per (input, output) pair the exact sequence, and nothing else *)
            forallb (fun ie : nat * list Z =>
                       zlist_eqb (filter (fun id => Z.eqb (id_input id) (Z.of_nat (fst ie))) ids) (snd ie))
                    (combine (seq 0 (length inputs)) expect)
            && (length ids =? length (concat expect))
          else zlist_eqb (zsort ids) (zsort (concat expect))
      end
  end.

Inductive c10_case :=
  (* (a) BatchPartitioner::partition_iter on one batch; rows are identified by their index *)
  | CHash (n : Z) (hashes : list Z) (obs : list (Z * list Z))
  | CRange (os : list sopt) (sps : list key) (keys : list key) (obs : list (Z * list Z))
  (* k successive batches through new_round_robin_partitioner(n, _, i, m): observed partition of each *)
  | CRoundRobin (n i m : Z) (obs : list Z)
  (* (b) RepartitionExec end to end *)
  | CExch (s : scheme) (preserve ordered : bool) (inputs : list (list (list xrow))) (obs : list (option (list Z))).

Definition idx_rows (len : nat) : list xrow :=
  map (fun i => {| xkey := []; xhash := 0%Z; xid := Z.of_nat i |}) (seq 0 len).

Definition c10_check (c : c10_case) : bool :=
  match c with
  | CHash n hashes obs =>
      match hash_indices (Z.to_nat n) hashes with
      | Some ind => list_eqb zpair_eqb (render_outs (grouped_take xrow_d (idx_rows (length hashes)) ind)) obs
      | None => false
      end
  | CRange os sps keys obs =>
      let b := map (fun ik : nat * key => {| xkey := snd ik; xhash := 0%Z; xid := Z.of_nat (fst ik) |})
                   (combine (seq 0 (length keys)) keys) in
      match pstep (SRange os sps) 0%Z b with
      | Some (_, outs) => list_eqb zpair_eqb (render_outs outs) obs
      | None => false
      end
  | CRoundRobin n i m obs => zlist_eqb (rr_targets n (rr_start i n m) (length obs)) obs
  | CExch s preserve ordered inputs obs =>
      (length obs =? scheme_outputs s) &&
      forallb (fun po : nat * option (list Z) => exch_output_ok s preserve ordered inputs (fst po) (snd po))
              (combine (seq 0 (length obs)) obs)
  end.
