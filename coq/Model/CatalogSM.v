(* C49 -- catalog state machine: the DDL handlers of SessionContext
   (datafusion/core/src/execution/context/mod.rs: create_memory_table, create_view, drop_table, drop_view,
    create_catalog_schema, create_catalog, drop_schema, register_table, deregister_table, find_and_deregister),
   the in-memory catalog (datafusion/catalog/src/memory/{catalog,schema}.rs: DashMap name -> provider at each of the
   three levels) and the information_schema views computed from it (datafusion/catalog/src/information_schema.rs:
   make_tables, make_schemata, make_views, make_columns).
   Definitions only. *)
From DF Require Import Base.Prelude.
From Coq Require Import String Ascii.
Open Scope Z_scope.

(* ------------------------------------------------------------------ names *)
Definition txt := string.
Definition teqb (a b : txt) : bool := String.eqb a b.

(* normalize_ident (datafusion/sql/src/utils.rs): quoted => exact text, unquoted => to_ascii_lowercase *)
Definition lower_ascii (a : ascii) : ascii :=
  let n := N_of_ascii a in
  if (N.leb 65 n && N.leb n 90)%bool then ascii_of_N (n + 32) else a.
Fixpoint lower (s : string) : string :=
  match s with
  | EmptyString => EmptyString
  | String a r => String (lower_ascii a) (lower r)
  end.
Record ident := Id { iq : bool; itext : txt }.
Definition norm (i : ident) : txt := if iq i then itext i else lower (itext i).

(* TableReference / SchemaReference after object_name_to_table_reference *)
Inductive tref := Bare (t : ident) | Partial (s t : ident) | Full (c s t : ident).
Inductive sref := SBare (s : ident) | SFull (c s : ident).

Definition default_catalog : txt := "datafusion"%string.
Definition default_schema : txt := "public"%string.
Definition info_schema : txt := "information_schema"%string.
Definition info_table_names : list txt :=
  ["tables"; "views"; "columns"; "df_settings"; "schemata"; "routines"; "parameters"]%string.

(* TableReference::resolve(default_catalog, default_schema) *)
Definition resolve (r : tref) : txt * txt * txt :=
  match r with
  | Bare t => (default_catalog, default_schema, norm t)
  | Partial s t => (default_catalog, norm s, norm t)
  | Full c s t => (norm c, norm s, norm t)
  end.
Definition sresolve (r : sref) : txt * txt :=
  match r with
  | SBare s => (default_catalog, norm s)
  | SFull c s => (norm c, norm s)
  end.

(* ------------------------------------------------------------------ DashMap<String, V> *)
Section AMap.
  Context {V : Type}.
  Definition amap := list (txt * V).
  Fixpoint aget (k : txt) (m : amap) : option V :=
    match m with
    | [] => None
    | (k', v) :: r => if teqb k k' then Some v else aget k r
    end.
  Fixpoint aremove (k : txt) (m : amap) : amap :=
    match m with
    | [] => []
    | (k', v) :: r => if teqb k k' then aremove k r else (k', v) :: aremove k r
    end.
  (* DashMap::insert replaces the previous value of the key *)
  Definition aset (k : txt) (v : V) (m : amap) : amap := (k, v) :: aremove k m.
  Definition akeys (m : amap) : list txt := map fst m.
  Definition ahas (k : txt) (m : amap) : bool := match aget k m with Some _ => true | None => false end.
End AMap.
Arguments amap : clear implicits.

(* ------------------------------------------------------------------ objects and state *)
Inductive kind := KTable | KView.
Definition kind_eqb (a b : kind) : bool :=
  match a, b with KTable, KTable | KView, KView => true | _, _ => false end.

Record col := Col { cname : txt; ctype : txt; cnull : bool }.
Record obj := Obj {
  okind : kind;
  ocols : list col;           (* arrow schema of the provider *)
  orows : list (list Z);      (* what SELECT * returns (the generated objects hold Int64 data only) *)
  odef : option txt           (* TableProvider::get_table_definition *)
}.

Definition schema_t := amap obj.          (* MemorySchemaProvider.tables *)
Definition catalog_t := amap schema_t.    (* MemoryCatalogProvider.schemas *)
Definition state := amap catalog_t.       (* MemoryCatalogProviderList.catalogs *)

(* SessionContext::new(): catalog "datafusion" with the empty schema "public" *)
Definition init_state : state := [(default_catalog, [(default_schema, [])])].

(* ------------------------------------------------------------------ statements *)
Inductive sqlty := TyInt | TyBigint | TyVarchar | TyDouble | TyBool.
Definition arrow_name (t : sqlty) : txt :=
  match t with
  | TyInt => "Int32" | TyBigint => "Int64" | TyVarchar => "Utf8View" | TyDouble => "Float64" | TyBool => "Boolean"
  end%string.

Inductive ddl :=
| CreateTable (name : tref) (cols : list (ident * sqlty)) (if_not_exists or_replace : bool)
    (* CREATE [OR REPLACE] TABLE [IF NOT EXISTS] name (c ty, ...) *)
| CreateTableAs (name : tref) (c : ident) (k : Z) (if_not_exists or_replace : bool)
    (* CREATE [OR REPLACE] TABLE [IF NOT EXISTS] name AS SELECT k AS c *)
| CreateView (name : tref) (c : ident) (k : Z) (or_replace : bool) (text : txt)
    (* text = the statement: CREATE [OR REPLACE] VIEW name AS SELECT k AS c *)
| DropTable (name : tref) (if_exists : bool)
| DropView (name : tref) (if_exists : bool)
| CreateSchema (name : sref) (if_not_exists : bool)
| DropSchema (name : sref) (if_exists cascade : bool)
| CreateCatalog (name : ident) (if_not_exists : bool).

Inductive outcome :=
| Ok
| AlreadyExists     (* "... already exists" *)
| NotFound          (* "... doesn't exist." *)
| NoCatalog         (* "failed to resolve catalog" / "Missing catalog" *)
| NoSchema          (* "failed to resolve schema" *)
| Conflict          (* "'IF NOT EXISTS' cannot coexist with 'REPLACE'" *)
| NotEmpty          (* "Cannot drop schema ... because other tables depend on it" *)
| Unsupported.      (* statement names the virtual schema information_schema: outside the model (see C49.json) *)
Definition outcome_eqb (a b : outcome) : bool :=
  match a, b with
  | Ok, Ok | AlreadyExists, AlreadyExists | NotFound, NotFound | NoCatalog, NoCatalog | NoSchema, NoSchema
  | Conflict, Conflict | NotEmpty, NotEmpty | Unsupported, Unsupported => true
  | _, _ => false
  end.

Definition table_obj (cols : list (ident * sqlty)) : obj :=
  Obj KTable (map (fun ct => Col (norm (fst ct)) (arrow_name (snd ct)) true) cols) [] None.
Definition ctas_obj (c : ident) (k : Z) : obj :=
  Obj KTable [Col (norm c) "Int64"%string false] [[k]] None.
Definition view_obj (c : ident) (k : Z) (text : txt) : obj :=
  Obj KView [Col (norm c) "Int64"%string false] [[k]] (Some text).

(* ------------------------------------------------------------------ the handlers *)
(* SessionContext::table_provider: schema_for_ref then SchemaProvider::table; any error or None = "not there" *)
Definition table_lookup (st : state) (c s n : txt) : option obj :=
  match aget c st with
  | None => None
  | Some cat => match aget s cat with None => None | Some sc => aget n sc end
  end.

(* the mutation of one schema's table map (in the code: in place, inside the Arc'd MemorySchemaProvider) *)
Definition put_schema (st : state) (c : txt) (cat : catalog_t) (s : txt) (sc : schema_t) : state :=
  aset c (aset s sc cat) st.

(* SessionContext::register_table = schema_for_ref(..)? . register_table(name, provider)
   (MemorySchemaProvider::register_table: error if the name exists) *)
Definition register_table (st : state) (c s n : txt) (o : obj) : state * outcome :=
  match aget c st with
  | None => (st, NoCatalog)
  | Some cat =>
    match aget s cat with
    | None => (st, NoSchema)
    | Some sc =>
      match aget n sc with
      | Some _ => (st, AlreadyExists)
      | None => (put_schema st c cat s (aset n o sc), Ok)
      end
    end
  end.

(* SessionContext::deregister_table on a reference whose schema resolves (it is only called after table() succeeded) *)
Definition deregister_table (st : state) (c s n : txt) : state :=
  match aget c st with
  | None => st
  | Some cat =>
    match aget s cat with
    | None => st
    | Some sc => put_schema st c cat s (aremove n sc)
    end
  end.

(* create_memory_table *)
Definition create_memory_table (st : state) (r : tref) (o : obj) (ine orr : bool) : state * outcome :=
  let '(c, s, n) := resolve r in
  match table_lookup st c s n, ine, orr with
  | Some _, true, false => (st, Ok)
  | Some _, false, true => register_table (deregister_table st c s n) c s n o
  | Some _, true, true => (st, Conflict)
  | None, _, _ => register_table st c s n o
  | Some _, false, false => (st, AlreadyExists)
  end.

(* create_view *)
Definition create_view (st : state) (r : tref) (o : obj) (orr : bool) : state * outcome :=
  let '(c, s, n) := resolve r in
  match orr, table_lookup st c s n with
  | true, Some _ => register_table (deregister_table st c s n) c s n o
  | _, None => register_table st c s n o
  | false, Some _ => (st, AlreadyExists)
  end.

(* find_and_deregister: removes the name only if it is bound to a provider of the requested table type *)
Definition find_and_deregister (st : state) (r : tref) (k : kind) : state * bool :=
  let '(c, s, n) := resolve r in
  match aget c st with
  | None => (st, false)
  | Some cat =>
    match aget s cat with
    | None => (st, false)
    | Some sc =>
      match aget n sc with
      | Some o => if kind_eqb (okind o) k then (put_schema st c cat s (aremove n sc), true) else (st, false)
      | None => (st, false)
      end
    end
  end.

(* drop_table / drop_view *)
Definition drop_object (st : state) (r : tref) (k : kind) (ife : bool) : state * outcome :=
  match find_and_deregister st r k with
  | (st', true) => (st', Ok)
  | (_, false) => if ife then (st, Ok) else (st, NotFound)
  end.

(* create_catalog_schema *)
Definition create_schema (st : state) (r : sref) (ine : bool) : state * outcome :=
  let '(c, s) := sresolve r in
  match aget c st with
  | None => (st, NoCatalog)
  | Some cat =>
    match ine, aget s cat with
    | true, Some _ => (st, Ok)
    | _, None => (put_schema st c cat s [], Ok)
    | false, Some _ => (st, AlreadyExists)
    end
  end.

(* create_catalog: a new MemoryCatalogProvider has no schemas at all *)
Definition create_catalog (st : state) (i : ident) (ine : bool) : state * outcome :=
  match ine, aget (norm i) st with
  | true, Some _ => (st, Ok)
  | _, None => (aset (norm i) [] st, Ok)
  | false, Some _ => (st, AlreadyExists)
  end.

(* drop_schema + MemoryCatalogProvider::deregister_schema *)
Definition drop_schema (st : state) (r : sref) (ife cascade : bool) : state * outcome :=
  let '(c, s) := sresolve r in
  match aget c st with
  | None => if ife then (st, Ok) else (st, NotFound)
  | Some cat =>
    match aget s cat with
    | None => if ife then (st, Ok) else (st, NotFound)
    | Some sc =>
      match sc, cascade with
      | [], _ | _ :: _, true => (aset c (aremove s cat) st, Ok)
      | _ :: _, false => (st, NotEmpty)
      end
    end
  end.

(* scope guard: statements that name the virtual schema are not modelled *)
Definition names_info (op : ddl) : bool :=
  match op with
  | CreateTable r _ _ _ | CreateTableAs r _ _ _ _ | CreateView r _ _ _ _ | DropTable r _ | DropView r _ =>
      let '(_, s, _) := resolve r in teqb s info_schema
  | CreateSchema r _ | DropSchema r _ _ => teqb (snd (sresolve r)) info_schema
  | CreateCatalog _ _ => false
  end.

Definition step (st : state) (op : ddl) : state * outcome :=
  if names_info op then (st, Unsupported) else
  match op with
  | CreateTable r cols ine orr => create_memory_table st r (table_obj cols) ine orr
  | CreateTableAs r c k ine orr => create_memory_table st r (ctas_obj c k) ine orr
  | CreateView r c k orr text => create_view st r (view_obj c k text) orr
  | DropTable r ife => drop_object st r KTable ife
  | DropView r ife => drop_object st r KView ife
  | CreateSchema r ine => create_schema st r ine
  | DropSchema r ife cascade => drop_schema st r ife cascade
  | CreateCatalog i ine => create_catalog st i ine
  end.

Definition run (st : state) (h : list ddl) : state := fold_left (fun st op => fst (step st op)) h st.

(* ------------------------------------------------------------------ information_schema *)
Definition is_info (s : txt) : bool := teqb s info_schema.

(* make_tables *)
Definition info_tables (st : state) : list (txt * txt * txt * kind) :=
  flat_map (fun ccat : txt * catalog_t =>
    flat_map (fun ssc : txt * schema_t =>
      if is_info (fst ssc) then []
      else map (fun no : txt * obj => (fst ccat, fst ssc, fst no, okind (snd no))) (snd ssc)) (snd ccat)
    ++ map (fun t => (fst ccat, info_schema, t, KView)) info_table_names) st.

(* make_schemata *)
Definition info_schemata (st : state) : list (txt * txt) :=
  flat_map (fun ccat : txt * catalog_t =>
    flat_map (fun ssc : txt * schema_t => if is_info (fst ssc) then [] else [(fst ccat, fst ssc)]) (snd ccat)) st.

(* make_views: every registered provider is listed, with its definition (None for base tables) *)
Definition info_views (st : state) : list (txt * txt * txt * option txt) :=
  flat_map (fun ccat : txt * catalog_t =>
    flat_map (fun ssc : txt * schema_t =>
      if is_info (fst ssc) then []
      else map (fun no : txt * obj => (fst ccat, fst ssc, fst no, odef (snd no))) (snd ssc)) (snd ccat)) st.

(* make_columns: (catalog, schema, table, column, ordinal_position, is_nullable, data_type) *)
Fixpoint number_cols (i : Z) (cs : list col) : list (txt * Z * bool * txt) :=
  match cs with
  | [] => []
  | c :: r => (cname c, i, cnull c, ctype c) :: number_cols (i + 1) r
  end.
Definition info_columns (st : state) : list (txt * txt * txt * (txt * Z * bool * txt)) :=
  flat_map (fun ccat : txt * catalog_t =>
    flat_map (fun ssc : txt * schema_t =>
      if is_info (fst ssc) then []
      else flat_map (fun no : txt * obj =>
             map (fun ci => (fst ccat, fst ssc, fst no, ci)) (number_cols 0 (ocols (snd no)))) (snd ssc)) (snd ccat)) st.

(* SELECT * FROM r : column names and rows, None = the name does not resolve *)
Definition probe (st : state) (r : tref) : option (list txt * list (list Z)) :=
  let '(c, s, n) := resolve r in
  match table_lookup st c s n with
  | Some o => Some (map cname (ocols o), orows o)
  | None => None
  end.

(* ------------------------------------------------------------------ specification vocabulary *)
Definition catalog_exists (st : state) (c : txt) : Prop := aget c st <> None.
Definition schema_lookup (st : state) (c s : txt) : option schema_t :=
  match aget c st with None => None | Some cat => aget s cat end.
Definition schema_exists (st : state) (c s : txt) : Prop := schema_lookup st c s <> None.

(* well-formedness = what DashMap guarantees: keys are unique at every level *)
Definition wf_schema (sc : schema_t) : Prop := NoDup (akeys sc).
Definition wf_catalog (cat : catalog_t) : Prop := NoDup (akeys cat) /\ Forall (fun ssc => wf_schema (snd ssc)) cat.
Definition wf (st : state) : Prop := NoDup (akeys st) /\ Forall (fun ccat => wf_catalog (snd ccat)) st.

(* the documented success rule, as a function of the current state only *)
Definition create_rule (present : bool) (ine orr : bool) : outcome :=
  if present then (if ine then (if orr then Conflict else Ok) else (if orr then Ok else AlreadyExists)) else Ok.
Definition target_outcome (st : state) (c s : txt) : outcome :=
  match aget c st with
  | None => NoCatalog
  | Some cat => match aget s cat with None => NoSchema | Some _ => Ok end
  end.
Definition is_some {A} (o : option A) : bool := match o with Some _ => true | None => false end.
Definition has_kind (st : state) (r : tref) (k : kind) : bool :=
  let '(c, s, n) := resolve r in
  match table_lookup st c s n with Some o => kind_eqb (okind o) k | None => false end.

Definition spec_outcome (st : state) (op : ddl) : outcome :=
  if names_info op then Unsupported else
  match op with
  | CreateTable r _ ine orr | CreateTableAs r _ _ ine orr =>
      let '(c, s, n) := resolve r in
      match target_outcome st c s with
      | Ok => create_rule (is_some (table_lookup st c s n)) ine orr
      | e => e
      end
  | CreateView r _ _ orr _ =>
      let '(c, s, n) := resolve r in
      match target_outcome st c s with
      | Ok => create_rule (is_some (table_lookup st c s n)) false orr
      | e => e
      end
  | DropTable r ife => if has_kind st r KTable || ife then Ok else NotFound
  | DropView r ife => if has_kind st r KView || ife then Ok else NotFound
  | CreateSchema r ine =>
      let '(c, s) := sresolve r in
      match aget c st with
      | None => NoCatalog
      | Some _ => if is_some (schema_lookup st c s) then (if ine then Ok else AlreadyExists) else Ok
      end
  | DropSchema r ife cascade =>
      let '(c, s) := sresolve r in
      match schema_lookup st c s with
      | None => if ife then Ok else NotFound
      | Some sc => match sc, cascade with [], _ | _ :: _, true => Ok | _ :: _, false => NotEmpty end
      end
  | CreateCatalog i ine => if is_some (aget (norm i) st) then (if ine then Ok else AlreadyExists) else Ok
  end.

(* the object a CREATE statement binds: (name, object, if_not_exists, or_replace) *)
Definition ddl_object (op : ddl) : option (tref * obj * bool * bool) :=
  match op with
  | CreateTable r cols ine orr => Some (r, table_obj cols, ine, orr)
  | CreateTableAs r c k ine orr => Some (r, ctas_obj c k, ine, orr)
  | CreateView r c k orr text => Some (r, view_obj c k text, false, orr)
  | _ => None
  end.
Definition drop_op (k : kind) (r : tref) (ife : bool) : ddl :=
  match k with KTable => DropTable r ife | KView => DropView r ife end.

(* ------------------------------------------------------------------ correspondence case *)
Definition count_eqb {A} (eqb : A -> A -> bool) (x : A) (l : list A) : Z :=
  fold_left (fun n y => if eqb x y then n + 1 else n) l 0.
(* equal as multisets (DashMap iteration order is unspecified; the harness sorts) *)
Definition same_bag {A} (eqb : A -> A -> bool) (a b : list A) : bool :=
  (Z.of_nat (List.length a) =? Z.of_nat (List.length b)) && forallb (fun x => count_eqb eqb x a =? count_eqb eqb x b) a.

Definition t3_eqb (a b : txt * txt * txt) : bool :=
  let '(a1, a2, a3) := a in let '(b1, b2, b3) := b in teqb a1 b1 && teqb a2 b2 && teqb a3 b3.
Definition trow_eqb (a b : txt * txt * txt * kind) : bool := t3_eqb (fst a) (fst b) && kind_eqb (snd a) (snd b).
Definition srow_eqb (a b : txt * txt) : bool := teqb (fst a) (fst b) && teqb (snd a) (snd b).
Definition vrow_eqb (a b : txt * txt * txt * option txt) : bool := t3_eqb (fst a) (fst b) && opt_eqb teqb (snd a) (snd b).
Definition cinfo_eqb (a b : txt * Z * bool * txt) : bool :=
  let '(a1, a2, a3, a4) := a in let '(b1, b2, b3, b4) := b in teqb a1 b1 && (a2 =? b2) && Bool.eqb a3 b3 && teqb a4 b4.
Definition crow_eqb (a b : txt * txt * txt * (txt * Z * bool * txt)) : bool := t3_eqb (fst a) (fst b) && cinfo_eqb (snd a) (snd b).
Definition presult_eqb (a b : option (list txt * list (list Z))) : bool :=
  opt_eqb (fun x y => list_eqb teqb (fst x) (fst y) && list_eqb zlist_eqb (snd x) (snd y)) a b.

Record obs := Obs {
  ob_out : outcome;
  ob_tables : list (txt * txt * txt * kind);
  ob_schemata : list (txt * txt);
  ob_views : list (txt * txt * txt * option txt);
  ob_columns : list (txt * txt * txt * (txt * Z * bool * txt));
  ob_probes : list (tref * option (list txt * list (list Z)))
}.

Definition obs_agrees (st' : state) (out : outcome) (o : obs) : bool :=
  outcome_eqb out (ob_out o)
  && same_bag trow_eqb (info_tables st') (ob_tables o)
  && same_bag srow_eqb (info_schemata st') (ob_schemata o)
  && same_bag vrow_eqb (info_views st') (ob_views o)
  && same_bag crow_eqb (info_columns st') (ob_columns o)
  && forallb (fun rp : tref * option (list txt * list (list Z)) => presult_eqb (probe st' (fst rp)) (snd rp)) (ob_probes o).

Fixpoint replay (st : state) (h : list (ddl * obs)) : bool :=
  match h with
  | [] => true
  | (op, o) :: r =>
    let '(st', out) := step st op in
    obs_agrees st' out o && outcome_eqb (spec_outcome st op) out && replay st' r
  end.

Inductive c49_case := C49 (h : list (ddl * obs)).
Definition c49_check (c : c49_case) : bool := match c with C49 h => replay init_state h end.
