(* C43 -- configuration options and their text form (datafusion/common/src/config.rs).

   Executable model of
     * the per-type text domains of configuration fields: `parse : dom -> text -> option value` is what
       `ConfigField::set` does with the value text (FromStr of the Rust type plus the `transform =` of the
       field), `print : dom -> value -> text` is the `Display` used by `visit` / `entries()`;
     * `Option<F>` fields (entry value None = no text; `get_or_insert_with(Default::default).set(..)`);
     * the options state machine `set : opts -> key -> text -> bool * opts` and `entries`.
   Texts are byte strings; the model's case folding and trimming are the ASCII ones, which coincide with
   Rust's `to_lowercase` / `to_uppercase` / `trim` on ASCII input (non-ASCII inputs are outside the
   correspondence and are covered by the direct oracle only).  usize = u64.
   Enum spelling tables are NOT written here: they are `enum_desc` values generated into
   Gen/ConfigEnums.v from the Rust `impl FromStr` / `impl Display` blocks.  Definitions only. *)
From Coq Require Import List NArith ZArith Bool String Ascii.
From DF Require Import Base.Prelude.
Import ListNotations.
Open Scope Z_scope.

Definition text := list ascii.
Definition L (s : string) : text := list_ascii_of_string s.
Definition code (c : ascii) : Z := Z.of_N (N_of_ascii c).
Definition chr (z : Z) : ascii := ascii_of_N (Z.to_N z).
Definition bs (l : list Z) : text := map chr l.

Definition text_eqb : text -> text -> bool := list_eqb Ascii.eqb.
Definition otext_eqb : option text -> option text -> bool := opt_eqb text_eqb.

(* ---------------------------------------------------------------- ASCII case folding and trimming *)
Definition is_upper (c : ascii) : bool := (65 <=? code c) && (code c <=? 90).
Definition is_lower (c : ascii) : bool := (97 <=? code c) && (code c <=? 122).
Definition lower1 (c : ascii) : ascii := if is_upper c then chr (code c + 32) else c.
Definition upper1 (c : ascii) : ascii := if is_lower c then chr (code c - 32) else c.
Definition to_lower (t : text) : text := map lower1 t.
Definition to_upper (t : text) : text := map upper1 t.

(* char::is_whitespace restricted to ASCII: \t \n \v \f \r and space *)
Definition is_ws (c : ascii) : bool := ((9 <=? code c) && (code c <=? 13)) || (code c =? 32).
Fixpoint trim_start (t : text) : text :=
  match t with
  | c :: r => if is_ws c then trim_start r else t
  | [] => []
  end.
Definition trim (t : text) : text := rev (trim_start (rev (trim_start t))).

(* ---------------------------------------------------------------- integers: core::num from_str_radix(10) *)
Definition digit (c : ascii) : option Z :=
  let n := code c in if (48 <=? n) && (n <=? 57) then Some (n - 48) else None.
Definition digit_chr (d : Z) : ascii := chr (48 + d).
Definition plus_c : ascii := chr 43.
Definition minus_c : ascii := chr 45.

(* positive accumulation with the overflow check at every step (checked_mul(10) then checked_add(d)) *)
Fixpoint acc_pos (tmax acc : Z) (t : text) : option Z :=
  match t with
  | [] => Some acc
  | c :: r => match digit c with
              | None => None
              | Some d => let a := acc * 10 + d in if a <=? tmax then acc_pos tmax a r else None
              end
  end.
(* negative accumulation (checked_mul(10) then checked_sub(d)) *)
Fixpoint acc_neg (tmin acc : Z) (t : text) : option Z :=
  match t with
  | [] => Some acc
  | c :: r => match digit c with
              | None => None
              | Some d => let a := acc * 10 - d in if tmin <=? a then acc_neg tmin a r else None
              end
  end.
(* unsigned types: optional leading '+', a lone sign is an error, '-' is an invalid digit *)
Definition parse_uint (tmax : Z) (t : text) : option Z :=
  match t with
  | [] => None
  | c :: r => if Ascii.eqb c plus_c then match r with [] => None | _ => acc_pos tmax 0 r end
              else acc_pos tmax 0 t
  end.
(* signed types: optional leading '+' or '-' *)
Definition parse_int (tmin tmax : Z) (t : text) : option Z :=
  match t with
  | [] => None
  | c :: r => if Ascii.eqb c plus_c then match r with [] => None | _ => acc_pos tmax 0 r end
              else if Ascii.eqb c minus_c then match r with [] => None | _ => acc_neg tmin 0 r end
              else acc_pos tmax 0 t
  end.

(* Display of integers: decimal, no leading zeros, '-' for negatives *)
Fixpoint digits_le (fuel : nat) (n : Z) : list Z :=
  match fuel with
  | O => []
  | S f => if n <? 10 then [n] else (n mod 10) :: digits_le f (n / 10)
  end.
Definition print_nat (n : Z) : text := map digit_chr (rev (digits_le (S (Z.to_nat (Z.log2 n))) n)).
Definition print_z (z : Z) : text := if z <? 0 then minus_c :: print_nat (- z) else print_nat z.

(* ---------------------------------------------------------------- enums (tables are generated) *)
Inductive fold := FLower | FUpper.
Record enum_desc := {
  e_trim : bool;                      (* FromStr trims before folding *)
  e_fold : fold;                      (* FromStr matches on the lower / upper cased text *)
  e_print : list (N * text);          (* Display: variant index -> text *)
  e_accept : list (text * N)          (* FromStr match arms: folded text -> variant index *)
}.
Fixpoint assoc_t (k : text) (l : list (text * N)) : option N :=
  match l with
  | [] => None
  | (a, v) :: r => if text_eqb k a then Some v else assoc_t k r
  end.
Fixpoint assoc_n (k : N) (l : list (N * text)) : option text :=
  match l with
  | [] => None
  | (a, v) :: r => if N.eqb k a then Some v else assoc_n k r
  end.
Definition enum_norm (e : enum_desc) (t : text) : text :=
  let t1 := if e_trim e then trim t else t in
  match e_fold e with FLower => to_lower t1 | FUpper => to_upper t1 end.
Definition enum_parse (e : enum_desc) (t : text) : option N := assoc_t (enum_norm e t) (e_accept e).
Definition enum_print (e : enum_desc) (v : N) : text :=
  match assoc_n v (e_print e) with Some t => t | None => [] end.
Definition enum_valid (e : enum_desc) (v : N) : bool :=
  match assoc_n v (e_print e) with Some _ => true | None => false end.

(* ---------------------------------------------------------------- comma lists (ExplainAnalyzeCategories) *)
Definition comma : ascii := chr 44.
Fixpoint split_comma (t : text) : list text :=
  match t with
  | [] => [[]]
  | c :: r => if Ascii.eqb c comma then [] :: split_comma r
              else match split_comma r with
                   | h :: tl => (c :: h) :: tl
                   | [] => [[c]]
                   end
  end.
Fixpoint join_comma (l : list text) : text :=
  match l with
  | [] => []
  | [a] => a
  | a :: r => a ++ comma :: join_comma r
  end.
Fixpoint map_opt {A B} (f : A -> option B) (l : list A) : option (list B) :=
  match l with
  | [] => Some []
  | x :: r => match f x, map_opt f r with
              | Some y, Some ys => Some (y :: ys)
              | _, _ => None
              end
  end.
(* Vec::dedup: consecutive duplicates removed *)
Fixpoint dedup (l : list N) : list N :=
  match l with
  | [] => []
  | x :: r => match dedup r with
              | (y :: _) as r' => if N.eqb x y then r' else x :: r'
              | [] => [x]
              end
  end.
Fixpoint no_consec_dup (l : list N) : bool :=
  match l with
  | x :: ((y :: _) as r) => negb (N.eqb x y) && no_consec_dup r
  | _ => true
  end.

(* ---------------------------------------------------------------- domains and values *)
Inductive dom :=
| DBool (lower : bool)                 (* bool::from_str, after to_lowercase when lower *)
| DUint (tmax lo : Z)                  (* unsigned type with maximum tmax, then value >= lo *)
| DInt (tmin tmax lo hi : Z)           (* signed type tmin..tmax, then lo <= value <= hi *)
| DPar (p : Z)                         (* usize; the text "0" (any spelling of 0) means p, the available parallelism *)
| DU8                                  (* u8: a number 0..255, else one ASCII character *)
| DStr (lower : bool)                  (* String, lower-cased by `transform = str::to_lowercase` when lower *)
| DEnum (e : enum_desc)
| DCats (e : enum_desc)                (* ExplainAnalyzeCategories over MetricCategory *)
| DOpt (lazy_default : bool) (d : dom) (* Option<F>; lazy_default = the blanket impl (get_or_insert_with(default)) *).

Inductive value :=
| VBool (b : bool) | VNum (z : Z) | VStr (s : text) | VEnum (v : N) | VAll | VOnly (l : list N).

Definition t_true := L "true".
Definition t_false := L "false".
Definition t_all := L "all".
Definition t_none := L "none".

Definition parse_bool (t : text) : option value :=
  if text_eqb t t_true then Some (VBool true) else if text_eqb t t_false then Some (VBool false) else None.

Definition parse_cats (e : enum_desc) (t : text) : option value :=
  let s := to_lower (trim t) in
  if text_eqb s t_all then Some VAll
  else if text_eqb s t_none then Some (VOnly [])
  else match map_opt (fun part => enum_parse e (trim part)) (split_comma s) with
       | Some l => Some (VOnly (dedup l))
       | None => None
       end.

Definition u64max : Z := 18446744073709551615.

Fixpoint parse (d : dom) (t : text) : option value :=
  match d with
  | DBool lower => parse_bool (if lower then to_lower t else t)
  | DUint tmax lo => match parse_uint tmax t with
                     | Some v => if lo <=? v then Some (VNum v) else None
                     | None => None
                     end
  | DInt tmin tmax lo hi => match parse_int tmin tmax t with
                            | Some v => if (lo <=? v) && (v <=? hi) then Some (VNum v) else None
                            | None => None
                            end
  | DPar p => let t' := match parse_uint u64max t with Some 0 => print_z p | _ => t end in
              match parse_uint u64max t' with Some v => Some (VNum v) | None => None end
  | DU8 => match t with
           | [] => None
           | _ => match parse_uint 255 t with
                  | Some n => Some (VNum n)
                  | None => match t with
                            | [c] => if code c <? 128 then Some (VNum (code c)) else None
                            | _ => None
                            end
                  end
           end
  | DStr lower => Some (VStr (if lower then to_lower t else t))
  | DEnum e => match enum_parse e t with Some v => Some (VEnum v) | None => None end
  | DCats e => parse_cats e t
  | DOpt _ d' => parse d' t
  end.

Fixpoint print (d : dom) (v : value) : text :=
  match d, v with
  | DBool _, VBool b => if b then t_true else t_false
  | DUint _ _, VNum z | DInt _ _ _ _, VNum z | DPar _, VNum z | DU8, VNum z => print_z z
  | DStr _, VStr s => s
  | DEnum e, VEnum x => enum_print e x
  | DCats _, VAll => t_all
  | DCats _, VOnly [] => t_none
  | DCats e, VOnly l => join_comma (map (enum_print e) l)
  | DOpt _ d', _ => print d' v
  | _, _ => []
  end.

(* the values a field of the domain can hold and report (typing, range, canonical form) *)
Fixpoint valid (d : dom) (v : value) : Prop :=
  match d, v with
  | DBool _, VBool _ => True
  | DUint tmax lo, VNum z => lo <= z <= tmax /\ 0 <= z
  | DInt tmin tmax lo hi, VNum z => tmin <= z <= tmax /\ lo <= z <= hi
  | DPar _, VNum z => 0 < z <= u64max
  | DU8, VNum z => 0 <= z <= 255
  | DStr lower, VStr s => if lower then to_lower s = s else True
  | DEnum e, VEnum x => enum_valid e x = true
  | DCats e, VAll => True
  | DCats e, VOnly l => forallb (enum_valid e) l = true /\ no_consec_dup l = true
  | DOpt _ d', _ => valid d' v
  | _, _ => False
  end.

(* enum table sanity, decidable: every printed spelling parses back to its variant, every accepted spelling
   yields a variant that has a printed form *)
Definition enum_ok (e : enum_desc) : bool :=
  forallb (fun p => match enum_parse e (snd p) with Some v => N.eqb v (fst p) | None => false end) (e_print e)
  && forallb (fun p => enum_valid e (snd p)) (e_accept e).
(* for category lists additionally: the names survive the outer trim/lower/split and are not the keywords *)
Definition plain_char (c : ascii) : bool :=
  negb (is_ws c) && negb (Ascii.eqb c comma) && Ascii.eqb (lower1 c) c.
Definition cats_ok (e : enum_desc) : bool :=
  enum_ok e
  && forallb (fun p => forallb plain_char (snd p) && negb (text_eqb (snd p) t_all) && negb (text_eqb (snd p) t_none)
                       && match snd p with [] => false | _ => true end) (e_print e).

Fixpoint wf_dom (d : dom) : Prop :=
  match d with
  | DBool _ | DStr _ | DU8 => True
  | DUint tmax lo => 0 <= tmax
  | DInt tmin tmax lo hi => tmin <= 0 <= tmax
  | DPar p => 0 < p <= u64max
  | DEnum e => enum_ok e = true
  | DCats e => cats_ok e = true
  | DOpt _ d' => wf_dom d'
  end.

(* the key tables are generated with DPar 0; the run-time parallelism is substituted *)
Fixpoint subst_par (p : Z) (d : dom) : dom :=
  match d with
  | DPar _ => DPar p
  | DOpt l d' => DOpt l (subst_par p d')
  | _ => d
  end.
Definition inst_rows (p : Z) (rows : list (text * bool * dom)) : list (text * bool * dom) :=
  map (fun r => (fst r, subst_par p (snd r))) rows.

(* decidable part of wf_dom (everything except the parallelism parameter) *)
Fixpoint wf_domb (d : dom) : bool :=
  match d with
  | DBool _ | DStr _ | DU8 | DPar _ => true
  | DUint tmax lo => 0 <=? tmax
  | DInt tmin tmax lo hi => (tmin <=? 0) && (0 <=? tmax)
  | DEnum e => enum_ok e
  | DCats e => cats_ok e
  | DOpt _ d' => wf_domb d'
  end.

(* <F as Default>::default() for the F that occur under the blanket Option<F> impl *)
Definition default_of (d : dom) : option value :=
  match d with
  | DBool _ => Some (VBool false)
  | DUint _ _ | DInt _ _ _ _ | DU8 => Some (VNum 0)
  | DStr _ => Some (VStr [])
  | _ => None
  end.

(* ConfigField::set on one field holding `cur` (None = the Option is unset).  Returns (accepted, new content). *)
Definition fset (d : dom) (cur : option value) (t : text) : bool * option value :=
  match d with
  | DOpt true d' =>
      (* self.get_or_insert_with(Default::default).set(key, value): the default is inserted BEFORE parsing *)
      match parse d' t with
      | Some v => (true, Some v)
      | None => (false, match cur with Some c => Some c | None => default_of d' end)
      end
  | _ => match parse d t with
         | Some v => (true, Some v)
         | None => (false, cur)
         end
  end.

(* ---------------------------------------------------------------- the options state machine *)
Record field := { fkey : text; flen : bool; fdom : dom; fval : option value }.
Definition opts := list field.
Definition dot : ascii := chr 46.

Fixpoint is_prefix (a k : text) : bool :=
  match a, k with
  | [], _ => true
  | x :: a', y :: k' => Ascii.eqb x y && is_prefix a' k'
  | _ :: _, [] => false
  end.
(* key resolution by split_once('.') segment matching, for leaf fields of a flat listing:
   the full key, or the key followed by "." (empty remainder); scalar impls that ignore the remainder
   (`fn set(&mut self, _: &str, ..)`, flen = true) also accept any "key.<anything>" *)
Definition key_matches (f : field) (k : text) : bool :=
  text_eqb k (fkey f) || text_eqb k (fkey f ++ [dot]) || (flen f && is_prefix (fkey f ++ [dot]) k).

Definition with_val (f : field) (v : option value) : field :=
  {| fkey := fkey f; flen := flen f; fdom := fdom f; fval := v |}.

Fixpoint set (o : opts) (k t : text) : bool * opts :=
  match o with
  | [] => (false, [])
  | f :: r => if key_matches f k
              then let (ok, v') := fset (fdom f) (fval f) t in (ok, with_val f v' :: r)
              else let (ok, r') := set r k t in (ok, f :: r')
  end.

Definition entry (f : field) : text * option text := (fkey f, option_map (print (fdom f)) (fval f)).
Definition entries (o : opts) : list (text * option text) := map entry o.

Definition lazy_unset (f : field) : bool :=
  match fdom f, fval f with DOpt true _, None => true | _, _ => false end.
Definition wf_field (f : field) : Prop :=
  wf_dom (fdom f) /\ match fval f with Some v => valid (fdom f) v | None => True end.

(* ---------------------------------------------------------------- correspondence cases *)
(* one observed ConfigOptions::set / TableOptions::set: configuration id, key, printed value of the key
   before (None = entry without text or unlisted key), value text, accepted?, printed value after *)
Inductive c43_case :=
| CSet (cfg : Z) (key : list Z) (pre : option (list Z)) (txt : list Z) (accepted : bool) (post : option (list Z))
(* a key that entries() does not list: only acceptance is observed *)
| CAcc (cfg : Z) (key : list Z) (txt : list Z) (accepted : bool).

Definition row_field (r : text * bool * dom) : field :=
  {| fkey := fst (fst r); flen := snd (fst r); fdom := snd r; fval := None |}.
Fixpoint resolve (tbl : list (text * bool * dom)) (k : text) : option dom :=
  match tbl with
  | [] => None
  | r :: tl => if key_matches (row_field r) k then Some (snd r) else resolve tl k
  end.

Definition c43_check (tbl_of : Z -> list (text * bool * dom)) (c : c43_case) : bool :=
  match c with
  | CSet cfg key pre txt accepted post =>
      let pre := option_map bs pre in
      let post := option_map bs post in
      match resolve (tbl_of cfg) (bs key) with
      | None => negb accepted && otext_eqb post pre
      | Some d =>
          let cur := match pre with
                     | None => Some None
                     | Some p => match parse d p with Some v => Some (Some v) | None => None end
                     end in
          match cur with
          | None => false                   (* a printed value must itself be accepted by the model *)
          | Some cur => let (ok, v') := fset d cur (bs txt) in
                        Bool.eqb ok accepted && otext_eqb (option_map (print d) v') post
          end
      end
  | CAcc cfg key txt accepted =>
      match resolve (tbl_of cfg) (bs key) with
      | None => negb accepted
      | Some d => Bool.eqb (match parse d (bs txt) with Some _ => true | None => false end) accepted
      end
  end.
