(* C41 -- bound query parameters behave like the equivalent literals.

   Anchors: datafusion/expr/src/logical_plan/plan.rs  LogicalPlan::with_param_values /
            replace_params_with_values (transform_up_with_subqueries: every expression of every plan node,
            including the plans inside scalar / IN / EXISTS subquery expressions, has each Expr::Placeholder
            replaced by Expr::Literal(value); a placeholder without a value is an error of the WHOLE call,
            ParamValues::get_placeholders_with_values), datafusion/common/src/param_value.rs
            (ParamValues::List: `$n` is the n-th value, 1-based, `$0` invalid; ParamValues::Map: by name),
            datafusion/sql/src/expr/value.rs ($n / $name parsing), LIMIT / OFFSET expressions.

   Model: the RefSQL syntax (Model/RefSQL.v) extended with a placeholder expression [PParam n] and with
   LIMIT / OFFSET arguments that may be placeholders ([larg]); a parameter environment [penv] (positional
   list or name map); TWO independent meanings of a parameterized query:
     * [subst_q s q]   the implementation's way: rewrite the query, every placeholder becomes the literal of
                       its value (fails as a whole when a placeholder has no value -- eagerly, like
                       replace_params_with_values -- or when a LIMIT/OFFSET parameter is not a non-negative
                       integer), then evaluate the placeholder-free RefSQL query with [eval_query];
     * [peval_query f s d en q]  the specification: an environment-passing evaluator over the extended syntax
                       (a placeholder is looked up when, and only if, it is evaluated).
   Proofs/ParamsProofs.v proves that they coincide whenever the rewrite succeeds (for every fuel, data base,
   scope stack), by mutual induction.  Definitions only. *)
From Coq Require Import List ZArith Bool.
From DF Require Import Base.Prelude Model.RefSQL.
Import ListNotations.
Open Scope Z_scope.

(* ------------------------------------------------------------------ syntax with placeholders *)
Inductive larg := LConst (z : Z) | LParam (n : Z).

Inductive pexpr :=
| PCol (depth idx : Z)
| PLit (v : value)
| PParam (n : Z)                                   (* $n  (or $name, names numbered by the environment) *)
| PArith (op : arith_op) (a b : pexpr)
| PCmp (op : cmp_op) (a b : pexpr)
| PAnd (a b : pexpr)
| POr (a b : pexpr)
| PNot (a : pexpr)
| PIsNull (neg : bool) (a : pexpr)
| PDistinct (neg : bool) (a b : pexpr)
| PBetween (neg : bool) (a lo hi : pexpr)
| PInList (neg : bool) (a : pexpr) (l : list pexpr)
| PCase (ws : list (pexpr * pexpr)) (els : option pexpr)
| PCoalesce (l : list pexpr)
| PNullif (a b : pexpr)
| PScalar (q : pquery)
| PExists (neg : bool) (q : pquery)
| PInSub (neg : bool) (a : pexpr) (q : pquery)
with pquery :=
| PQTable (n : Z)
| PQValues (r : rel)
| PQFilter (p : pexpr) (q : pquery)
| PQProject (es : list pexpr) (q : pquery)
| PQJoin (k : join_kind) (wl wr : Z) (on : pexpr) (l r : pquery)
| PQSemi (anti : bool) (on : pexpr) (l r : pquery)
| PQGroup (keys : list pexpr) (aggs : list (agg_fn * pexpr)) (having : option pexpr) (q : pquery)
| PQDistinct (q : pquery)
| PQSetOp (op : setop) (all : bool) (l r : pquery)
| PQSort (keys : list (pexpr * (bool * bool))) (q : pquery)
| PQLimit (off : larg) (lim : option larg) (q : pquery).

(* ------------------------------------------------------------------ parameter environments *)
Definition penv := Z -> option value.

(* ParamValues::List: `$n` is the n-th value (1-based); `$0` and indexes past the end have no value *)
Definition env_list (vs : list value) : penv :=
  fun n => if n <=? 0 then None else nth_error vs (Z.to_nat (n - 1)).
(* ParamValues::Map: names are numbered; a name may be used by several placeholders *)
Fixpoint env_map (m : list (Z * value)) : penv :=
  fun n => match m with
           | [] => None
           | (k, v) :: m' => if k =? n then Some v else env_map m' n
           end.

Definition get_param (s : penv) (n : Z) : res value :=
  match s n with Some v => Ok v | None => Err EScope end.

(* a LIMIT / OFFSET argument must be a non-negative integer *)
Definition larg_val (s : penv) (a : larg) : res Z :=
  match a with
  | LConst z => Ok z
  | LParam n => v <- get_param s n;;
                match v with
                | VInt z => if 0 <=? z then Ok z else Err EType
                | _ => Err EType
                end
  end.
Definition olarg_val (s : penv) (a : option larg) : res (option Z) :=
  match a with
  | None => Ok None
  | Some a => z <- larg_val s a;; Ok (Some z)
  end.

(* ------------------------------------------------------------------ substitution (the implementation) *)
(* [mapM] with the function outside of the fixpoint, so that it may be used in nested recursive definitions
   (mapR f l = mapM f l, Proofs/ParamsProofs.v mapR_mapM) *)
Section MapR.
  Context {A B : Type} (f : A -> res B).
  Fixpoint mapR (l : list A) : res (list B) :=
    match l with
    | [] => Ok []
    | x :: l' => y <- f x;; ys <- mapR l';; Ok (y :: ys)
    end.
End MapR.

Fixpoint subst_e (s : penv) (e : pexpr) {struct e} : res expr :=
  match e with
  | PCol d i => Ok (ECol d i)
  | PLit v => Ok (ELit v)
  | PParam n => v <- get_param s n;; Ok (ELit v)
  | PArith op a b => a' <- subst_e s a;; b' <- subst_e s b;; Ok (EArith op a' b')
  | PCmp op a b => a' <- subst_e s a;; b' <- subst_e s b;; Ok (ECmp op a' b')
  | PAnd a b => a' <- subst_e s a;; b' <- subst_e s b;; Ok (EAnd a' b')
  | POr a b => a' <- subst_e s a;; b' <- subst_e s b;; Ok (EOr a' b')
  | PNot a => a' <- subst_e s a;; Ok (ENot a')
  | PIsNull neg a => a' <- subst_e s a;; Ok (EIsNull neg a')
  | PDistinct neg a b => a' <- subst_e s a;; b' <- subst_e s b;; Ok (EDistinct neg a' b')
  | PBetween neg a lo hi =>
      a' <- subst_e s a;; lo' <- subst_e s lo;; hi' <- subst_e s hi;; Ok (EBetween neg a' lo' hi')
  | PInList neg a l => a' <- subst_e s a;; l' <- mapR (subst_e s) l;; Ok (EInList neg a' l')
  | PCase ws els =>
      ws' <- mapR (fun wt : pexpr * pexpr => let '(w, t) := wt in w' <- subst_e s w;; t' <- subst_e s t;; Ok (w', t')) ws;;
      els' <- match els with
              | None => Ok None
              | Some e => e' <- subst_e s e;; Ok (Some e')
              end;;
      Ok (ECase ws' els')
  | PCoalesce l => l' <- mapR (subst_e s) l;; Ok (ECoalesce l')
  | PNullif a b => a' <- subst_e s a;; b' <- subst_e s b;; Ok (ENullif a' b')
  | PScalar q => q' <- subst_q s q;; Ok (EScalar q')
  | PExists neg q => q' <- subst_q s q;; Ok (EExists neg q')
  | PInSub neg a q => a' <- subst_e s a;; q' <- subst_q s q;; Ok (EInSub neg a' q')
  end
with subst_q (s : penv) (q : pquery) {struct q} : res query :=
  match q with
  | PQTable n => Ok (QTable n)
  | PQValues r => Ok (QValues r)
  | PQFilter p q1 => p' <- subst_e s p;; q1' <- subst_q s q1;; Ok (QFilter p' q1')
  | PQProject es q1 => es' <- mapR (subst_e s) es;; q1' <- subst_q s q1;; Ok (QProject es' q1')
  | PQJoin k wl wr on l r =>
      on' <- subst_e s on;; l' <- subst_q s l;; r' <- subst_q s r;; Ok (QJoin k wl wr on' l' r')
  | PQSemi anti on l r =>
      on' <- subst_e s on;; l' <- subst_q s l;; r' <- subst_q s r;; Ok (QSemi anti on' l' r')
  | PQGroup keys aggs having q1 =>
      keys' <- mapR (subst_e s) keys;;
      aggs' <- mapR (fun a : agg_fn * pexpr => let '(fn, e) := a in e' <- subst_e s e;; Ok (fn, e')) aggs;;
      having' <- match having with
                 | None => Ok None
                 | Some h => h' <- subst_e s h;; Ok (Some h')
                 end;;
      q1' <- subst_q s q1;;
      Ok (QGroup keys' aggs' having' q1')
  | PQDistinct q1 => q1' <- subst_q s q1;; Ok (QDistinct q1')
  | PQSetOp op all l r => l' <- subst_q s l;; r' <- subst_q s r;; Ok (QSetOp op all l' r')
  | PQSort keys q1 =>
      keys' <- mapR (fun k : pexpr * (bool * bool) => let '(e, dr) := k in e' <- subst_e s e;; Ok (e', dr)) keys;;
      q1' <- subst_q s q1;;
      Ok (QSort keys' q1')
  | PQLimit off lim q1 =>
      off' <- larg_val s off;; lim' <- olarg_val s lim;; q1' <- subst_q s q1;; Ok (QLimit off' lim' q1')
  end.

(* ------------------------------------------------------------------ evaluation with a parameter environment
   (the specification): the RefSQL evaluator over the extended syntax; a placeholder is looked up in [s] *)
Fixpoint peval_expr (f : nat) (s : penv) (d : db) (en : env) (e : pexpr) {struct f} : res value :=
  match f with
  | O => Err EFuel
  | S f' =>
    let ev := peval_expr f' s d en in
    let evp := fun e => v <- peval_expr f' s d en e;; tv_of_value v in
    match e with
    | PCol dp i => lookup en dp i
    | PLit v => Ok v
    | PParam n => get_param s n
    | PArith op a b => x <- ev a;; y <- ev b;; arith op x y
    | PCmp op a b => x <- ev a;; y <- ev b;; Ok (value_of_tv (cmp3 op x y))
    | PAnd a b => x <- evp a;; y <- evp b;; Ok (value_of_tv (and3 x y))
    | POr a b => x <- evp a;; y <- evp b;; Ok (value_of_tv (or3 x y))
    | PNot a => x <- evp a;; Ok (value_of_tv (not3 x))
    | PIsNull neg a => x <- ev a;; Ok (VBool (xorb neg (is_null x)))
    | PDistinct neg a b => x <- ev a;; y <- ev b;; Ok (VBool (xorb (negb neg) (not_distinct x y)))
    | PBetween neg a lo hi =>
        x <- ev a;; l <- ev lo;; h <- ev hi;;
        let t := and3 (cmp3 CGe x l) (cmp3 CLe x h) in
        Ok (value_of_tv (if neg then not3 t else t))
    | PInList neg a l =>
        x <- ev a;; vs <- mapM ev l;;
        Ok (value_of_tv (if neg then not_in3 x vs else in3 x vs))
    | PCase ws els =>
        (fix go (ws : list (pexpr * pexpr)) : res value :=
           match ws with
           | [] => match els with Some e => ev e | None => Ok VNull end
           | (w, t) :: ws' => c <- evp w;; match c with TT => ev t | _ => go ws' end
           end) ws
    | PCoalesce l =>
        (fix go (l : list pexpr) : res value :=
           match l with
           | [] => Ok VNull
           | e :: l' => v <- ev e;; if is_null v then go l' else Ok v
           end) l
    | PNullif a b => x <- ev a;; y <- ev b;; Ok (match eq3 x y with TT => VNull | _ => x end)
    | PScalar q =>
        R <- peval_query f' s d en q;;
        match R with
        | [] => Ok VNull
        | [r] => single r
        | _ => Err ECard
        end
    | PExists neg q => R <- peval_query f' s d en q;; Ok (VBool (xorb neg (negb (Nat.eqb (length R) 0))))
    | PInSub neg a q =>
        x <- ev a;; R <- peval_query f' s d en q;; vs <- mapM single R;;
        Ok (value_of_tv (if neg then not_in3 x vs else in3 x vs))
    end
  end
with peval_query (f : nat) (s : penv) (d : db) (en : env) (q : pquery) {struct f} : res rel :=
  match f with
  | O => Err EFuel
  | S f' =>
    let evq := peval_query f' s d en in
    let evr := fun (r : row) (e : pexpr) => peval_expr f' s d (r :: en) e in
    let evpr := fun (r : row) (e : pexpr) => v <- peval_expr f' s d (r :: en) e;; tv_of_value v in
    match q with
    | PQTable n => match nth_error d (Z.to_nat n) with Some R => Ok R | None => Err EScope end
    | PQValues R => Ok R
    | PQFilter p q1 => R <- evq q1;; filter_m (fun r => evpr r p) R
    | PQProject es q1 => R <- evq q1;; mapM (fun r => mapM (evr r) es) R
    | PQJoin k wl wr on l r =>
        L <- evq l;; R <- evq r;;
        let onf := fun a b => evpr (a ++ b) on in
        _ <- on_total onf L R;; Ok (join k (on_bool onf) wl wr L R)
    | PQSemi anti on l r =>
        L <- evq l;; R <- evq r;;
        let onf := fun a b => evpr (a ++ b) on in
        _ <- on_total onf L R;;
        Ok (if anti then anti_join (on_bool onf) L R else semi_join (on_bool onf) L R)
    | PQGroup keys aggs having q1 =>
        R <- evq q1;;
        ks <- mapM (fun r => mapM (evr r) keys) R;;
        let groups := match keys with
                      | [] => [([], R)]
                      | _ => group_pairs (combine ks R)
                      end in
        out <- mapM (fun g : row * rel =>
                       avs <- mapM (fun a : agg_fn * pexpr =>
                                      args <- mapM (fun r => evr r (snd a)) (snd g);;
                                      agg_apply (fst a) args) aggs;;
                       Ok (fst g ++ avs)) groups;;
        match having with
        | None => Ok out
        | Some h => filter_m (fun o => evpr o h) out
        end
    | PQDistinct q1 => R <- evq q1;; Ok (distinct R)
    | PQSetOp op all l r => L <- evq l;; R <- evq r;; Ok (set_op op all L R)
    | PQSort keys q1 =>
        R <- evq q1;;
        ks <- mapM (fun r => mapM (fun k : pexpr * (bool * bool) => evr r (fst k)) keys) R;;
        Ok (map snd (sort_pairs (map snd keys) (combine ks R)))
    | PQLimit off lim q1 =>
        R <- evq q1;; o <- larg_val s off;; l <- olarg_val s lim;; Ok (limit_offset o l R)
    end
  end.

Definition prun_query (s : penv) (d : db) (q : pquery) : res rel := peval_query refsql_fuel s d [] q.

(* ------------------------------------------------------------------ embedding of placeholder-free queries *)
Fixpoint embed_e (e : expr) {struct e} : pexpr :=
  match e with
  | ECol d i => PCol d i
  | ELit v => PLit v
  | EArith op a b => PArith op (embed_e a) (embed_e b)
  | ECmp op a b => PCmp op (embed_e a) (embed_e b)
  | EAnd a b => PAnd (embed_e a) (embed_e b)
  | EOr a b => POr (embed_e a) (embed_e b)
  | ENot a => PNot (embed_e a)
  | EIsNull neg a => PIsNull neg (embed_e a)
  | EDistinct neg a b => PDistinct neg (embed_e a) (embed_e b)
  | EBetween neg a lo hi => PBetween neg (embed_e a) (embed_e lo) (embed_e hi)
  | EInList neg a l => PInList neg (embed_e a) (map embed_e l)
  | ECase ws els => PCase (map (fun wt : expr * expr => (embed_e (fst wt), embed_e (snd wt))) ws)
                          (match els with Some e => Some (embed_e e) | None => None end)
  | ECoalesce l => PCoalesce (map embed_e l)
  | ENullif a b => PNullif (embed_e a) (embed_e b)
  | EScalar q => PScalar (embed_q q)
  | EExists neg q => PExists neg (embed_q q)
  | EInSub neg a q => PInSub neg (embed_e a) (embed_q q)
  end
with embed_q (q : query) {struct q} : pquery :=
  match q with
  | QTable n => PQTable n
  | QValues r => PQValues r
  | QFilter p q1 => PQFilter (embed_e p) (embed_q q1)
  | QProject es q1 => PQProject (map embed_e es) (embed_q q1)
  | QJoin k wl wr on l r => PQJoin k wl wr (embed_e on) (embed_q l) (embed_q r)
  | QSemi anti on l r => PQSemi anti (embed_e on) (embed_q l) (embed_q r)
  | QGroup keys aggs having q1 =>
      PQGroup (map embed_e keys) (map (fun a : agg_fn * expr => (fst a, embed_e (snd a))) aggs)
              (match having with Some h => Some (embed_e h) | None => None end) (embed_q q1)
  | QDistinct q1 => PQDistinct (embed_q q1)
  | QSetOp op all l r => PQSetOp op all (embed_q l) (embed_q r)
  | QSort keys q1 => PQSort (map (fun k : expr * (bool * bool) => (embed_e (fst k), snd k)) keys) (embed_q q1)
  | QLimit off lim q1 => PQLimit (LConst off) (match lim with Some n => Some (LConst n) | None => None end) (embed_q q1)
  end.

(* the placeholders of a query (with repetitions), in syntactic order *)
Fixpoint params_e (e : pexpr) {struct e} : list Z :=
  match e with
  | PCol _ _ | PLit _ => []
  | PParam n => [n]
  | PArith _ a b | PCmp _ a b | PAnd a b | POr a b | PDistinct _ a b | PNullif a b => params_e a ++ params_e b
  | PNot a | PIsNull _ a => params_e a
  | PBetween _ a lo hi => params_e a ++ params_e lo ++ params_e hi
  | PInList _ a l => params_e a ++ flat_map params_e l
  | PCase ws els => flat_map (fun wt : pexpr * pexpr => params_e (fst wt) ++ params_e (snd wt)) ws
                    ++ match els with Some e => params_e e | None => [] end
  | PCoalesce l => flat_map params_e l
  | PScalar q | PExists _ q => params_q q
  | PInSub _ a q => params_e a ++ params_q q
  end
with params_q (q : pquery) {struct q} : list Z :=
  match q with
  | PQTable _ | PQValues _ => []
  | PQFilter p q1 => params_e p ++ params_q q1
  | PQProject es q1 => flat_map params_e es ++ params_q q1
  | PQJoin _ _ _ on l r | PQSemi _ on l r => params_e on ++ params_q l ++ params_q r
  | PQGroup keys aggs having q1 =>
      flat_map params_e keys ++ flat_map (fun a : agg_fn * pexpr => params_e (snd a)) aggs
      ++ match having with Some h => params_e h | None => [] end ++ params_q q1
  | PQDistinct q1 => params_q q1
  | PQSetOp _ _ l r => params_q l ++ params_q r
  | PQSort keys q1 => flat_map (fun k : pexpr * (bool * bool) => params_e (fst k)) keys ++ params_q q1
  | PQLimit off lim q1 =>
      match off with LParam n => [n] | LConst _ => [] end
      ++ match lim with Some (LParam n) => [n] | _ => [] end ++ params_q q1
  end.

(* ------------------------------------------------------------------ correspondence with the harness
   One case = the tables, the parameterized query, the parameter values (positional), and the rows that the
   engine returned for ONE execution variant (literal text / with_param_values(List) / (Map) / PREPARE+EXECUTE).
   The reference result is the RefSQL verdict (Model/RefSQL.v c01_verdict) on the SUBSTITUTED query; the check also
   demands that the environment-passing evaluator agrees with the evaluation of the substituted query on this input
   (subst_lemma proves that it always does). *)
Inductive c41_case := C41Case (d : db) (q : pquery) (vs : list value) (obs : option rel).

Definition res_rel_eqb (a b : res rel) : bool :=
  match a, b with
  | Ok x, Ok y => list_eqb row_eqb x y
  | Err _, Err _ => true
  | _, _ => false
  end.

(* 0 agree, 1 disagree, 2 reference run-time error, 3 ill-formed, 4 substitution failed (unbound parameter / bad LIMIT),
   5 the two meanings differ (impossible by subst_lemma) *)
Definition c41_verdict (c : c41_case) : Z :=
  match c with
  | C41Case d q vs obs =>
      match subst_q (env_list vs) q with
      | Err _ => 4
      | Ok q' =>
          if res_rel_eqb (run_query d q') (prun_query (env_list vs) d q)
          then c01_verdict (C01Case d q' obs)
          else 5
      end
  end.
Definition c41_check (c : c41_case) : bool := let v := c41_verdict c in (v =? 0) || (v =? 2).
Definition c41_agree (c : c41_case) : bool := c41_verdict c =? 0.
Definition c41_wellformed (c : c41_case) : bool := let v := c41_verdict c in (v =? 0) || (v =? 1) || (v =? 2).
(* the "short" variant (a value is missing): the rewrite must fail *)
Definition c41_unbound (c : c41_case) : bool := c41_verdict c =? 4.
