(* C08 -- sorting, merging and TopK.  Executable model of
     datafusion/physical-plan/src/sorts/cursor.rs   (comparison with descending / nulls_first options)
     datafusion/physical-plan/src/sorts/merge.rs    (SortPreservingMergeStream: the loser tree)
     datafusion/physical-plan/src/sorts/multi_level_merge.rs + sort.rs (sorted runs merged in groups)
     datafusion/physical-plan/src/topk/mod.rs       (TopK: bounded heap, <dq>row >= max => reject<dq>)
   Definitions only; the proofs are in Proofs/SortMergeProofs.v. *)
From Coq Require Import List ZArith Bool Arith Lia.
From DF Require Import Base.Prelude.
Import ListNotations.
Close Scope Z_scope.
Open Scope nat_scope.

(* ------------------------------------------------------------------ the comparator (cursor.rs) *)
(* arrow SortOptions *)
Record sopt := { s_desc : bool; s_nulls_first : bool }.

(* ArrayValues::compare: NULL placement is decided by nulls_first alone (not flipped by descending);
   two non-NULL values are compared in the natural order, operands swapped when descending. *)
Definition cmp_val (o : sopt) (a b : option Z) : comparison :=
  match a, b with
  | None, None => Eq
  | None, Some _ => if s_nulls_first o then Lt else Gt
  | Some _, None => if s_nulls_first o then Gt else Lt
  | Some x, Some y => if s_desc o then Z.compare y x else Z.compare x y
  end.

(* several sort columns: lexicographic (what the Arrow row format's byte order encodes; RowValues::compare).
   A missing column reads as NULL, which keeps the comparator a total preorder on all lists. *)
Fixpoint cmp_key (os : list sopt) (a b : list (option Z)) : comparison :=
  match os with
  | [] => Eq
  | o :: os' =>
      match cmp_val o (hd None a) (hd None b) with
      | Eq => cmp_key os' (tl a) (tl b)
      | c => c
      end
  end.

(* a row = its sort key columns + a row id (the payload column the harness adds) *)
Record row := { rkey : list (option Z); rid : Z }.
Definition cmp_row (os : list sopt) (a b : row) : comparison := cmp_key os (rkey a) (rkey b).

(* ------------------------------------------------------------------ generic part: any row type, any comparator *)
Fixpoint set_nth {X} (n : nat) (v : X) (l : list X) : list X :=
  match l, n with
  | [], _ => []
  | _ :: r, O => v :: r
  | x :: r, S n' => x :: set_nth n' v r
  end.

Section Generic.
Context {A : Type} (cmp : A -> A -> comparison).

Definition leb (a b : A) : bool := match cmp a b with Gt => false | _ => true end.

(* ---------------- the loser tree of merge.rs ---------------- *)
(* cursors: per stream the rows not yet consumed.  [] = the stream is exhausted (cursors[i] = None in the
   code: a finished batch cursor is replaced at once by the next non-empty batch of the stream, or None). *)
Definition cur (cs : list (list A)) (i : nat) : list A := nth i cs [].

(* fn is_gt(a, b): exhausted cursors are greater than everything; ties are broken by the stream index *)
Definition is_gt (cs : list (list A)) (a b : nat) : bool :=
  match cur cs a, cur cs b with
  | [], _ => true
  | _ :: _, [] => false
  | x :: _, y :: _ => match cmp x y with Gt => true | Lt => false | Eq => b <? a end
  end.

(* lt_leaf_node_index: usize::midpoint(cursors.len(), cursor_index);  lt_parent_node_index: n / 2 *)
Definition leaf_node (k i : nat) : nat := (k + i) / 2.

(* one comparison at tree node n:  if is_gt(winner, challenger) { loser_tree[n] = winner; winner = challenger } *)
Definition cmp_step (cs : list (list A)) (tw : list nat * nat) (n : nat) : list nat * nat :=
  let '(tree, winner) := tw in
  let challenger := nth n tree 0 in
  if is_gt cs winner challenger then (set_nth n winner tree, challenger) else (tree, winner).

(* init_loser_tree, inner loop.  The value k plays usize::MAX (<dq>not set yet<dq>): stream indices are < k.
     while cmp_node != 0 && loser_tree[cmp_node] != usize::MAX { compare; cmp_node = parent }
     loser_tree[cmp_node] = winner *)
Fixpoint init_walk (fuel : nat) (cs : list (list A)) (k : nat) (tree : list nat) (winner cmp_node : nat) : list nat :=
  match fuel with
  | O => set_nth cmp_node winner tree
  | S f =>
      if (cmp_node =? 0) || (nth cmp_node tree k =? k)
      then set_nth cmp_node winner tree
      else let '(tree', winner') := cmp_step cs (tree, winner) cmp_node in
           init_walk f cs k tree' winner' (cmp_node / 2)
  end.

(* for i in 0..k *)
Fixpoint init_from (n : nat) (cs : list (list A)) (k : nat) (tree : list nat) (i : nat) : list nat :=
  match n with
  | O => tree
  | S n' => init_from n' cs k (init_walk k cs k tree i (leaf_node k i)) (S i)
  end.

Definition init_loser_tree (cs : list (list A)) : list nat :=
  let k := length cs in init_from k cs k (repeat k k) 0.

(* update_loser_tree (round-robin tie breaker off):  while cmp_node > 1 { compare; parent } *)
Fixpoint update_walk (fuel : nat) (cs : list (list A)) (tw : list nat * nat) (cmp_node : nat) : list nat * nat * nat :=
  match fuel with
  | O => (tw, cmp_node)
  | S f => if cmp_node <=? 1 then (tw, cmp_node)
           else update_walk f cs (cmp_step cs tw cmp_node) (cmp_node / 2)
  end.

Definition update_loser_tree (cs : list (list A)) (tree : list nat) : list nat :=
  let k := length cs in
  let w0 := nth 0 tree 0 in
  let '(tw, cn) := update_walk k cs (tree, w0) (leaf_node k w0) in
  (* if cmp_node == 1 { ... else if is_gt(winner, challenger) { update_winner } } *)
  let '(tree', winner) := if cn =? 1 then cmp_step cs tw 1 else tw in
  (* loser_tree[0] = winner *)
  set_nth 0 winner tree'.

(* ---- specification vocabulary for the loser tree ----
   stream a comes before stream b: by head row, ties by stream index; exhausted streams come last *)
Definition stream_le (cs : list (list A)) (a b : nat) : Prop :=
  match cur cs a, cur cs b with
  | _, [] => True
  | [], _ :: _ => False
  | x :: _, y :: _ => cmp x y = Lt \/ (cmp x y = Eq /\ a <= b)
  end.

(* the (cursors, loser_tree) states the merge can be in: after init_loser_tree, and after every update_loser_tree
   that follows a change of the current winner's cursor (advanced, refilled from the next batch, or exhausted --
   the new cursor content of the winner is arbitrary here), the other cursors being untouched *)
Inductive lt_reach : list (list A) -> list nat -> Prop :=
  | lt_reach_init cs : lt_reach cs (init_loser_tree cs)
  | lt_reach_update cs cs' tree :
      lt_reach cs tree -> length cs' = length cs -> cur cs (nth 0 tree 0) <> [] ->
      (forall j, j <> nth 0 tree 0 -> cur cs' j = cur cs j) ->
      lt_reach cs' (update_loser_tree cs' tree).

(* the merge loop of create_stream: while !is_exhausted() { push_row(winner); [fetch reached => break];
   advance the winner's cursor; update_loser_tree }.  Emits (stream index, row), as BatchBuilder::push_row does. *)
Fixpoint merge_loop (fuel : nat) (cs : list (list A)) (tree : list nat) : list (nat * A) :=
  match fuel with
  | O => []
  | S f =>
      let w := nth 0 tree 0 in
      match cur cs w with
      | [] => []
      | x :: rest =>
          let cs' := set_nth w rest cs in
          (w, x) :: merge_loop f cs' (update_loser_tree cs' tree)
      end
  end.

Definition total (cs : list (list A)) : nat := length (concat cs).

Definition lt_merge_idx (cs : list (list A)) (fetch : option nat) : list (nat * A) :=
  let n := total cs in
  merge_loop (match fetch with Some f => Nat.min f n | None => n end) cs (init_loser_tree cs).

Definition lt_merge (cs : list (list A)) (fetch : option nat) : list A := map snd (lt_merge_idx cs fetch).

(* ---------------- sorted runs merged in groups (ExternalSorter + MultiLevelMergeBuilder) ---------------- *)
(* [gs]: the group size chosen at each merge pass (it depends on memory and on max_spill_merge_fan_in;
   effective_spill_merge_fan_in makes it at least 2).  Each pass merges the first g runs of the queue with the
   loser tree and appends the result to the end of the queue; when the schedule ends, or the whole queue fits,
   everything left is merged. *)
Fixpoint multi_level (gs : list nat) (queue : list (list A)) : list A :=
  match gs with
  | [] => lt_merge queue None
  | g :: gs' =>
      let g' := Nat.max 2 g in
      if length queue <=? g' then lt_merge queue None
      else multi_level gs' (skipn g' queue ++ [lt_merge (firstn g' queue) None])
  end.

(* [srt]: the in-memory sort of one buffered chunk (Arrow's lexsort kernel, external: any sorting function) *)
Definition external_sort (srt : list A -> list A) (gs : list nat) (chunks : list (list A)) : list A :=
  multi_level gs (map srt chunks).

(* ---------------- TopK (topk/mod.rs) ---------------- *)
(* The heap (a std BinaryHeap, max at the top) is modelled by its sorted contents: max = last element. *)
Fixpoint ins_sorted (x : A) (l : list A) : list A :=
  match l with
  | [] => [x]
  | y :: r => match cmp x y with Lt => x :: y :: r | _ => y :: ins_sorted x r end
  end.

(* find_new_topk_items + TopKHeap::add, one row:
     match heap.max() { Some(max_row) if row >= max_row => {}  (reject)
                        None | Some(_) => heap.add(row) }      (evicting the max when the heap is full)
   heap.max() is None until the heap holds k rows. *)
Definition topk_add (k : nat) (h : list A) (x : A) : list A :=
  if length h <? k then ins_sorted x h
  else match rev h with
       | [] => h                      (* k = 0: TopKHeap::new asserts k > 0 *)
       | m :: r' => match cmp x m with Lt => ins_sorted x (rev r') | _ => h end
       end.

(* insert_batch for every batch, then emit (into_sorted_vec) *)
Definition topk (k : nat) (batches : list (list A)) : list A :=
  fold_left (fun h b => fold_left (topk_add k) b h) batches [].

(* ---------------- boolean checkers used on the implementation's observed output ---------------- *)
Fixpoint sortedb (l : list A) : bool :=
  match l with
  | [] => true
  | x :: r => match r with [] => true | y :: _ => leb x y && sortedb r end
  end.

End Generic.

(* multiset difference on rows identified by equality of (key, id) *)
Definition oz_eqb (a b : option Z) : bool := opt_eqb Z.eqb a b.
Definition row_eqb (a b : row) : bool := list_eqb oz_eqb (rkey a) (rkey b) && Z.eqb (rid a) (rid b).

Fixpoint remove_first (x : row) (l : list row) : option (list row) :=
  match l with
  | [] => None
  | y :: r => if row_eqb x y then Some r
              else match remove_first x r with Some r' => Some (y :: r') | None => None end
  end.

(* Some rest: [l1] is a sub-multiset of [l2] and rest is what remains *)
Fixpoint remove_all (l1 l2 : list row) : option (list row) :=
  match l1 with
  | [] => Some l2
  | x :: r => match remove_first x l2 with Some l2' => remove_all r l2' | None => None end
  end.

(* <dq>out is a correct answer of ORDER BY os [LIMIT fetch] on input<dq> *)
Definition sort_check (os : list sopt) (input : list row) (fetch : option nat) (out : list row) : bool :=
  sortedb (cmp_row os) out &&
  match remove_all out input with
  | None => false
  | Some rest =>
      match fetch with
      | None => match rest with [] => true | _ => false end
      | Some f => (length out =? Nat.min f (length input)) &&
                  forallb (fun y => forallb (fun x => leb (cmp_row os) x y) out) rest
      end
  end.

(* ------------------------------------------------------------------ correspondence cases *)
Definition find_row (input : list row) (id : Z) : option row := find (fun r => Z.eqb (rid r) id) input.
Fixpoint rows_of (input : list row) (ids : list Z) : option (list row) :=
  match ids with
  | [] => Some []
  | i :: r => match find_row input i, rows_of input r with
              | Some x, Some xs => Some (x :: xs)
              | _, _ => None
              end
  end.

Definition keys_eqb (a b : list row) : bool :=
  list_eqb (list_eqb oz_eqb) (map rkey a) (map rkey b).

(* insertion sort with the model comparator, stable (stands for the in-memory sort kernel when the model is run) *)
Definition isort (os : list sopt) (l : list row) : list row :=
  fold_left (fun acc x => ins_sorted (cmp_row os) x acc) l [].

Inductive c08_case :=
  (* streaming merge of sorted partitions, round-robin tie breaker off: exact output sequence of row ids *)
  | C08Merge (os : list sopt) (parts : list (list row)) (fetch : option Z) (out_ids : list Z)
  (* any sort operator: input rows, fetch, observed output ids -- checked as a valid sort / valid top-k;
     and the key sequence must equal the model's (TopK heap model if fetch, runs + multi-level merge if not) *)
  | C08Sort (os : list sopt) (chunks : list (list row)) (gs : list Z) (fetch : option Z) (out_ids : list Z).

Definition fetch_nat (f : option Z) : option nat :=
  match f with Some z => Some (Z.to_nat z) | None => None end.

Definition c08_check (c : c08_case) : bool :=
  match c with
  | C08Merge os parts fetch out_ids =>
      zlist_eqb (map rid (lt_merge (cmp_row os) parts (fetch_nat fetch))) out_ids
  | C08Sort os chunks gs fetch out_ids =>
      let input := concat chunks in
      match rows_of input out_ids with
      | None => false
      | Some out =>
          sort_check os input (fetch_nat fetch) out &&
          keys_eqb out
            (match fetch with
             | Some f => topk (cmp_row os) (Z.to_nat f) chunks
             | None => external_sort (cmp_row os) (isort os) (map Z.to_nat gs) chunks
             end)
      end
  end.
