(* C16 -- model of datafusion/physical-plan/src/spill/spill_pool.rs (spsc_channel / mpsc_channel).

   The pool is modelled with the data structures of the code:
     SpillPoolShared        { files, open_write_files, waker, remaining_writer_count }
     ActiveSpillFileShared  { batches_written, estimated_size, writer_finished, waker }   (+ the file's contents)
     SpillPoolReader        { current_file } / SpillPoolFileReader { batches_read }
   and with one Gallina function per lock-protected critical section of the code ([sec_*]).  Two executions are
   built from the SAME sections:
     - the call-granularity run ([step] / [run]): every push_batch / drop / poll_next call runs its sections in program
       order without interruption.  This is what the harness replays on the real channel, and what the theorems of
       Proofs/SpillPoolProofs.v quantify over (all interleavings of CALLS);
     - the critical-section-granularity run ([fstep] / [frun] in Model/SpillPoolFine.v): threads are preempted between
       sections.  It is executable and explored exhaustively for small bounds (a test, see [explore] there), not covered
       by the theorems.

   Modelling decisions (each checked against the code):
     * `files` is [skipn qfront store]: files are only pushed at the back (push_batch) and popped at the front (reader),
       so the queue is a window of the list of all files ever created; open_write_files holds indices into [store].
     * `writer: Option<InProgressSpillFile>` is None exactly when writer_finished is true (every section that takes the
       writer also sets the flag in the same critical section, in the repaired code); one flag [f_finished] stands for both.
     * I/O: append_batch/flush either succeed or fail ([fault], an input of the push: the harness injects the failure);
       a rotation's finish() may fail ([FailFinish]); reading back batch number k of a file yields the k-th batch
       appended to it (IPC encoding is C21's subject).  create_in_progress_file is assumed to succeed.
     * a poll whose file read is still in flight returns Pending after registering the pool-level waker and is polled
       again when the I/O completes; [io] on a poll says that this happened (observable only through [pwaker]).
     * [repaired = false] is the behaviour of the pinned upstream commit: a failed append (or rotation finish) returns
       through `?` without sealing the file, which was already popped from open_write_files. *)
From DF Require Import Base.Prelude.
From Coq Require Import Lia PeanoNat.
Open Scope Z_scope.

(* ------------------------------------------------------------------ state *)
Record file := mkFile {
  f_batches : list Z;     (* ids of the batches appended, in order; batches_written = length *)
  f_size : Z;             (* estimated_size *)
  f_finished : bool;      (* writer_finished *)
  f_waker : bool }.       (* a reader waker is registered on this file *)

Record pool := mkPool {
  store : list file;      (* every file ever pushed to `files`, in push order *)
  qfront : nat;           (* number of files popped by the reader: `files` = skipn qfront store *)
  openw : list nat;       (* open_write_files (indices into store) *)
  pwaker : bool;          (* pool-level waker registered *)
  wcount : nat;           (* remaining_writer_count *)
  cur : bool;             (* reader: current_file.is_some() -- it is always the front of `files` *)
  rread : nat;            (* reader: batches_read of the current file *)
  wakes : nat;            (* number of Waker::wake calls issued so far *)
  rpending : bool;        (* the reader's last poll returned Pending *)
  woken : bool;           (* a wake was issued since the reader's last poll started *)
  appended : list Z;      (* ghost: batches durably appended, in append order *)
  yielded : list Z }.     (* ghost: batches the reader has returned, in order *)

Definition new_file := mkFile [] 0 false false.
Definition dfile := mkFile [] 0 true false.   (* out-of-range default; never reached under the invariant *)
Definition getf (p : pool) (i : nat) : file := nth i (store p) dfile.

Fixpoint upd {A} (i : nat) (g : A -> A) (l : list A) : list A :=
  match l, i with
  | [], _ => []
  | x :: r, O => g x :: r
  | x :: r, S j => x :: upd j g r
  end.

Definition set_store s p := mkPool s (qfront p) (openw p) (pwaker p) (wcount p) (cur p) (rread p) (wakes p) (rpending p) (woken p) (appended p) (yielded p).
Definition set_openw o p := mkPool (store p) (qfront p) o (pwaker p) (wcount p) (cur p) (rread p) (wakes p) (rpending p) (woken p) (appended p) (yielded p).
Definition set_pwaker b p := mkPool (store p) (qfront p) (openw p) b (wcount p) (cur p) (rread p) (wakes p) (rpending p) (woken p) (appended p) (yielded p).
Definition set_wcount n p := mkPool (store p) (qfront p) (openw p) (pwaker p) n (cur p) (rread p) (wakes p) (rpending p) (woken p) (appended p) (yielded p).
Definition set_reader q c r p := mkPool (store p) q (openw p) (pwaker p) (wcount p) c r (wakes p) (rpending p) (woken p) (appended p) (yielded p).
Definition set_flags rp wk p := mkPool (store p) (qfront p) (openw p) (pwaker p) (wcount p) (cur p) (rread p) (wakes p) rp wk (appended p) (yielded p).
Definition log_append b p := mkPool (store p) (qfront p) (openw p) (pwaker p) (wcount p) (cur p) (rread p) (wakes p) (rpending p) (woken p) (appended p ++ [b]) (yielded p).
Definition log_yield b p := mkPool (store p) (qfront p) (openw p) (pwaker p) (wcount p) (cur p) (rread p) (wakes p) (rpending p) (woken p) (appended p) (yielded p ++ [b]).

(* Waker::wake() on a registered waker *)
Definition fire (b : bool) (p : pool) : pool :=
  if b then mkPool (store p) (qfront p) (openw p) (pwaker p) (wcount p) (cur p) (rread p) (S (wakes p)) (rpending p) true (appended p) (yielded p)
  else p.

Definition f_clear_waker f := mkFile (f_batches f) (f_size f) (f_finished f) false.
Definition f_set_waker f := mkFile (f_batches f) (f_size f) (f_finished f) true.
Definition f_finish f := mkFile (f_batches f) (f_size f) true (f_waker f).
Definition f_append b sz f := mkFile (f_batches f ++ [b]) (f_size f + sz) (f_finished f) (f_waker f).

(* SpillPoolShared::wake / ActiveSpillFileShared::wake: take the waker, wake it *)
Definition pool_wake (p : pool) : pool := fire (pwaker p) (set_pwaker false p).
Definition file_wake (i : nat) (p : pool) : pool :=
  fire (f_waker (getf p i)) (set_store (upd i f_clear_waker (store p)) p).

(* ------------------------------------------------------------------ writer side: critical sections *)
Inductive fault := NoFault | FailAppend | FailFinish.
Definition is_fail_append f := match f with FailAppend => true | _ => false end.
Definition is_fail_finish f := match f with FailFinish => true | _ => false end.

(* push_batch, section 1 (pool lock): take an open write file if there is one *)
Definition sec_take (p : pool) : option nat * pool :=
  match openw p with
  | i :: r => (Some i, set_openw r p)
  | [] => (None, p)
  end.

(* push_batch, section 2 (pool lock, after create_in_progress_file): files.push_back(new); shared.wake() *)
Definition sec_publish (p : pool) : nat * pool :=
  (length (store p), pool_wake (set_store (store p ++ [new_file]) p)).

Inductive app_res := ADone (ok : bool) | APutBack.

(* push_batch, section 3 (file lock): append + flush, wake, rotate when estimated_size > max_file_size_bytes *)
Definition sec_append (repaired : bool) (maxsz : Z) (i : nat) (b sz : Z) (flt : fault) (p : pool) : app_res * pool :=
  let can := negb (f_finished (getf p i)) in          (* `if let Some(ref mut writer) = file_shared.writer` *)
  if can && is_fail_append flt then
    if repaired
    then (ADone false, file_wake i (set_store (upd i f_finish (store p)) p))   (* seal, wake, return Err *)
    else (ADone false, p)                                                    (* upstream: `?` returns at once *)
  else
    let p1 := if can then log_append b (set_store (upd i (f_append b sz) (store p)) p) else p in
    let p2 := file_wake i p1 in
    if f_size (getf p2 i) >? maxsz then
      let fin_ok := negb (can && is_fail_finish flt) in
      if repaired || fin_ok
      then (ADone fin_ok, set_store (upd i f_finish (store p2)) p2)   (* the second file_shared.wake() finds no waker *)
      else (ADone false, p2)                                          (* upstream: `writer.finish()?` returns before the flag is set *)
    else (APutBack, p2).

(* push_batch, section 4 (pool lock): open_write_files.push_back(write_file) *)
Definition sec_putback (i : nat) (p : pool) : pool := set_openw (openw p ++ [i]) p.

(* Drop for SpillPoolSink, section 1 (pool lock) *)
Inductive drop_res := DDone | DFinalize (fs : list nat).
Definition sec_drop_dec (p : pool) : drop_res * pool :=
  let p1 := set_wcount (pred (wcount p)) p in
  if Nat.eqb (wcount p1) 0 then
    match openw p1 with
    | [] => (DDone, pool_wake p1)
    | fs => (DFinalize fs, set_openw [] p1)
    end
  else (DDone, p1).
(* section 2 (file lock), once per file taken *)
Definition sec_finalize (i : nat) (p : pool) : pool :=
  file_wake i (set_store (upd i f_finish (store p)) p).
(* section 3 (pool lock): shared.wake() *)
Definition sec_drop_wake (p : pool) : pool := pool_wake p.

(* ------------------------------------------------------------------ reader side: critical sections *)
Inductive pollres := PBatch (b : Z) | PPending | PEof | PFuel.

(* SpillPoolFile::poll_next step 1 (file lock) *)
Inductive fchk := FRead | FEof | FWait.
Definition sec_file_check (p : pool) : fchk * pool :=
  let f := getf p (qfront p) in
  if Nat.ltb (rread p) (length (f_batches f)) then (FRead, p)
  else if f_finished f then (FEof, p)
  else (FWait, set_store (upd (qfront p) f_set_waker (store p)) p).
(* step 3 (no lock): read the next batch from the file stream; [io]: the read was in flight at first, the poll
   returned Pending through SpillPoolReader (which registers the pool waker) and was repeated on the I/O wake *)
Definition sec_read (io : bool) (p : pool) : Z * pool :=
  let b := nth (rread p) (f_batches (getf p (qfront p))) 0 in
  (b, log_yield b (set_reader (qfront p) (cur p) (S (rread p)) (if io then set_pwaker true p else p))).
(* SpillPoolReader::poll_next: file exhausted and writer_finished -> files.pop_front(), current_file = None *)
Definition sec_pop (p : pool) : pool := set_reader (S (qfront p)) false 0%nat p.
(* SpillPoolReader::poll_next: file Pending -> register pool waker *)
Definition sec_reg_pool (p : pool) : pool := set_pwaker true p.
(* SpillPoolReader::poll_next without a current file (pool lock) *)
Inductive nchk := NFile | NEof | NWait.
Definition sec_next_file (p : pool) : nchk * pool :=
  if Nat.ltb (qfront p) (length (store p)) then (NFile, set_reader (qfront p) true 0%nat p)
  else if Nat.eqb (wcount p) 0 then (NEof, p)
  else (NWait, set_pwaker true p).

(* ------------------------------------------------------------------ call-granularity execution *)
(* sections 1 and 2 of push_batch: an open write file, or a newly created and published one *)
Definition get_file (p : pool) : nat * pool :=
  match sec_take p with
  | (Some i, p1) => (i, p1)
  | (None, p1) => sec_publish p1
  end.

Definition do_push (repaired : bool) (maxsz : Z) (b rows sz : Z) (flt : fault) (p : pool) : bool * pool :=
  if rows =? 0 then (true, p) else          (* empty batches are skipped *)
  let '(i, p2) := get_file p in
  match sec_append repaired maxsz i b sz flt p2 with
  | (ADone ok, p3) => (ok, p3)
  | (APutBack, p3) => (true, sec_putback i p3)
  end.

Definition do_drop (p : pool) : pool :=
  match sec_drop_dec p with
  | (DDone, p1) => p1
  | (DFinalize fs, p1) => sec_drop_wake (fold_left (fun q i => sec_finalize i q) fs p1)
  end.

Fixpoint poll_loop (fuel : nat) (io : bool) (p : pool) : pollres * pool :=
  match fuel with
  | O => (PFuel, p)
  | S k =>
    if cur p then
      match sec_file_check p with
      | (FRead, p1) => let '(b, p2) := sec_read io p1 in (PBatch b, p2)
      | (FEof, p1) => poll_loop k io (sec_pop p1)
      | (FWait, p1) => (PPending, sec_reg_pool p1)
      end
    else
      match sec_next_file p with
      | (NFile, p1) => poll_loop k io p1
      | (NEof, p1) => (PEof, p1)
      | (NWait, p1) => (PPending, p1)
      end
  end.

Definition is_pending r := match r with PPending => true | _ => false end.
Definition poll_fuel (p : pool) : nat := (2 * (length (store p) - qfront p) + 2)%nat.
Definition do_poll (io : bool) (p : pool) : pollres * pool :=
  let '(r, p1) := poll_loop (poll_fuel p) io (set_flags false false p) in
  (r, set_flags (is_pending r) (woken p1) p1).

Inductive op := Push (w : nat) (b rows sz : Z) (flt : fault) | DropW (w : nat) | Poll (io : bool).
Inductive out := OPush (ok : bool) (wk : Z) | ODrop (wk : Z) | OPoll (r : pollres).

(* A push or drop needs a live writer: with remaining_writer_count = 0 no SpillPoolSink exists (Rust ownership),
   such schedules are rejected. *)
Definition step (repaired : bool) (maxsz : Z) (p : pool) (o : op) : option (pool * out) :=
  match o with
  | Push _ b rows sz flt =>
      if Nat.eqb (wcount p) 0 then None else
      let '(ok, p') := do_push repaired maxsz b rows sz flt p in
      Some (p', OPush ok (Z.of_nat (wakes p' - wakes p)))
  | DropW _ =>
      if Nat.eqb (wcount p) 0 then None else
      let p' := do_drop p in Some (p', ODrop (Z.of_nat (wakes p' - wakes p)))
  | Poll io => let '(r, p') := do_poll io p in Some (p', OPoll r)
  end.

Fixpoint run (repaired : bool) (maxsz : Z) (p : pool) (ops : list op) : option (pool * list out) :=
  match ops with
  | [] => Some (p, [])
  | o :: r =>
    match step repaired maxsz p o with
    | None => None
    | Some (p', x) =>
      match run repaired maxsz p' r with
      | None => None
      | Some (p'', xs) => Some (p'', x :: xs)
      end
    end
  end.

Definition init (nw : nat) : pool := mkPool [] 0 [] false nw false 0 0 false false [] [].

(* the reader polls [n] more times *)
Fixpoint poll_many (n : nat) (p : pool) : list pollres * pool :=
  match n with
  | O => ([], p)
  | S k => let '(r, p1) := do_poll false p in let '(rs, p2) := poll_many k p1 in (r :: rs, p2)
  end.

(* ------------------------------------------------------------------ specification vocabulary *)
Definition flat (l : list file) : list Z := concat (map f_batches l).
(* what a drained reader still has to deliver *)
Definition remaining (p : pool) : list Z := skipn (rread p) (flat (skipn (qfront p) (store p))).
Definition all_finished (p : pool) : bool := forallb f_finished (store p).
Definition queue_empty (p : pool) : bool := Nat.eqb (qfront p) (length (store p)).
(* the reader is parked: it returned Pending and no wake has been issued since *)
Definition parked (p : pool) : bool := rpending p && negb (woken p).
Definition count_drops (ops : list op) : nat := length (filter (fun o => match o with DropW _ => true | _ => false end) ops).
(* ids of the non-empty pushes that returned Ok, in call order *)
Fixpoint ok_pushes (ops : list op) (outs : list out) : list Z :=
  match ops, outs with
  | Push _ b rows _ _ :: r, OPush ok _ :: s => if ok && negb (rows =? 0) then b :: ok_pushes r s else ok_pushes r s
  | _ :: r, _ :: s => ok_pushes r s
  | _, _ => []
  end.
(* ids of the non-empty pushes whose append did not fail (durably in a spill file), in call order *)
Definition durable (ops : list op) : list Z :=
  flat_map (fun o => match o with
                     | Push _ b rows _ flt => if (rows =? 0) || is_fail_append flt then [] else [b]
                     | _ => []
                     end) ops.
Definition attempted (ops : list op) : list Z :=
  flat_map (fun o => match o with Push _ b rows _ _ => if rows =? 0 then [] else [b] | _ => [] end) ops.
Fixpoint is_prefix (a b : list Z) : bool :=
  match a, b with
  | [], _ => true
  | x :: a', y :: b' => (x =? y) && is_prefix a' b'
  | _, _ => false
  end.

(* ------------------------------------------------------------------ correspondence case *)
Definition pollres_eqb a b :=
  match a, b with
  | PBatch x, PBatch y => x =? y
  | PPending, PPending | PEof, PEof | PFuel, PFuel => true
  | _, _ => false
  end.
Definition out_eqb a b :=
  match a, b with
  | OPush o1 w1, OPush o2 w2 => Bool.eqb o1 o2 && (w1 =? w2)
  | ODrop w1, ODrop w2 => w1 =? w2
  | OPoll r1, OPoll r2 => pollres_eqb r1 r2
  | _, _ => false
  end.

Inductive c16_case := C16 (nw : Z) (thr : Z) (ops : list op) (observed : list out).
Definition c16_check (c : c16_case) : bool :=
  match c with
  | C16 nw thr ops obs =>
    match run true thr (init (Z.to_nat nw)) ops with
    | Some (_, outs) => list_eqb out_eqb outs obs
    | None => false
    end
  end.
