(* C40 -- file caches: validity rules, LRU order, byte budget.  Executable definitions only.

   Faithful model of
     datafusion/execution/src/cache/lru_queue.rs      (LruQueue: HashMap + doubly linked recency list)
     datafusion/execution/src/cache/default_cache.rs  (DefaultCacheState / DefaultCache)
     datafusion/execution/src/cache/cache_manager.rs  (is_valid_for of the cached value types)
   and of the caller protocol "get; if missing or not valid for the file's current metadata then
   recompute and put" (datasource-parquet/src/metadata.rs, catalog-listing/src/table.rs,
   datasource/src/url.rs).

   The recency list is a Coq list, most recently used first (head = LruList.head, last = tail).
   Sizes, limits and times are Z (usize / Instant / Duration; no wrap-around is modelled).
   (a) concrete model   (b) specification: recency of a history, the unbounded ideal map
   (c) client level (Lookup) and the correspondence check. *)
From DF Require Import Base.Prelude.
Open Scope Z_scope.

(* ------------------------------------------------------------------ keys, values *)
(* CacheKey: Eq + Hash, size(), table_ref().  size and table are functions of the key. *)
Record key := mkKey { k_id : Z; k_size : Z; k_tab : option Z }.
Definition key_eqb (a b : key) : bool :=
  (k_id a =? k_id b) && (k_size a =? k_size b) && zopt_eqb (k_tab a) (k_tab b).

(* the part of ObjectMeta (+ schema fingerprint) the validity rules look at *)
Record meta := mkMeta { m_fsize : Z; m_mtime : Z; m_schema : Z }.
Definition meta_eqb (a b : meta) : bool :=
  (m_fsize a =? m_fsize b) && (m_mtime a =? m_mtime b) && (m_schema a =? m_schema b).

(* CacheValue: size(); v_id identifies the payload; v_meta = the file metadata it was computed for *)
Record value := mkVal { v_id : Z; v_size : Z; v_meta : meta }.
Definition value_eqb (a b : value) : bool :=
  (v_id a =? v_id b) && (v_size a =? v_size b) && meta_eqb (v_meta a) (v_meta b).

(* CachedFileMetadataEntry::is_valid_for / CachedFileMetadata::is_valid_for:
   size and last-modified unchanged (and the same schema fingerprint) *)
Definition is_valid_for (v : value) (cur : meta) : bool :=
  (m_fsize (v_meta v) =? m_fsize cur) && (m_mtime (v_meta v) =? m_mtime cur)
  && (m_schema (v_meta v) =? m_schema cur).

(* ValueEntry { value, expires } *)
Record entry := mkEntry { e_val : value; e_exp : option Z }.
Definition vsz (e : entry) : Z := v_size (e_val e).

(* ------------------------------------------------------------------ (a) LruQueue *)
Definition queue := list (key * entry).        (* most recently used first *)
Definition keys (q : queue) : list key := map fst q.

Fixpoint lq_peek (k : key) (q : queue) : option entry :=
  match q with
  | [] => None
  | (k', e) :: r => if key_eqb k' k then Some e else lq_peek k r
  end.

Fixpoint lq_del (k : key) (q : queue) : queue :=
  match q with
  | [] => []
  | (k', e) :: r => if key_eqb k' k then r else (k', e) :: lq_del k r
  end.

(* LruQueue::remove: unlink the node, return the value *)
Definition lq_remove (k : key) (q : queue) : option entry * queue := (lq_peek k q, lq_del k q).

(* LruQueue::put: remove the old node, push a new head *)
Definition lq_put (k : key) (e : entry) (q : queue) : option entry * queue :=
  let '(old, q1) := lq_remove k q in (old, (k, e) :: q1).

(* LruQueue::get: if let Some(v) = self.remove(k) { self.put(k, v) }; self.data.get(k) *)
Definition lq_get (k : key) (q : queue) : option entry * queue :=
  let '(r, q1) := lq_remove k q in
  let q2 := match r with Some e => snd (lq_put k e q1) | None => q1 end in
  (lq_peek k q2, q2).

Fixpoint last_key (q : queue) : option key :=
  match q with
  | [] => None
  | [(k, _)] => Some k
  | _ :: r => last_key r
  end.

(* LruQueue::pop: key of the tail node, then remove(&key).unwrap() *)
Definition lq_pop (q : queue) : option (key * entry * queue) :=
  match last_key q with
  | None => None
  | Some k => match lq_remove k q with
              | (Some e, q1) => Some (k, e, q1)
              | (None, _) => None
              end
  end.

(* hits: HashMap<K, usize> *)
Definition hmap := list (key * Z).
Fixpoint h_del (k : key) (h : hmap) : hmap :=
  match h with
  | [] => []
  | (k', n) :: r => if key_eqb k' k then h_del k r else (k', n) :: h_del k r
  end.
Fixpoint h_get (k : key) (h : hmap) : option Z :=
  match h with
  | [] => None
  | (k', n) :: r => if key_eqb k' k then Some n else h_get k r
  end.
Definition h_set (k : key) (n : Z) (h : hmap) : hmap := (k, n) :: h_del k h.
(* *self.hits.entry(key).or_insert(0) += 1 *)
Definition h_incr (k : key) (h : hmap) : hmap :=
  h_set k (match h_get k h with Some n => n + 1 | None => 0 + 1 end) h.

(* ------------------------------------------------------------------ (a) DefaultCacheState *)
Record state := mkState {
  s_q : queue; s_hits : hmap; s_limit : Z; s_used : Z; s_ttl : option Z }.

Definition init (limit : Z) (ttl : option Z) : state := mkState [] [] limit 0 ttl.

Definition expired (e : entry) (now : Z) : bool :=
  match e_exp e with Some x => now >? x | None => false end.

Definition c_remove (st : state) (k : key) : state * option value :=
  match lq_remove k (s_q st) with
  | (Some e, q1) =>
      (mkState q1 (h_del k (s_hits st)) (s_limit st) (s_used st - k_size k - vsz e) (s_ttl st),
       Some (e_val e))
  | (None, _) => (st, None)
  end.

Definition c_get (st : state) (k : key) (now : Z) : state * option value :=
  let '(r, q1) := lq_get k (s_q st) in
  let st1 := mkState q1 (s_hits st) (s_limit st) (s_used st) (s_ttl st) in
  match r with
  | None => (st1, None)
  | Some e =>
      if expired e now then (fst (c_remove st1 k), None)
      else (mkState q1 (h_incr k (s_hits st)) (s_limit st) (s_used st) (s_ttl st), Some (e_val e))
  end.

Definition c_contains (st : state) (k : key) (now : Z) : state * bool :=
  match lq_peek k (s_q st) with
  | None => (st, false)
  | Some e => if expired e now then (fst (c_remove st k), false) else (st, true)
  end.

(* evict_entries: while memory_used > memory_limit { pop the tail }.  The loop runs at most once
   per queued entry plus the final test, hence the fuel. *)
Fixpoint evict_loop (fuel : nat) (st : state) : state :=
  match fuel with
  | O => st
  | S f =>
      if s_used st >? s_limit st then
        match lq_pop (s_q st) with
        | None => mkState (s_q st) (s_hits st) (s_limit st) 0 (s_ttl st)   (* "cannot happen" arm *)
        | Some (k, e, q1) =>
            evict_loop f (mkState q1 (h_del k (s_hits st)) (s_limit st)
                                  (s_used st - k_size k - vsz e) (s_ttl st))
        end
      else st
  end.
Definition c_evict (st : state) : state := evict_loop (S (length (s_q st))) st.

Definition c_put (st : state) (k : key) (v : value) (now : Z) : state * option value :=
  let value_size := v_size v in
  if value_size =? 0 then (st, None) else
  let key_size := k_size k in
  let total_size := key_size + value_size in
  if total_size >? s_limit st then c_remove st k else
  let expires := option_map (fun t => now + t) (s_ttl st) in
  let e := mkEntry v expires in
  let used1 := s_used st + total_size in
  let hits1 := h_set k 0 (s_hits st) in
  let '(old, q1) := lq_put k e (s_q st) in
  let used2 := match old with Some oe => used1 - key_size - vsz oe | None => used1 end in
  (c_evict (mkState q1 hits1 (s_limit st) used2 (s_ttl st)), option_map e_val old).

Definition c_clear (st : state) : state := mkState [] [] (s_limit st) 0 (s_ttl st).

Definition c_set_limit (st : state) (l : Z) : state :=
  c_evict (mkState (s_q st) (s_hits st) l (s_used st) (s_ttl st)).

Definition c_set_ttl (st : state) (t : option Z) : state :=
  mkState (s_q st) (s_hits st) (s_limit st) (s_used st) t.

Definition tab_matches (t : Z) (k : key) : bool :=
  match k_tab k with Some t' => t' =? t | None => false end.

Definition remove_all (st : state) (ks : list key) : state :=
  fold_left (fun s k => fst (c_remove s k)) ks st.

(* drop_table_entries: collect the keys of that table, remove each (the Rust iterates the HashMap;
   LruCacheProofs.remove_all_perm shows the order is irrelevant) *)
Definition c_drop_table (st : state) (t : Z) : state :=
  remove_all st (filter (tab_matches t) (keys (s_q st))).

(* ------------------------------------------------------------------ (a) DefaultCache + clock *)
Record world := mkWorld { w_st : state; w_now : Z }.

Inductive op :=
  | OGet (k : key)
  | OContains (k : key)
  | OPut (k : key) (v : value)
  | ORemove (k : key)
  | OClear
  | OSetLimit (l : Z)            (* update_cache_limit *)
  | OSetTtl (t : option Z)       (* update_cache_ttl *)
  | OAdvance (dt : Z)            (* the TimeProvider moves forward *)
  | ODropTable (t : Z).          (* drop_table_entries *)

Inductive out :=
  | RVal (o : option value)
  | RBool (b : bool)
  | RUnit.

Definition step (w : world) (o : op) : world * out :=
  let st := w_st w in
  let now := w_now w in
  match o with
  | OGet k => let '(st', r) := c_get st k now in (mkWorld st' now, RVal r)
  | OContains k => let '(st', b) := c_contains st k now in (mkWorld st' now, RBool b)
  | OPut k v => let '(st', r) := c_put st k v now in (mkWorld st' now, RVal r)
  | ORemove k => let '(st', r) := c_remove st k in (mkWorld st' now, RVal r)
  | OClear => (mkWorld (c_clear st) now, RUnit)
  | OSetLimit l => (mkWorld (c_set_limit st l) now, RUnit)
  | OSetTtl t => (mkWorld (c_set_ttl st t) now, RUnit)
  | OAdvance dt => (mkWorld st (now + dt), RUnit)
  | ODropTable t => (mkWorld (c_drop_table st t) now, RUnit)
  end.

Definition run (w : world) (ops : list op) : world := fold_left (fun w o => fst (step w o)) ops w.
Definition start (limit : Z) (ttl : option Z) : world := mkWorld (init limit ttl) 0.

(* type constraints of the Rust API: usize sizes and limits, Duration ttl and clock steps *)
Definition op_wf (o : op) : Prop :=
  match o with
  | OPut k v => 0 <= k_size k /\ 0 <= v_size v
  | OSetLimit l => 0 <= l
  | _ => True
  end.

Fixpoint qsum (q : queue) : Z :=
  match q with
  | [] => 0
  | (k, e) :: r => k_size k + vsz e + qsum r
  end.

(* ------------------------------------------------------------------ (b) specification *)
(* recency of a history: which keys were used, most recent first.  A use is a get, or a put that
   is not ignored (zero-sized values are ignored by put); contains_key / remove are not uses. *)
Definition touch (o : op) : option key :=
  match o with
  | OGet k => Some k
  | OPut k v => if v_size v =? 0 then None else Some k
  | _ => None
  end.
Definition rec_step (r : list key) (o : op) : list key :=
  match touch o with
  | Some k => k :: filter (fun k' => negb (key_eqb k' k)) r
  | None => r
  end.
Definition recency (ops : list op) : list key := fold_left rec_step ops [].

Inductive subseq {A} : list A -> list A -> Prop :=
  | ss_nil : subseq [] []
  | ss_skip l r x : subseq l r -> subseq l (x :: r)
  | ss_take l r x : subseq l r -> subseq (x :: l) (x :: r).

(* the ideal cache: an unbounded map without recency, sizes or eviction *)
Definition smap := key -> option entry.
Record sworld := mkSW { sp_map : smap; sp_limit : Z; sp_ttl : option Z; sp_now : Z }.
Definition sm_del (m : smap) (k : key) : smap := fun k' => if key_eqb k' k then None else m k'.
Definition sm_set (m : smap) (k : key) (e : entry) : smap :=
  fun k' => if key_eqb k' k then Some e else m k'.
Definition sm_expire (m : smap) (k : key) (now : Z) : smap :=
  match m k with Some e => if expired e now then sm_del m k else m | None => m end.
Definition sp_start (limit : Z) (ttl : option Z) : sworld := mkSW (fun _ => None) limit ttl 0.

Definition sp_step (s : sworld) (o : op) : sworld :=
  let m := sp_map s in
  match o with
  | OGet k | OContains k => mkSW (sm_expire m k (sp_now s)) (sp_limit s) (sp_ttl s) (sp_now s)
  | OPut k v =>
      if v_size v =? 0 then s
      else if k_size k + v_size v >? sp_limit s then mkSW (sm_del m k) (sp_limit s) (sp_ttl s) (sp_now s)
      else mkSW (sm_set m k (mkEntry v (option_map (fun t => sp_now s + t) (sp_ttl s))))
                (sp_limit s) (sp_ttl s) (sp_now s)
  | ORemove k => mkSW (sm_del m k) (sp_limit s) (sp_ttl s) (sp_now s)
  | OClear => mkSW (fun _ => None) (sp_limit s) (sp_ttl s) (sp_now s)
  | OSetLimit l => mkSW m l (sp_ttl s) (sp_now s)
  | OSetTtl t => mkSW m (sp_limit s) t (sp_now s)
  | OAdvance dt => mkSW m (sp_limit s) (sp_ttl s) (sp_now s + dt)
  | ODropTable t => mkSW (fun k => if tab_matches t k then None else m k) (sp_limit s) (sp_ttl s) (sp_now s)
  end.
Definition sp_run (s : sworld) (ops : list op) : sworld := fold_left sp_step ops s.

(* what the ideal cache answers to get(k) *)
Definition sp_get (s : sworld) (k : key) : option value :=
  match sp_map s k with
  | Some e => if expired e (sp_now s) then None else Some (e_val e)
  | None => None
  end.

(* operations after which a binding of k made earlier is gone (or replaced) *)
Definition kills (k : key) (o : op) : bool :=
  match o with
  | OPut k' v => key_eqb k k' && negb (v_size v =? 0)
  | ORemove k' => key_eqb k k'
  | OClear => true
  | ODropTable t => tab_matches t k
  | _ => false
  end.

(* ------------------------------------------------------------------ (c) client level *)
(* the caller protocol around a cache: use the cached value only if it is valid for the file as it is
   now, otherwise recompute (fresh) and store *)
Definition lookup (w : world) (k : key) (cur : meta) (fresh : value) : world * (bool * value) :=
  let '(w1, r) := step w (OGet k) in
  match r with
  | RVal (Some v) =>
      if is_valid_for v cur then (w1, (true, v))
      else (fst (step w1 (OPut k fresh)), (false, fresh))
  | _ => (fst (step w1 (OPut k fresh)), (false, fresh))
  end.

Inductive cop :=
  | Prim (o : op)
  | Lookup (k : key) (cur : meta) (fresh : value).
Inductive cout :=
  | CPrim (r : out)
  | CLookup (hit : bool) (v : value).

Definition cstep (w : world) (c : cop) : world * cout :=
  match c with
  | Prim o => let '(w', r) := step w o in (w', CPrim r)
  | Lookup k cur fresh => let '(w', (h, v)) := lookup w k cur fresh in (w', CLookup h v)
  end.
Definition cop_wf (c : cop) : Prop :=
  match c with
  | Prim o => op_wf o
  | Lookup k _ fresh => 0 <= k_size k /\ 0 <= v_size fresh
  end.
Definition crun (w : world) (cs : list cop) : world := fold_left (fun w c => fst (cstep w c)) cs w.

(* the primitive operations a client history performs (Lookup resolved by what the cache answered) *)
Fixpoint trace_of (w : world) (cs : list cop) : list op :=
  match cs with
  | [] => []
  | Prim o :: r => o :: trace_of (fst (step w o)) r
  | Lookup k cur fresh :: r =>
      let '(w', (h, _)) := lookup w k cur fresh in
      (if h then [OGet k] else [OGet k; OPut k fresh]) ++ trace_of w' r
  end.

(* ---- observations: what the harness reads after every operation (memory_used, len, cache_limit,
   list_entries sorted by key id with hits and expiry) *)
Inductive eobs := EO (kid vid vsize hits : Z) (exp : option Z).
Definition eobs_eqb (a b : eobs) : bool :=
  match a, b with
  | EO k1 v1 s1 h1 x1, EO k2 v2 s2 h2 x2 =>
      (k1 =? k2) && (v1 =? v2) && (s1 =? s2) && (h1 =? h2) && zopt_eqb x1 x2
  end.

Fixpoint ins_by_id (x : key * entry) (l : queue) : queue :=
  match l with
  | [] => [x]
  | y :: r => if k_id (fst x) <=? k_id (fst y) then x :: l else y :: ins_by_id x r
  end.
Definition sort_q (q : queue) : queue := fold_right ins_by_id [] q.

Definition zlen {A} (l : list A) : Z := Z.of_nat (length l).

Definition observe (st : state) : Z * Z * Z * list eobs :=
  (s_used st, zlen (s_q st), s_limit st,
   map (fun p : key * entry =>
          EO (k_id (fst p)) (v_id (e_val (snd p))) (vsz (snd p))
             (match h_get (fst p) (s_hits st) with Some n => n | None => 0 end) (e_exp (snd p)))
       (sort_q (s_q st))).

Definition obs_eqb (a b : Z * Z * Z * list eobs) : bool :=
  let '(u1, n1, l1, e1) := a in
  let '(u2, n2, l2, e2) := b in
  (u1 =? u2) && (n1 =? n2) && (l1 =? l2) && list_eqb eobs_eqb e1 e2.

Definition out_eqb (a b : out) : bool :=
  match a, b with
  | RVal x, RVal y => opt_eqb value_eqb x y
  | RBool x, RBool y => Bool.eqb x y
  | RUnit, RUnit => true
  | _, _ => false
  end.
Definition cout_eqb (a b : cout) : bool :=
  match a, b with
  | CPrim x, CPrim y => out_eqb x y
  | CLookup h1 v1, CLookup h2 v2 => Bool.eqb h1 h2 && value_eqb v1 v2
  | _, _ => false
  end.

Fixpoint crun_obs (w : world) (cs : list cop) : list (cout * (Z * Z * Z * list eobs)) :=
  match cs with
  | [] => []
  | c :: r => let '(w', o) := cstep w c in (o, observe (w_st w')) :: crun_obs w' r
  end.

(* one observed history of the real DefaultCache: initial limit and ttl, the operations, and after
   every operation its result and the observable state *)
Inductive c40_case :=
  C40 (limit : Z) (ttl : option Z) (ops : list cop) (observed : list (cout * (Z * Z * Z * list eobs))).

Definition c40_check (c : c40_case) : bool :=
  match c with
  | C40 limit ttl ops observed =>
      list_eqb (fun a b => cout_eqb (fst a) (fst b) && obs_eqb (snd a) (snd b))
               (crun_obs (start limit ttl) ops) observed
  end.
