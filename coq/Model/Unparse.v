(* C38 -- model of the expression unparser (datafusion/sql/src/unparser/expr.rs: expr_to_sql_inner, remove_unnecessary_nesting,
   inner_precedence, sql_op_precedence), of sqlparser's Display for expressions, and of sqlparser's precedence-climbing expression
   parser (Parser::parse_subexpr / parse_prefix / parse_infix with Dialect::get_next_precedence_default), over the fragment
   atoms / binary operators (all of enum Operator) / [NOT] LIKE, ILIKE / NOT / unary minus / IS ... / [NOT] IN (atoms).
   The operator set and every number (Operator::precedence, the unparser's constants, sqlparser's Precedence values and levels)
   come from the generated file Gen/OperatorPrec.v.  Definitions only. *)
From Coq Require Import NArith List Bool.
From DF Require Import Base.Prelude Gen.OperatorPrec.
Import ListNotations.
Open Scope N_scope.

Inductive postk : Set := PIsNull | PIsNotNull | PIsTrue | PIsNotTrue | PIsFalse | PIsNotFalse | PIsUnknown | PIsNotUnknown.
Inductive likek : Set := LLike | LNotLike | LILike | LNotILike.

(* infix operators of the SQL text: a BinaryOperator, [NOT] [I]LIKE, IS [NOT] DISTINCT FROM *)
Inductive iop : Set := IOp (o : dfop) | ILike (k : likek) | IDistinct (notd : bool).

(* datafusion_expr::Expr (fragment).  EBin o covers Expr::BinaryExpr for every Operator, IsDistinctFrom / IsNotDistinctFrom included. *)
Inductive expr : Set :=
| EAtom (n : N)                              (* column / literal *)
| EBin (o : dfop) (l r : expr)
| ELike (k : likek) (l r : expr)             (* Expr::Like {negated, case_insensitive}, no escape character *)
| ENot (e : expr)
| ENeg (e : expr)                            (* Expr::Negative *)
| EIs (k : postk) (e : expr)                 (* Expr::IsNull ... Expr::IsNotUnknown *)
| EIn (neg : bool) (e : expr) (items : list N).   (* Expr::InList with atom items *)

(* sqlparser::ast::Expr (fragment); it has an explicit node for parentheses *)
Inductive ast : Set :=
| AAtom (n : N)
| ANested (a : ast)
| AInfix (o : iop) (l r : ast)               (* BinaryOp / Like / ILike / IsDistinctFrom / IsNotDistinctFrom *)
| ANot (a : ast)                             (* UnaryOp Not *)
| ANeg (a : ast)                             (* UnaryOp Minus *)
| APost (k : postk) (a : ast)                (* IsNull ... IsNotUnknown *)
| AIn (neg : bool) (a : ast) (items : list N).

(* ---------------------------------------------------------------- the unparser *)
(* expr_to_sql_inner: BinaryExpr (and IS [NOT] DISTINCT FROM, distinct_from_to_sql FullText style) are wrapped in Nested;
   NOT, unary minus, IS ..., LIKE, IN are not *)
Definition iop_of (o : dfop) : iop :=
  match o with OpIsDistinctFrom => IDistinct false | OpIsNotDistinctFrom => IDistinct true | _ => IOp o end.
Fixpoint to_ast (e : expr) : ast :=
  match e with
  | EAtom n => AAtom n
  | EBin o l r => ANested (AInfix (iop_of o) (to_ast l) (to_ast r))
  | ELike k l r => AInfix (ILike k) (to_ast l) (to_ast r)
  | ENot x => ANot (to_ast x)
  | ENeg x => ANeg (to_ast x)
  | EIs k x => APost k (to_ast x)
  | EIn neg x items => AIn neg (to_ast x) items
  end.

(* inner_precedence *)
Definition inner_prec (a : ast) : N :=
  match a with
  | ANested _ | AAtom _ => un_prec_closed
  | AInfix (IOp o) _ _ => un_sql_op_prec o
  | _ => un_prec_other
  end.

(* remove_unnecessary_nesting(expr, left_op, right_op): only Nested, BinaryOp and the IS ... forms are looked into *)
Fixpoint rm_nest (a : ast) (lo ro : dfop) : ast :=
  match a with
  | ANested n =>
      let sur := N.max (un_sql_op_prec lo) (un_sql_op_prec ro) in
      let ip := inner_prec n in
      if (ip =? sur) && un_nonassoc lo then ANested (rm_nest n un_lowest un_lowest)
      else if sur <=? ip then rm_nest n lo ro
      else ANested (rm_nest n un_lowest un_lowest)
  | AInfix (IOp o) l r => AInfix (IOp o) (rm_nest l lo o) (rm_nest r o ro)
  | APost k x => APost k (rm_nest x lo un_is_ctx)
  | _ => a
  end.

(* Unparser::expr_to_sql; pretty = Unparser::with_pretty(true) *)
Definition unparse (pretty : bool) (e : expr) : ast :=
  let a := to_ast e in if pretty then rm_nest a un_lowest un_lowest else a.

(* ---------------------------------------------------------------- Display: the token sequence of the text *)
Inductive token : Set :=
| TAtom (n : N) | TLP | TRP
| TInfix (o : iop)               (* `-` is this token both as infix and as prefix operator *)
| TNot
| TPost (k : postk)              (* IS NULL, IS NOT NULL, IS TRUE, ... *)
| TIn (neg : bool) (items : list N).   (* [NOT] IN (a, b, ...) *)

Fixpoint show (a : ast) : list token :=
  match a with
  | AAtom n => [TAtom n]
  | ANested x => TLP :: show x ++ [TRP]
  | AInfix o l r => show l ++ TInfix o :: show r
  | ANot x => TNot :: show x
  | ANeg x => TInfix (IOp OpMinus) :: show x
  | APost k x => show x ++ [TPost k]
  | AIn neg x items => show x ++ [TIn neg items]
  end.

Definition is_minus (o : iop) : bool := match o with IOp OpMinus => true | _ => false end.
Definition starts_with_minus (ts : list token) : bool := match ts with TInfix o :: _ => is_minus o | _ => false end.
(* Display writes unary minus without a space: `-` immediately followed by a text that starts with `-` is the comment marker `--` *)
Fixpoint hazard (a : ast) : bool :=
  match a with
  | AAtom _ => false
  | ANested x | ANot x | APost _ x | AIn _ x _ => hazard x
  | AInfix _ l r => hazard l || hazard r
  | ANeg x => starts_with_minus (show x) || hazard x
  end.

(* ---------------------------------------------------------------- the re-parser *)
(* tables of the precedence-climbing parser *)
Record ptab : Set := {
  tp : iop -> N;        (* get_next_precedence of an infix operator token (0: not an operator the parser continues with) *)
  rl : iop -> N;        (* level at which its right operand is parsed *)
  p_is : N;             (* precedence of IS ... *)
  p_in : N;             (* precedence of [NOT] IN *)
  l_not : N;            (* level of the operand of prefix NOT *)
  l_neg : N             (* level of the operand of prefix minus *)
}.

(* sqlparser, generic dialect *)
Definition sq_tab : ptab := {|
  tp := fun o => match o with IOp d => sp_prec d | ILike _ => sp_like | IDistinct _ => sp_is end;
  rl := fun o => match o with IOp d => sp_prec d | ILike _ => sp_like | IDistinct _ => sp_distinct_rlevel end;
  p_is := sp_is; p_in := sp_in; l_not := sp_not_level; l_neg := sp_neg_level |}.

Section Parser.
  Variable T : ptab.

  (* parse_sub = Parser::parse_subexpr(precedence): parse_prefix, then the loop `while next_precedence > precedence: parse_infix`;
     ploop is that loop *)
  Fixpoint parse_sub (fuel : nat) (p : N) (ts : list token) {struct fuel} : option (ast * list token) :=
    match fuel with
    | O => None
    | S f =>
        let pre :=
          match ts with
          | TAtom n :: r => Some (AAtom n, r)
          | TLP :: r => match parse_sub f 0 r with Some (a, TRP :: r') => Some (ANested a, r') | _ => None end
          | TNot :: r => match parse_sub f (l_not T) r with Some (a, r') => Some (ANot a, r') | None => None end
          | TInfix o :: r => if is_minus o then match parse_sub f (l_neg T) r with Some (a, r') => Some (ANeg a, r') | None => None end else None
          | _ => None
          end in
        match pre with
        | Some (lhs, r) => ploop f p lhs r
        | None => None
        end
    end
  with ploop (fuel : nat) (p : N) (lhs : ast) (ts : list token) {struct fuel} : option (ast * list token) :=
    match fuel with
    | O => None
    | S f =>
        match ts with
        | TInfix o :: r =>
            if p <? tp T o then
              match parse_sub f (rl T o) r with
              | Some (rhs, r') => ploop f p (AInfix o lhs rhs) r'
              | None => None
              end
            else Some (lhs, ts)
        | TPost k :: r => if p <? p_is T then ploop f p (APost k lhs) r else Some (lhs, ts)
        | TIn neg items :: r => if p <? p_in T then ploop f p (AIn neg lhs items) r else Some (lhs, ts)
        | _ => Some (lhs, ts)
        end
    end.

  (* Parser::parse_expr on the whole text *)
  Definition parse (ts : list token) : option ast :=
    match parse_sub (2 * length ts + 2) 0 ts with
    | Some (a, []) => Some a
    | _ => None
    end.

  (* ---------------- when does the parser read `show a` back as `a`?  (decidable; used by the theorems) *)
  (* precedence of the token that follows (0 = not an operator) *)
  Definition hd_prec (ts : list token) : N :=
    match ts with
    | TInfix o :: _ => tp T o
    | TPost _ :: _ => p_is T
    | TIn _ _ :: _ => p_in T
    | _ => 0
    end.
  (* every operator on the left spine binds tighter than level p (so the loop at level p consumes it) *)
  Fixpoint lsp_gt (p : N) (a : ast) : bool :=
    match a with
    | AInfix o l _ => (p <? tp T o) && lsp_gt p l
    | APost _ l => (p <? p_is T) && lsp_gt p l
    | AIn _ l _ => (p <? p_in T) && lsp_gt p l
    | _ => true
    end.
  (* no loop still open at the right edge of a would consume a following operator of precedence q *)
  Fixpoint opn_ge (q : N) (a : ast) : bool :=
    match a with
    | AInfix o _ r => (q <=? rl T o) && opn_ge q r
    | ANot x => (q <=? l_not T) && opn_ge q x
    | ANeg x => (q <=? l_neg T) && opn_ge q x
    | _ => true
    end.
  Fixpoint wf (a : ast) : bool :=
    match a with
    | AAtom _ => true
    | ANested x => wf x && lsp_gt 0 x
    | AInfix o l r => wf l && wf r && opn_ge (tp T o) l && lsp_gt (rl T o) r
    | ANot x => wf x && lsp_gt (l_not T) x
    | ANeg x => wf x && lsp_gt (l_neg T) x
    | APost _ l => wf l && opn_ge (p_is T) l
    | AIn _ l _ => wf l && opn_ge (p_in T) l
    end.
  Definition wf_top (a : ast) : bool := wf a && lsp_gt 0 a.
End Parser.

(* ---------------------------------------------------------------- the planner drops parentheses *)
Fixpoint strip (a : ast) : expr :=
  match a with
  | AAtom n => EAtom n
  | ANested x => strip x
  | AInfix (IOp o) l r => EBin o (strip l) (strip r)
  | AInfix (ILike k) l r => ELike k (strip l) (strip r)
  | AInfix (IDistinct false) l r => EBin OpIsDistinctFrom (strip l) (strip r)
  | AInfix (IDistinct true) l r => EBin OpIsNotDistinctFrom (strip l) (strip r)
  | ANot x => ENot (strip x)
  | ANeg x => ENeg (strip x)
  | APost k x => EIs k (strip x)
  | AIn neg x items => EIn neg (strip x) items
  end.

(* unparse, print, parse again, plan again *)
Definition reparse (pretty : bool) (e : expr) : option expr :=
  option_map strip (parse sq_tab (show (unparse pretty e))).
Definition roundtrip (pretty : bool) (e : expr) : Prop := reparse pretty e = Some e.

(* the sub-language on which the default unparser parenthesises everything: atoms and binary expressions
   whose operator token the generic dialect reads back (IS [NOT] DISTINCT FROM included) *)
Fixpoint bin_pos (T : ptab) (e : expr) : bool :=
  match e with
  | EAtom _ => true
  | EBin o l r => (0 <? tp T (iop_of o)) && bin_pos T l && bin_pos T r
  | _ => false
  end.
Definition op_reads_back (o : dfop) : bool := 0 <? tp sq_tab (iop_of o).
Definition binary_only (e : expr) : bool := bin_pos sq_tab e.

(* ---------------------------------------------------------------- the candidate repair: parenthesise every non-atomic form *)
(* (what expr_to_sql_inner would produce if NOT, unary minus, IS ..., LIKE and IN were wrapped in Nested like BinaryExpr is) *)
Fixpoint to_ast_paren (e : expr) : ast :=
  match e with
  | EAtom n => AAtom n
  | EBin o l r => ANested (AInfix (iop_of o) (to_ast_paren l) (to_ast_paren r))
  | ELike k l r => ANested (AInfix (ILike k) (to_ast_paren l) (to_ast_paren r))
  | ENot x => ANested (ANot (to_ast_paren x))
  | ENeg x => ANested (ANeg (to_ast_paren x))
  | EIs k x => ANested (APost k (to_ast_paren x))
  | EIn neg x items => ANested (AIn neg (to_ast_paren x) items)
  end.
(* every operator of e has a positive precedence in table T (= the parser knows the token as an operator) *)
Fixpoint ops_pos (T : ptab) (e : expr) : bool :=
  match e with
  | EAtom _ => true
  | EBin o l r => (0 <? tp T (iop_of o)) && ops_pos T l && ops_pos T r
  | ELike k l r => (0 <? tp T (ILike k)) && ops_pos T l && ops_pos T r
  | ENot x | ENeg x => ops_pos T x
  | EIs _ x => (0 <? p_is T) && ops_pos T x
  | EIn _ x _ => (0 <? p_in T) && ops_pos T x
  end.

(* ---------------------------------------------------------------- boolean equalities (for the case checker) *)
Definition postk_code (k : postk) : N :=
  match k with PIsNull => 0 | PIsNotNull => 1 | PIsTrue => 2 | PIsNotTrue => 3 | PIsFalse => 4 | PIsNotFalse => 5 | PIsUnknown => 6 | PIsNotUnknown => 7 end.
Definition likek_code (k : likek) : N := match k with LLike => 0 | LNotLike => 1 | LILike => 2 | LNotILike => 3 end.
Definition iop_eqb (a b : iop) : bool :=
  match a, b with
  | IOp x, IOp y => dfop_eqb x y
  | ILike x, ILike y => likek_code x =? likek_code y
  | IDistinct x, IDistinct y => Bool.eqb x y
  | _, _ => false
  end.
Definition nlist_eqb := list_eqb N.eqb.
Fixpoint expr_eqb (a b : expr) : bool :=
  match a, b with
  | EAtom x, EAtom y => x =? y
  | EBin o l r, EBin o' l' r' => dfop_eqb o o' && expr_eqb l l' && expr_eqb r r'
  | ELike k l r, ELike k' l' r' => (likek_code k =? likek_code k') && expr_eqb l l' && expr_eqb r r'
  | ENot x, ENot y | ENeg x, ENeg y => expr_eqb x y
  | EIs k x, EIs k' y => (postk_code k =? postk_code k') && expr_eqb x y
  | EIn n x i, EIn n' y i' => Bool.eqb n n' && expr_eqb x y && nlist_eqb i i'
  | _, _ => false
  end.
Fixpoint ast_eqb (a b : ast) : bool :=
  match a, b with
  | AAtom x, AAtom y => x =? y
  | ANested x, ANested y | ANot x, ANot y | ANeg x, ANeg y => ast_eqb x y
  | AInfix o l r, AInfix o' l' r' => iop_eqb o o' && ast_eqb l l' && ast_eqb r r'
  | APost k x, APost k' y => (postk_code k =? postk_code k') && ast_eqb x y
  | AIn n x i, AIn n' y i' => Bool.eqb n n' && ast_eqb x y && nlist_eqb i i'
  | _, _ => false
  end.
Definition token_eqb (a b : token) : bool :=
  match a, b with
  | TAtom x, TAtom y => x =? y
  | TLP, TLP | TRP, TRP | TNot, TNot => true
  | TInfix x, TInfix y => iop_eqb x y
  | TPost x, TPost y => postk_code x =? postk_code y
  | TIn n i, TIn n' i' => Bool.eqb n n' && nlist_eqb i i'
  | _, _ => false
  end.

(* ---------------------------------------------------------------- correspondence cases *)
(* one observation of the implementation: the expression, pretty or not, the tokens of the text Unparser::expr_to_sql(..).to_string()
   (None: the text contains a comment), sqlparser's own parse of that text (None: not recorded; Some None: parse error), and whether
   SessionContext::parse_sql_expr(text) gave back an Expr equal to the original (None: the planner rejected the parsed text for a
   reason that is not syntax, e.g. operand types) *)
Inductive c38_case : Set :=
  C38Case (pretty : bool) (e : expr) (toks : option (list token)) (reparsed : option (option ast)) (struct_ok : option bool).

Definition c38_check (c : c38_case) : bool :=
  match c with
  | C38Case pretty e toks reparsed struct_ok =>
      let a := unparse pretty e in
      match toks with
      | None => hazard a && negb (opt_eqb Bool.eqb struct_ok (Some true))
      | Some ts =>
          negb (hazard a) && list_eqb token_eqb ts (show a) &&
          match reparsed with
          | None => true
          | Some r =>
              opt_eqb ast_eqb (parse sq_tab ts) r &&
              match struct_ok with
              | Some b => Bool.eqb b (match r with Some a' => expr_eqb (strip a') e | None => false end)
              | None => true
              end
          end
      end
  end.

(* every (parent, child, side) pair of operators the generic dialect reads back: does the pretty unparser's text re-parse
   to the same tree?  (diagnostic table; the pairs that fail are replayed on the implementation by the harness) *)
Definition pair_expr (p c : dfop) (right : bool) : expr :=
  if right then EBin p (EAtom 2) (EBin c (EAtom 0) (EAtom 1)) else EBin p (EBin c (EAtom 0) (EAtom 1)) (EAtom 2).
Definition pair_ok (pretty : bool) (p c : dfop) (right : bool) : bool :=
  match reparse pretty (pair_expr p c right) with Some e' => expr_eqb e' (pair_expr p c right) | None => false end.
Definition readable_ops : list dfop := filter op_reads_back dfop_all.
Definition bad_pairs (pretty right : bool) : list (N * N) :=
  flat_map (fun p => flat_map (fun c => if pair_ok pretty p c right then [] else [(dfop_code p, dfop_code c)]) readable_ops) readable_ops.
