(* C07 -- executable model of DataFusion's aggregate accumulators on INTEGER / BOOLEAN inputs.

   Scalar side (datafusion/expr-common/src/accumulator.rs `Accumulator`): an accumulator is a record
   (state, init, update_batch, state(), merge_batch, evaluate, retract_batch) and the instances below follow the
   Rust code of functions-aggregate/src/{count,sum,min_max,average,bool_and_or,bit_and_or_xor,first_last,
   median/percentile_cont}.rs and functions-aggregate-common/src/{min_max.rs,aggregate/count_distinct/native.rs}
   statement by statement (see the comment at each instance).  A batch is a `list (option V)` (None = NULL).
   `state()` produces one row of `res` cells; `merge_batch` consumes a list of such rows (the state arrays).

   Vectorised side (expr-common/src/groups_accumulator.rs `GroupsAccumulator`, functions-aggregate-common/src/
   aggregate/groups_accumulator/{accumulate.rs (NullState, SeenValues), prim_op.rs, bool_op.rs}, count.rs
   CountGroupsAccumulator, average.rs AvgGroupsAccumulator): a vector of cells indexed by group id plus the
   NullState with its two representations `All{num_values}` / `Some{bitmap}` and the no-null/no-filter fast path.

   Definitions only.  Proofs: Proofs/AccumProofs.v.  Property theorems: Props/C07.v. *)
From DF Require Import Base.Prelude.
Open Scope Z_scope.

(* ------------------------------------------------------------------ values / results *)
Inductive res :=
| RNull
| RInt (z : Z)
| RBool (b : bool)
| RFrac (n d : Z)          (* exact rational n/d, d > 0 (avg = sum/count, median = (lo+hi)/2) *)
| RList (l : list Z).

Definition somes {A} (l : list (option A)) : list A :=
  flat_map (fun o => match o with Some x => [x] | None => [] end) l.

Definition zsum (l : list Z) : Z := fold_right Z.add 0 l.

(* i64 two's complement wrap-around: `add_wrapping` / `sub_wrapping`, and arrow::compute::sum on integers *)
Definition wrap64 (x : Z) : Z := (x + 2 ^ 63) mod 2 ^ 64 - 2 ^ 63.
Definition wadd (a b : Z) : Z := wrap64 (a + b).
Definition wsub (a b : Z) : Z := wrap64 (a - b).

Definition nonnull_count {A} (l : list (option A)) : Z := Z.of_nat (length (somes l)).

(* arrow::compute::sum on an Int64Array: None when every slot is NULL (or the array is empty), else the
   wrapping sum of the valid slots *)
Definition batch_sum (l : list (option Z)) : option Z :=
  match somes l with [] => None | xs => Some (wrap64 (zsum xs)) end.

(* ------------------------------------------------------------------ the accumulator interface *)
Record accum := {
  A_val : Type;
  A_st : Type;
  a_dec : Z -> A_val;                                   (* how the harness' integer encodes a value *)
  a_init : A_st;
  a_update : A_st -> list (option A_val) -> A_st;       (* update_batch *)
  a_state : A_st -> list res;                           (* state(): one row *)
  a_merge : A_st -> list (list res) -> A_st;            (* merge_batch on state arrays (rows) *)
  a_eval : A_st -> res;                                 (* evaluate *)
  a_retract : A_st -> list (option A_val) -> A_st;      (* retract_batch (identity when unsupported) *)
  a_retracts : bool                                     (* supports_retract_batch *)
}.

Definition zres (o : option Z) : res := match o with Some x => RInt x | None => RNull end.
Definition bres (o : option bool) : res := match o with Some x => RBool x | None => RNull end.
Definition zcell (r : list res) : option Z := match r with RInt x :: _ => Some x | _ => None end.
Definition bcell (r : list res) : option bool := match r with RBool x :: _ => Some x | _ => None end.

(* ------------------------------------------------------------------ COUNT (count.rs CountAccumulator)
   update: count += len - null_count;  retract: count -= ...;  merge: if let Some(d) = sum(counts) { count += d };
   state = evaluate = Int64(count) *)
Definition count_acc : accum := {|
  A_val := Z; A_st := Z; a_dec := fun z => z;
  a_init := 0;
  a_update := fun s l => s + nonnull_count l;
  a_state := fun s => [RInt s];
  a_merge := fun s ws => s + zsum (somes (map zcell ws));
  a_eval := fun s => RInt s;
  a_retract := fun s l => s - nonnull_count l;
  a_retracts := true |}.

(* ------------------------------------------------------------------ COUNT(DISTINCT) (count_distinct/native.rs
   PrimitiveDistinctCountAccumulator: HashSet of the non-null values; state = the set as one list; merge inserts
   every element of every list; evaluate = len).  The set is modelled as a duplicate-free list (the HashSet's
   iteration order is unspecified: the theorems are about membership and cardinality only). *)
Definition set_add (s : list Z) (x : Z) : list Z := if existsb (Z.eqb x) s then s else x :: s.
Definition wire_list (r : list res) : list Z := match r with RList l :: _ => l | _ => [] end.
Definition count_distinct_acc : accum := {|
  A_val := Z; A_st := list Z; a_dec := fun z => z;
  a_init := [];
  a_update := fun s l => fold_left set_add (somes l) s;
  a_state := fun s => [RList s];
  a_merge := fun s ws => fold_left set_add (concat (map wire_list ws)) s;
  a_eval := fun s => RInt (Z.of_nat (length s));
  a_retract := fun s _ => s;
  a_retracts := false |}.

(* ------------------------------------------------------------------ SUM Int64 (sum.rs SumAccumulator<Int64Type>)
   update: if let Some(x) = compute::sum(values) { let v = self.sum.get_or_insert(0); *v = v.add_wrapping(x) }
   merge = update on the state column; state = [evaluate]; evaluate = self.sum (NULL when nothing was summed) *)
Definition sum_update (s : option Z) (l : list (option Z)) : option Z :=
  match batch_sum l with
  | None => s
  | Some x => Some (wadd (match s with Some v => v | None => 0 end) x)
  end.
Definition sum_acc : accum := {|
  A_val := Z; A_st := option Z; a_dec := fun z => z;
  a_init := None;
  a_update := sum_update;
  a_state := fun s => [zres s];
  a_merge := fun s ws => sum_update s (map zcell ws);
  a_eval := zres;
  a_retract := fun s _ => s;
  a_retracts := false |}.

(* SUM over a sliding window (sum.rs SlidingSumAccumulator): (sum, count);
   update: count += valid; if let Some(x) = sum(values) { sum = sum.add_wrapping(x) }
   retract: if let Some(x) = sum(values) { sum = sum.sub_wrapping(x) }; count -= valid
   evaluate: (count != 0).then_some(sum);  state = [evaluate, count];  merge adds both columns (NULLs skipped) *)
Definition ssum_upd (s : Z * Z) (l : list (option Z)) : Z * Z :=
  (match batch_sum l with Some x => wadd (fst s) x | None => fst s end, snd s + nonnull_count l).
Definition ssum_eval (s : Z * Z) : res := if snd s =? 0 then RNull else RInt (fst s).
Definition sum_sliding_acc : accum := {|
  A_val := Z; A_st := Z * Z; a_dec := fun z => z;
  a_init := (0, 0);
  a_update := ssum_upd;
  a_state := fun s => [ssum_eval s; RInt (snd s)];
  a_merge := fun s ws =>
    (match batch_sum (map zcell ws) with Some x => wadd (fst s) x | None => fst s end,
     snd s + zsum (somes (map (fun r => zcell (tl r)) ws)));
  a_eval := ssum_eval;
  a_retract := fun s l =>
    (match batch_sum l with Some x => wsub (fst s) x | None => fst s end, snd s - nonnull_count l);
  a_retracts := true |}.

(* ------------------------------------------------------------------ the "optional monoid" family:
   MIN / MAX (functions-aggregate-common/src/min_max.rs: min_max!(&self.min, min_batch(values)): NULL is the unit),
   BIT_AND / BIT_OR / BIT_XOR (bit_and_or_xor.rs: if let Some(x) = bit_op(values) { v = get_or_insert(..); v = v op x }),
   BOOL_AND / BOOL_OR (bool_and_or.rs: (None, v) => v, (Some v, None) => Some v, (Some a, Some b) => Some (a op b)).
   The batch kernel (arrow min/max/bit_and/.../bool_and) folds the valid slots and answers None when there is none. *)
Section OptFold.
  Context {T : Type}.
  Variable f : T -> T -> T.
  Definition reduce (xs : list T) : option T :=
    match xs with [] => None | x :: r => Some (fold_left f r x) end.
  Definition comb (s b : option T) : option T :=
    match s, b with
    | None, _ => b
    | Some a, None => Some a
    | Some a, Some x => Some (f a x)
    end.
  Definition og_update (s : option T) (l : list (option T)) : option T := comb s (reduce (somes l)).
End OptFold.

Definition og_acc_z (f : Z -> Z -> Z) (retr : bool) : accum := {|
  A_val := Z; A_st := option Z; a_dec := fun z => z;
  a_init := None;
  a_update := og_update f;
  a_state := fun s => [zres s];
  a_merge := fun s ws => og_update f s (map zcell ws);
  a_eval := zres;
  (* BitXorAccumulator::retract_batch = update_batch (x ^ x = 0) *)
  a_retract := fun s l => if retr then og_update f s l else s;
  a_retracts := retr |}.
Definition og_acc_b (f : bool -> bool -> bool) : accum := {|
  A_val := bool; A_st := option bool; a_dec := fun z => negb (z =? 0);
  a_init := None;
  a_update := og_update f;
  a_state := fun s => [bres s];
  a_merge := fun s ws => og_update f s (map bcell ws);
  a_eval := bres;
  a_retract := fun s _ => s;
  a_retracts := false |}.

Definition min_acc := og_acc_z Z.min false.
Definition max_acc := og_acc_z Z.max false.
Definition bit_and_acc := og_acc_z Z.land false.
Definition bit_or_acc := og_acc_z Z.lor false.
Definition bit_xor_acc := og_acc_z Z.lxor true.
Definition bool_and_acc := og_acc_b andb.
Definition bool_or_acc := og_acc_b orb.

(* ------------------------------------------------------------------ AVG (average.rs AvgAccumulator: sum: Option<f64>,
   count: u64; the harness feeds integer-valued doubles whose sums stay below 2^53, so f64 addition is exact and is
   modelled on Z; the quotient is reported as the exact rational)
   update: count += valid; if let Some(x) = sum(values) { *sum.get_or_insert(0.) += x }
   merge:  count += sum(states[0]).unwrap_or_default(); if let Some(x) = sum(states[1]) { *sum.get_or_insert(0.) += x }
   retract: count -= valid; if let Some(x) = sum(values) { sum = Some(sum.unwrap() - x) }
   evaluate: if count == 0 { NULL } else { sum.map(|f| f / count) };   state = [count, sum] *)
Definition exact_sum (l : list (option Z)) : option Z :=
  match somes l with [] => None | xs => Some (zsum xs) end.
Definition avg_add (s : option Z) (b : option Z) : option Z :=
  match b with None => s | Some x => Some (match s with Some v => v | None => 0 end + x) end.
Definition avg_eval (s : option Z * Z) : res :=
  if snd s =? 0 then RNull else match fst s with Some f => RFrac f (snd s) | None => RNull end.
Definition avg_acc : accum := {|
  A_val := Z; A_st := option Z * Z; a_dec := fun z => z;
  a_init := (None, 0);
  a_update := fun s l => (avg_add (fst s) (exact_sum l), snd s + nonnull_count l);
  a_state := fun s => [RInt (snd s); zres (fst s)];
  a_merge := fun s ws =>
    (avg_add (fst s) (exact_sum (map (fun r => zcell (tl r)) ws)), snd s + zsum (somes (map zcell ws)));
  a_eval := avg_eval;
  a_retract := fun s l =>
    (match exact_sum l with None => fst s | Some x => Some (match fst s with Some v => v | None => 0 end - x) end,
     snd s - nonnull_count l);
  a_retracts := true |}.

(* ------------------------------------------------------------------ FIRST_VALUE / LAST_VALUE without ORDER BY
   (first_last.rs TrivialFirstValueAccumulator / TrivialLastValueAccumulator): (value, is_set), "first row seen".
   first.update: if !is_set { idx = ignore_nulls ? first valid : (non-empty ? 0); if Some(idx) { value = v[idx]; is_set = true } }
   first.merge:  if !is_set { rows with is_set flag true; if any { value = first of them; is_set = true } }
   last.update / last.merge: the same with the last index, and without the `if !is_set` guard.
   state = [value, is_set].  NOT commutative: the order of update/merge calls is the order of the rows. *)
Definition fl_st := (option Z * bool)%type.
Definition first_pick (ign : bool) (l : list (option Z)) : option (option Z) :=
  if ign then match somes l with [] => None | x :: _ => Some (Some x) end
  else match l with [] => None | v :: _ => Some v end.
Definition last_pick (ign : bool) (l : list (option Z)) : option (option Z) := first_pick ign (rev l).
Definition fl_set_rows (ws : list (list res)) : list (option Z) :=
  flat_map (fun r => match r with
                     | v :: RBool true :: _ => [zcell [v]]
                     | _ => [] end) ws.
Definition first_acc (ign : bool) : accum := {|
  A_val := Z; A_st := fl_st; a_dec := fun z => z;
  a_init := (None, false);
  a_update := fun s l => if snd s then s else match first_pick ign l with Some v => (v, true) | None => s end;
  a_state := fun s => [zres (fst s); RBool (snd s)];
  a_merge := fun s ws => if snd s then s else match fl_set_rows ws with v :: _ => (v, true) | [] => s end;
  a_eval := fun s => zres (fst s);
  a_retract := fun s _ => s;
  a_retracts := false |}.
Definition last_acc (ign : bool) : accum := {|
  A_val := Z; A_st := fl_st; a_dec := fun z => z;
  a_init := (None, false);
  a_update := fun s l => match last_pick ign l with Some v => (v, true) | None => s end;
  a_state := fun s => [zres (fst s); RBool (snd s)];
  a_merge := fun s ws => match rev (fl_set_rows ws) with v :: _ => (v, true) | [] => s end;
  a_eval := fun s => zres (fst s);
  a_retract := fun s _ => s;
  a_retracts := false |}.

(* ------------------------------------------------------------------ MEDIAN (median.rs -> percentile_cont.rs
   PercentileContAccumulator, percentile 0.5): all_values: Vec of the non-null values (a bag, in arrival order);
   state = the bag as one list; merge appends every list; evaluate: len 0 -> NULL, 1 -> the value,
   index = 0.5*(len-1), lower = floor, upper = ceil; equal -> sorted[lower], else lower + (upper-lower)*0.5.
   Integers reach it as doubles (exact for the harness' small values); the result is the exact rational. *)
Fixpoint insert_sorted (x : Z) (l : list Z) : list Z :=
  match l with
  | [] => [x]
  | y :: r => if x <=? y then x :: l else y :: insert_sorted x r
  end.
Definition isort (l : list Z) : list Z := fold_right insert_sorted [] l.
Definition median_eval (l : list Z) : res :=
  let s := isort l in
  let n := Z.of_nat (length l) in
  if n =? 0 then RNull
  else let lo := Z.to_nat ((n - 1) / 2) in
       let hi := Z.to_nat (n / 2) in
       if (lo =? hi)%nat then RFrac (nth lo s 0) 1 else RFrac (nth lo s 0 + nth hi s 0) 2.
Definition median_acc : accum := {|
  A_val := Z; A_st := list Z; a_dec := fun z => z;
  a_init := [];
  a_update := fun s l => s ++ somes l;
  a_state := fun s => [RList s];
  a_merge := fun s ws => s ++ concat (map wire_list ws);
  a_eval := median_eval;
  a_retract := fun s _ => s;
  a_retracts := false |}.

(* ------------------------------------------------------------------ MIN / MAX over a sliding window
   (min_max.rs SlidingMinAccumulator + MovingMin: a monotonic deque of (sequence number, value); push drops every
   back element >= the new value; pop advances pop_seq and drops the front iff its sequence number is the popped
   one; min() = front).  update pushes every non-null value, retract pops once per non-null value. *)
Record mm_st := { mm_deque : list (Z * Z); mm_push : Z; mm_pop : Z }.
(* deque kept front-first; `drop_back` works on the reversed list *)
Fixpoint drop_while_back (keep : Z -> bool) (rev_d : list (Z * Z)) : list (Z * Z) :=
  match rev_d with
  | [] => []
  | (s, v) :: r => if keep v then rev_d else drop_while_back keep r
  end.
Definition mm_push1 (is_min : bool) (st : mm_st) (v : Z) : mm_st :=
  let keep := fun back => if is_min then back <? v else v <? back in  (* min: pop while back >= v; max: while back <= v *)
  {| mm_deque := rev ((mm_push st, v) :: drop_while_back keep (rev (mm_deque st)));
     mm_push := mm_push st + 1; mm_pop := mm_pop st |}.
Definition mm_pop1 (st : mm_st) : mm_st :=
  if mm_push st =? mm_pop st then st
  else {| mm_deque := match mm_deque st with
                      | (s, v) :: r => if s =? mm_pop st then r else mm_deque st
                      | [] => [] end;
          mm_push := mm_push st; mm_pop := mm_pop st + 1 |}.
Definition mm_front (st : mm_st) : option Z := match mm_deque st with (_, v) :: _ => Some v | [] => None end.
Definition moving_acc (is_min : bool) : accum := {|
  A_val := Z; A_st := mm_st; a_dec := fun z => z;
  a_init := {| mm_deque := []; mm_push := 0; mm_pop := 0 |};
  a_update := fun s l => fold_left (mm_push1 is_min) (somes l) s;
  a_state := fun s => [zres (mm_front s)];
  a_merge := fun s ws => fold_left (mm_push1 is_min) (somes (map zcell ws)) s;
  a_eval := fun s => zres (mm_front s);
  a_retract := fun s l => fold_left (fun st _ => mm_pop1 st) (somes l) s;
  a_retracts := true |}.

(* ------------------------------------------------------------------ the laws (stated per instance in Props/C07.v) *)
Definition update_split (A : accum) : Prop :=
  forall s a b, a_update A s (a ++ b) = a_update A (a_update A s a) b.
(* merging the states of independently accumulated partitions = accumulating their concatenation (state equality) *)
Definition merge_hom (A : accum) : Prop :=
  forall s parts,
    a_merge A s (map (fun p => a_state A (a_update A (a_init A) p)) parts) = a_update A s (concat parts).
(* ... observed through evaluate only *)
Definition merge_hom_obs (A : accum) : Prop :=
  forall parts,
    a_eval A (a_merge A (a_init A) (map (fun p => a_state A (a_update A (a_init A) p)) parts))
    = a_eval A (a_update A (a_init A) (concat parts)).
(* one merge_batch call with all state rows = one call per group of rows *)
Definition merge_split (A : accum) : Prop :=
  forall s w1 w2, a_merge A s (w1 ++ w2) = a_merge A (a_merge A s w1) w2.

(* ------------------------------------------------------------------ NullState (accumulate.rs) *)
Inductive seen := SAll (num_values : nat) | SSome (bits : list bool).

(* SeenValues::get_builder(total): All{n} becomes n trues padded with falses; Some is padded with falses *)
Definition pad_bits (l : list bool) (total : nat) : list bool := l ++ repeat false (total - length l).
Definition get_builder (s : seen) (total : nat) : list bool :=
  match s with
  | SAll n => pad_bits (repeat true n) total
  | SSome l => pad_bits l total
  end.
Definition seen_bit (s : seen) (g : nat) : bool :=
  match s with SAll n => (g <? n)%nat | SSome l => nth g l false end.

Fixpoint upd_nth {A} (n : nat) (x : A) (l : list A) : list A :=
  match l, n with
  | [], _ => []
  | _ :: r, O => x :: r
  | y :: r, S k => y :: upd_nth k x r
  end.

(* a row of a batch as the accumulate helpers see it: group index, value (None = NULL), passes the filter
   (filter value Some(true); Some(false) and NULL do not pass) *)
Definition grow (V : Type) := (nat * option V * bool)%type.
Definition row_live {V} (r : grow V) : bool := match r with (_, Some _, true) => true | _ => false end.
Definition row_group {V} (r : grow V) : nat := fst (fst r).

(* NullState::accumulate / accumulate_boolean: the seen bitmap after a batch.
   fast path: `if let SeenValues::All{..}` && opt_filter.is_none() && values.null_count() == 0 -> All{total} *)
Definition null_accumulate {V} (s : seen) (rows : list (grow V)) (has_filter : bool) (total : nat) : seen :=
  let slow := SSome (fold_left (fun b r => if row_live r then upd_nth (row_group r) true b else b)
                               rows (get_builder s total)) in
  match s with
  | SAll _ => if negb has_filter && forallb (fun r => match r with (_, Some _, _) => true | _ => false end) rows
              then SAll total else slow
  | SSome _ => slow
  end.

(* value_fn applied to every live row: cells[g] = step cells[g] v *)
Definition apply_rows {C V} (step : C -> V -> C) (d : C) (cells : list C) (rows : list (grow V)) : list C :=
  fold_left (fun c r => match r with
                        | (g, Some v, true) => upd_nth g (step (nth g c d) v) c
                        | _ => c end) rows cells.

(* Vec::resize(total, d) *)
Definition resize {C} (cells : list C) (total : nat) (d : C) : list C :=
  firstn total (cells ++ repeat d (total - length cells)).

(* NullState::build(emit_to): the validity of the emitted groups (None = all valid) and the remaining state *)
Definition null_build (s : seen) (emit : option nat) : option (list bool) * seen :=
  match emit with
  | None => (match s with SAll _ => None | SSome l => Some l end, SAll 0)
  | Some n => match s with
              | SAll k => (None, SAll (k - n))
              | SSome l => (Some (firstn n l), SSome (skipn n l))
              end
  end.
(* EmitTo::take_needed *)
Definition take_needed {C} (cells : list C) (emit : option nat) : list C * list C :=
  match emit with None => (cells, []) | Some n => (firstn n cells, skipn n cells) end.

Definition mk_rows {V} (vals : list (option V)) (gidx : list nat) (filt : option (list (option bool))) : list (grow V) :=
  let pass := match filt with
              | None => map (fun _ => true) vals
              | Some f => map (fun o => match o with Some true => true | _ => false end) f
              end in
  combine (combine gidx vals) pass.

(* ------------------------------------------------------------------ a GroupsAccumulator family:
   cells + NullState.  `g_tracks = false` is COUNT: no NullState, every emitted row is valid. *)
Record gfam := {
  G_cell : Type;
  g_start : G_cell;                              (* starting value of a new group *)
  g_step : G_cell -> Z -> G_cell;                (* value_fn of update_batch on a live row *)
  g_mcols : list (G_cell -> list res -> option G_cell);
     (* merge_batch: one NullState::accumulate pass per state column; None = that column is NULL in the row *)
  g_out : G_cell -> res;                         (* evaluate of a valid group *)
  g_wire : G_cell -> list res;                   (* state row of a valid group *)
  g_null_wire : list res;                        (* state row of a group that saw nothing *)
  g_tracks : bool
}.

Record gstate (F : gfam) := { g_cells : list (G_cell F); g_seen : seen }.
Arguments g_cells {F}. Arguments g_seen {F}.
Definition ginit (F : gfam) : gstate F := {| g_cells := []; g_seen := SAll 0 |}.

Definition gupdate (F : gfam) (st : gstate F) (vals : list (option Z)) (gidx : list nat)
           (filt : option (list (option bool))) (total : nat) : gstate F :=
  let rows := mk_rows vals gidx filt in
  {| g_cells := apply_rows (g_step F) (g_start F) (resize (g_cells st) total (g_start F)) rows;
     g_seen := if g_tracks F
               then null_accumulate (g_seen st) rows (match filt with Some _ => true | None => false end) total
               else g_seen st |}.

(* merge_batch: for each state column, rows whose column is NULL are skipped by `accumulate` *)
Definition gmerge_col (F : gfam) (total : nat) (gidx : list nat) (ws : list (list res))
           (st : gstate F) (col : G_cell F -> list res -> option (G_cell F)) : gstate F :=
  (* a row is "non-null" for this column iff col answers Some on the group's current cell; the answer's
     definedness does not depend on the cell *)
  let rows : list (grow (list res)) :=
    combine (combine gidx (map (fun w => match col (g_start F) w with Some _ => Some w | None => None end) ws))
            (map (fun _ => true) ws) in
  {| g_cells := apply_rows (fun c w => match col c w with Some c' => c' | None => c end) (g_start F)
                           (resize (g_cells st) total (g_start F)) rows;
     g_seen := if g_tracks F then null_accumulate (g_seen st) rows false total else g_seen st |}.
Definition gmerge (F : gfam) (st : gstate F) (ws : list (list res)) (gidx : list nat) (total : nat) : gstate F :=
  fold_left (gmerge_col F total gidx ws) (g_mcols F) st.

Definition emit_rows {C X} (valid : option (list bool)) (cells : list C) (f : C -> X) (nul : X) : list X :=
  match valid with
  | None => map f cells
  | Some bits => map (fun cb : C * bool => if snd cb then f (fst cb) else nul) (combine cells bits)
  end.

Definition gemit (F : gfam) (st : gstate F) (emit : option nat) {X} (f : G_cell F -> X) (nul : X)
  : list X * gstate F :=
  let '(now, rest) := take_needed (g_cells st) emit in
  let '(valid, sn) := if g_tracks F then null_build (g_seen st) emit else (None, g_seen st) in
  (emit_rows valid now f nul, {| g_cells := rest; g_seen := sn |}).
Definition gevaluate (F : gfam) (st : gstate F) (emit : option nat) := gemit F st emit (g_out F) RNull.
Definition gstate_rows (F : gfam) (st : gstate F) (emit : option nat) := gemit F st emit (g_wire F) (g_null_wire F).

(* convert_to_state: row by row; a row that is NULL or filtered out yields the "nothing seen" state row *)
Definition gconvert (F : gfam) (vals : list (option Z)) (filt : option (list (option bool))) : list (list res) :=
  map (fun r : grow Z => match r with
               | (_, Some v, true) => g_wire F (g_step F (g_start F) v)
               | _ => g_null_wire F end)
      (mk_rows vals (map (fun _ => O) vals) filt).

(* the per-group view the scalar accumulator is compared with: the cell and whether the group has seen a value *)
Definition gview (F : gfam) (st : gstate F) (g : nat) : G_cell F * bool :=
  (nth g (g_cells st) (g_start F), if g_tracks F then seen_bit (g_seen st) g else true).
(* values of the live rows of group g, in batch order *)
Definition live_vals {V} (g : nat) (rows : list (grow V)) : list V :=
  flat_map (fun r => match r with (g', Some v, true) => if (g' =? g)%nat then [v] else [] | _ => [] end) rows.

(* ---- the families *)
(* PrimitiveGroupsAccumulator<Int64Type, F> (prim_op.rs): SUM |x,y| x.add_wrapping(y) start 0;
   MIN/MAX start i64::MAX / i64::MIN; BIT_AND start -1 (all ones), BIT_OR / BIT_XOR start 0.
   state = evaluate; merge_batch = update_batch without a filter. *)
Definition prim_fam (f : Z -> Z -> Z) (start : Z) : gfam := {|
  G_cell := Z; g_start := start; g_step := f;
  g_mcols := [fun (c : Z) w => match zcell w with Some x => Some (f c x) | None => None end];
  g_out := RInt; g_wire := fun c : Z => [RInt c]; g_null_wire := [RNull]; g_tracks := true |}.
(* BooleanGroupsAccumulator (bool_op.rs): bool_and identity true, bool_or identity false *)
Definition bool_fam (f : bool -> bool -> bool) (identity : bool) : gfam := {|
  G_cell := bool; g_start := identity; g_step := fun (c : bool) z => f c (negb (z =? 0));
  g_mcols := [fun (c : bool) w => match bcell w with Some x => Some (f c x) | None => None end];
  g_out := RBool; g_wire := fun c : bool => [RBool c]; g_null_wire := [RNull]; g_tracks := true |}.
(* CountGroupsAccumulator (count.rs): counts, no NullState; merge adds the partial counts;
   convert_to_state: 1 for a live row, 0 otherwise *)
Definition count_fam : gfam := {|
  G_cell := Z; g_start := 0; g_step := fun (c : Z) (_ : Z) => c + 1;
  g_mcols := [fun (c : Z) w => match zcell w with Some x => Some (c + x) | None => None end];
  g_out := RInt; g_wire := fun c : Z => [RInt c]; g_null_wire := [RInt 0]; g_tracks := false |}.
(* AvgGroupsAccumulator<Float64Type> (average.rs): sums and counts (two vectors, here a vector of pairs) and one
   NullState; merge_batch runs accumulate on the counts column, then on the sums column;
   evaluate = sum / count (exact rational here); state = [count, sum] *)
Definition avg_fam : gfam := {|
  G_cell := Z * Z; g_start := (0, 0); g_step := fun (c : Z * Z) v => (fst c + v, snd c + 1);
  g_mcols := [fun (c : Z * Z) w => match zcell w with Some k => Some (fst c, snd c + k) | None => None end;
              fun (c : Z * Z) w => match zcell (tl w) with Some x => Some (fst c + x, snd c) | None => None end];
  g_out := fun c : Z * Z => RFrac (fst c) (snd c);
  g_wire := fun c : Z * Z => [RInt (snd c); RInt (fst c)];
  g_null_wire := [RNull; RNull]; g_tracks := true |}.

Definition i64_max : Z := 2 ^ 63 - 1.
Definition i64_min : Z := - 2 ^ 63.

(* ------------------------------------------------------------------ correspondence cases *)
Definition res_eqb (a b : res) : bool :=
  match a, b with
  | RNull, RNull => true
  | RInt x, RInt y => x =? y
  | RBool x, RBool y => Bool.eqb x y
  (* the implementation's double is the correctly rounded quotient: |obs - model| <= 2^-53 |model| *)
  | RFrac mn md, RFrac on od =>
      (0 <? md) && (0 <? od) && (Z.abs (on * md - mn * od) * 2 ^ 53 <=? Z.abs (mn * od))
  | RFrac mn md, RInt y => (0 <? md) && (mn =? y * md)
  | RList x, RList y => list_eqb Z.eqb x y
  | _, _ => false
  end.
(* a list result whose order the implementation does not specify (HashSet iteration) *)
Definition res_set_eqb (a b : res) : bool :=
  match a, b with
  | RList x, RList y => list_eqb Z.eqb (isort x) (isort y)
  | _, _ => res_eqb a b
  end.
Definition row_eqb (a b : list res) : bool := list_eqb res_set_eqb a b.

Definition inst_of (i : Z) : accum :=
  match i with
  | 0 => count_acc | 1 => count_distinct_acc | 2 => sum_acc | 3 => min_acc | 4 => max_acc | 5 => avg_acc
  | 6 => bool_and_acc | 7 => bool_or_acc | 8 => bit_and_acc | 9 => bit_or_acc | 10 => bit_xor_acc
  | 11 => first_acc false | 12 => first_acc true | 13 => last_acc false | 14 => last_acc true
  | 15 => median_acc | 16 => sum_sliding_acc | 17 => moving_acc true | _ => moving_acc false
  end.
Definition fam_of (i : Z) : gfam :=
  match i with
  | 0 => count_fam | 2 => prim_fam wadd 0 | 3 => prim_fam Z.min i64_max | 4 => prim_fam Z.max i64_min
  | 5 => avg_fam | 6 => bool_fam andb true | 7 => bool_fam orb false
  | 8 => prim_fam Z.land (-1) | 9 => prim_fam Z.lor 0 | _ => prim_fam Z.lxor 0
  end.

Definition dec_batch (A : accum) (l : list (option Z)) : list (option (A_val A)) :=
  map (option_map (a_dec A)) l.
Definition run_batches (A : accum) (s : A_st A) (bs : list (list (option Z))) : A_st A :=
  fold_left (fun st b => a_update A st (dec_batch A b)) bs s.

Inductive gop :=
| GUpd (vals : list (option Z)) (g : list Z) (filt : option (list (option bool))) (total : Z)
| GMerge (w : list (list res)) (g : list Z) (total : Z)
| GEval (n : option Z) (out : list res)
| GState (n : option Z) (out : list (list res))
| GConv (vals : list (option Z)) (filt : option (list (option bool))) (out : list (list res)).

Inductive c07_case :=
(* split: batches of all rows; parts: partitions (each a list of batches) in input order; order: the order in
   which the partition states are merged; single: one merge_batch call with all rows / one call per partition *)
| CScalar (i : Z) (split : list (list (option Z))) (parts : list (list (list (option Z)))) (order : list Z)
          (single : bool) (whole split_res : res) (part_evals : list res) (merged : res)
(* sliding window: per non-empty frame the entering rows, the leaving rows and the observed evaluate() *)
| CRetract (i : Z) (steps : list (list (option Z) * list (option Z) * res))
| CGroups (i : Z) (ops : list gop).

Definition nats (l : list Z) : list nat := map Z.to_nat l.

Fixpoint run_gops (F : gfam) (st : gstate F) (ops : list gop) : bool :=
  match ops with
  | [] => true
  | GUpd vals g filt total :: r => run_gops F (gupdate F st vals (nats g) filt (Z.to_nat total)) r
  | GMerge w g total :: r => run_gops F (gmerge F st w (nats g) (Z.to_nat total)) r
  | GEval n out :: r =>
      let '(o, st') := gevaluate F st (option_map Z.to_nat n) in
      list_eqb res_eqb o out && run_gops F st' r
  | GState n out :: r =>
      let '(o, st') := gstate_rows F st (option_map Z.to_nat n) in
      list_eqb row_eqb o out && run_gops F st' r
  | GConv vals filt out :: r => list_eqb row_eqb (gconvert F vals filt) out && run_gops F st r
  end.

Definition c07_check (c : c07_case) : bool :=
  match c with
  | CScalar i split parts order single whole split_res part_evals merged =>
      let A := inst_of i in
      let cmp := if i =? 1 then res_set_eqb else res_eqb in
      let part_states := map (run_batches A (a_init A)) parts in
      let wires := map (fun k => a_state A (nth (Z.to_nat k) part_states (a_init A))) order in
      let fin := if single then a_merge A (a_init A) wires
                 else fold_left (fun s w => a_merge A s [w]) wires (a_init A) in
      cmp (a_eval A (a_update A (a_init A) (dec_batch A (concat split)))) whole
      && cmp (a_eval A (run_batches A (a_init A) split)) split_res
      && list_eqb cmp (map (a_eval A) part_states) part_evals
      && cmp (a_eval A fin) merged
  | CRetract i steps =>
      let A := inst_of i in
      (fix go (s : A_st A) (l : list (list (option Z) * list (option Z) * res)) : bool :=
         match l with
         | [] => true
         | (u, r, obs) :: t =>
             let s1 := a_update A s (dec_batch A u) in
             let s2 := a_retract A s1 (dec_batch A r) in
             res_eqb (a_eval A s2) obs && go s2 t
         end) (a_init A) steps
  | CGroups i ops => run_gops (fam_of i) (ginit (fam_of i)) ops
  end.
