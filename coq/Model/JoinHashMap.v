(* C14 -- executable model of datafusion/physical-plan/src/joins/join_hash_map.rs and
   joins/chain.rs (JoinHashMapU32 / JoinHashMapU64 and the generic functions they delegate to).

   Data structure, as in the Rust code:
     map  : hashbrown::HashTable<(u64, T)>   hash value -> (row index of the LATEST inserted row) + 1
     next : Vec<T>                           next[row - deleted_offset] = (previously latest row) + 1, 0 = end
   T = u32 or u64; [W] below is T::MAX (the only place the width matters is
   `T::try_from(row + 1).unwrap()`).

   hashbrown's HashTable is modelled as an abstract finite map keyed by the u64 hash VALUE
   (an association list with distinct keys; `map.len()` = its length).  The code itself calls
   `map.entry(hash, |&(h,_)| hash == h, ..)` / `map.find(hash, |(h,_)| hash == *h)`, i.e. it
   asks hashbrown for "the entry whose stored u64 equals this u64".  That two different join KEYS
   may have the same u64 hash is the caller's business (it re-checks key equality afterwards);
   this file, like the Rust file, is keyed by hash value only.

   Every function returns [option]: [None] = "the Rust code does not return a value" (a panic:
   `unwrap` on a failed `try_from`, index out of bounds, slice start > end, integer underflow in a
   debug/overflow-checked build; or, for the un-paged chain walk only, a walk that revisits a
   position and therefore never ends).  Numbers are Z. *)
From Coq Require Import List ZArith Bool.
From DF Require Import Base.Prelude.
Import ListNotations.
Open Scope Z_scope.

(* ---------------------------------------------------------------- the state *)
Record jhm := mk_jhm { jmap : list (Z * Z); jnext : list Z }.

(* JoinHashMapU32::with_capacity(cap): HashTable::with_capacity(cap), vec![0; cap] *)
Definition with_capacity (cap : Z) : jhm := mk_jhm [] (repeat 0 (Z.to_nat cap)).

(* map.find(hash, |(h,_)| hash == *h) *)
Fixpoint map_find (h : Z) (m : list (Z * Z)) : option Z :=
  match m with
  | [] => None
  | (k, v) :: m' => if k =? h then Some v else map_find h m'
  end.

(* overwrite the value of the (existing) entry for h; append when absent *)
Fixpoint map_set (h v : Z) (m : list (Z * Z)) : list (Z * Z) :=
  match m with
  | [] => [(h, v)]
  | (k, v') :: m' => if k =? h then (k, v) :: m' else (k, v') :: map_set h v m'
  end.

(* slice[i] with a bounds check (i is a usize: a negative value means the subtraction
   that produced it underflowed) *)
Definition nthZ (l : list Z) (i : Z) : option Z :=
  if i <? 0 then None else nth_error l (Z.to_nat i).

Fixpoint upd_nat (l : list Z) (n : nat) (v : Z) : list Z :=
  match l, n with
  | [], _ => []
  | _ :: t, O => v :: t
  | x :: t, S n' => x :: upd_nat t n' v
  end.

Definition lenZ {A} (l : list A) : Z := Z.of_nat (length l).

(* ---------------------------------------------------------------- update_from_iter *)
(* one iteration of `for (row, &hash_value) in iter` *)
Definition update_one (W d row h : Z) (s : jhm) : option jhm :=
  if W <? row + 1 then None                               (* T::try_from(row + 1).unwrap() *)
  else
    match map_find h (jmap s) with
    | Some prev =>                                        (* Occupied *)
        let i := row - d in                               (* next[row - deleted_offset] = prev_index *)
        if (i <? 0) || (lenZ (jnext s) <=? i) then None
        else Some (mk_jhm (map_set h (row + 1) (jmap s)) (upd_nat (jnext s) (Z.to_nat i) prev))
    | None =>                                             (* Vacant: next is NOT touched *)
        Some (mk_jhm (jmap s ++ [(h, row + 1)]) (jnext s))
    end.

(* update_from_iter(iter, deleted_offset); [it] is the sequence of (row, hash) items the
   iterator yields, in the order it yields them *)
Fixpoint update_from_iter (W d : Z) (it : list (Z * Z)) (s : jhm) : option jhm :=
  match it with
  | [] => Some s
  | (row, h) :: it' =>
      match update_one W d row h s with
      | None => None
      | Some s' => update_from_iter W d it' s'
      end
  end.

(* with_capacity(cap) followed by one update_from_iter call per batch *)
Fixpoint update_batches (W d : Z) (bs : list (list (Z * Z))) (s : jhm) : option jhm :=
  match bs with
  | [] => Some s
  | b :: bs' =>
      match update_from_iter W d b s with
      | None => None
      | Some s' => update_batches W d bs' s'
      end
  end.

Definition build (W d cap : Z) (bs : list (list (Z * Z))) : option jhm :=
  update_batches W d bs (with_capacity cap).

(* ---------------------------------------------------------------- get_matched_indices *)
(* the inner `loop` of get_matched_indices, starting with chain position i (= index - 1).
   [fuel] only cuts off walks that revisit a position (which never end in the Rust code). *)
Fixpoint walk (W : Z) (next : list Z) (od : option Z) (i : Z) (fuel : nat) : option (list Z) :=
  match fuel with
  | O => None
  | S f =>
      let cont (m : Z) :=
        match nthZ next m with                            (* next[match_row_idx] *)
        | None => None
        | Some nx =>
            if nx =? 0 then Some [m]
            else match walk W next od (nx - 1) f with
                 | None => None
                 | Some l => Some (m :: l)
                 end
        end in
      match od with
      | Some off =>
          if W <? off then None                           (* T::try_from(offset).unwrap() *)
          else if i <? off then Some []                   (* pruned: end of list *)
          else cont (i - off)
      | None => cont i
      end
  end.

(* probes: the (row_idx, hash) items of the probe iterator *)
Fixpoint get_matched_indices (W : Z) (s : jhm) (probes : list (Z * Z)) (od : option Z)
  : option (list (Z * Z)) :=
  match probes with
  | [] => Some []
  | (ri, h) :: ps =>
      match map_find h (jmap s) with
      | None => get_matched_indices W s ps od
      | Some idx =>
          if idx <? 1 then None                           (* *index - one *)
          else
            match walk W (jnext s) od (idx - 1) (S (length (jnext s))) with
            | None => None
            | Some l =>
                match get_matched_indices W s ps od with
                | None => None
                | Some r => Some (map (pair ri) l ++ r)
                end
            end
      end
  end.

(* ---------------------------------------------------------------- chain.rs: traverse_chain *)
Definition token := (Z * option Z)%type.                  (* MapOffset = (usize, Option<u64>) *)

Inductive tres :=
  | TStop (t : option token)      (* limit reached: the caller returns this value *)
  | TCont (rem : nat).            (* chain ended with [rem] > 0 output slots left *)

(* one recursive call = one iteration of the `loop`; [rem] is `*remaining` *)
Fixpoint traverse (next : list Z) (pi start : Z) (rem : nat) (is_last : bool)
  : option (list (Z * Z) * tres) :=
  match rem with
  | O => None                                             (* *remaining -= 1 *)
  | S rem' =>
      if start <? 1 then None                             (* start_chain_idx - one / next - one *)
      else
        let r := start - 1 in
        match nthZ next r with                            (* next_chain[match_row_idx] *)
        | None => None
        | Some nx =>
            match rem' with
            | O => Some ([(pi, r)],
                         TStop (if is_last && (nx =? 0) then None else Some (pi, Some nx)))
            | S _ =>
                if nx =? 0 then Some ([(pi, r)], TCont rem')
                else match traverse next pi nx rem' is_last with
                     | None => None
                     | Some (l, t) => Some ((pi, r) :: l, t)
                     end
            end
        end
  end.

(* ---------------------------------------------------------------- get_matched_indices_with_limit_offset *)
(* probes: (hash, key-is-valid) per probe row; valid = false <-> valid_keys says NULL *)

(* `for (i, &hash) in hash_values[to_skip..]` of the chain path; [row] = to_skip + i,
   [n] = hash_values.len() *)
Fixpoint probe_loop (s : jhm) (ps : list (Z * bool)) (row n : Z) (rem : nat)
  : option (list (Z * Z) * option token) :=
  match ps with
  | [] => Some ([], None)
  | (h, valid) :: ps' =>
      if negb valid then probe_loop s ps' (row + 1) n rem
      else
        match map_find h (jmap s) with
        | None => probe_loop s ps' (row + 1) n rem
        | Some idx =>
            match traverse (jnext s) row idx rem (row =? n - 1) with
            | None => None
            | Some (l, TStop t) => Some (l, t)
            | Some (l, TCont rem') =>
                match probe_loop s ps' (row + 1) n rem' with
                | None => None
                | Some (l', t) => Some (l ++ l', t)
                end
            end
        end
  end.

(* the loop of the "unique values" fast path *)
Fixpoint fast_loop (s : jhm) (ps : list (Z * bool)) (row : Z) : option (list (Z * Z)) :=
  match ps with
  | [] => Some []
  | (h, valid) :: ps' =>
      let here :=
        if negb valid then Some []
        else match map_find h (jmap s) with
             | None => Some []
             | Some idx => if idx <? 1 then None else Some [(row, idx - 1)]   (* *idx - one *)
             end in
      match here, fast_loop s ps' (row + 1) with
      | Some a, Some b => Some (a ++ b)
      | _, _ => None
      end
  end.

(* hash_values[i..] *)
Definition slice_from {A} (l : list A) (i : Z) : option (list A) :=
  if (i <? 0) || (lenZ l <? i) then None else Some (skipn (Z.to_nat i) l).

Definition lookup_page (s : jhm) (probes : list (Z * bool)) (limit : Z) (off : token)
  : option (list (Z * Z) * option token) :=
  let n := lenZ probes in
  if lenZ (jmap s) =? lenZ (jnext s) then
    (* map.len() == next_chain.len(): unique fast path; offset.1 is not looked at *)
    let start := fst off in
    let e := Z.min (start + limit) n in
    if (start <? 0) || (e <? start) then None              (* hash_values[start..end] *)
    else
      match fast_loop s (firstn (Z.to_nat (e - start)) (skipn (Z.to_nat start) probes)) start with
      | None => None
      | Some l => Some (l, if e =? n then None else Some (e, None))
      end
  else
    let rem := Z.to_nat limit in
    let continue_at (to_skip : Z) (rem : nat) (pre : list (Z * Z)) :=
      match slice_from probes to_skip with
      | None => None
      | Some ps =>
          match probe_loop s ps to_skip n rem with
          | None => None
          | Some (l, t) => Some (pre ++ l, t)
          end
      end in
    match off with
    | (idx, None) => continue_at idx rem []
    | (idx, Some nxt) =>
        if nxt =? 0 then continue_at (idx + 1) rem []
        else if n <? 1 then None                          (* hash_values.len() - 1 *)
        else
          match traverse (jnext s) idx nxt rem (idx =? n - 1) with
          | None => None
          | Some (l, TStop t) => Some (l, t)
          | Some (l, TCont rem') => continue_at (idx + 1) rem' l
          end
    end.

(* the caller's paging loop (hash_join/stream.rs): call again with the returned offset until None.
   A finite derivation = the loop ends, having produced exactly these pages. *)
Inductive paged_run (s : jhm) (probes : list (Z * bool)) (limit : Z) : token -> list (list (Z * Z)) -> Prop :=
  | run_last : forall t pg,
      lookup_page s probes limit t = Some (pg, None) -> paged_run s probes limit t [pg]
  | run_more : forall t pg t' pgs,
      lookup_page s probes limit t = Some (pg, Some t') ->
      paged_run s probes limit t' pgs -> paged_run s probes limit t (pg :: pgs).

(* contain_hashes / len / is_empty *)
Definition contain_hashes (s : jhm) (hs : list Z) : list bool :=
  map (fun h => match map_find h (jmap s) with Some _ => true | None => false end) hs.
Definition jlen (s : jhm) : Z := lenZ (jmap s).

(* ---------------------------------------------------------------- specification *)
(* [ins] = every (row, hash) inserted so far, in insertion order.
   rows_of ins h = the rows inserted with hash h, most recently inserted first. *)
Definition rows_of (ins : list (Z * Z)) (h : Z) : list Z :=
  map fst (filter (fun p => snd p =? h) (rev ins)).

(* un-paged lookup: for each probe item in order, all build rows with its hash *)
Definition matched_spec (ins : list (Z * Z)) (d : Z) (probes : list (Z * Z)) : list (Z * Z) :=
  flat_map (fun p => map (fun r => (fst p, r - d)) (rows_of ins (snd p))) probes.

(* paged lookup: probe rows are numbered from [row]; NULL-key rows match nothing *)
Definition seg (ins : list (Z * Z)) (p : Z * bool) : list Z :=
  if snd p then rows_of ins (fst p) else [].
Fixpoint spec_from (ins : list (Z * Z)) (ps : list (Z * bool)) (row : Z) : list (Z * Z) :=
  match ps with
  | [] => []
  | p :: ps' => map (pair row) (seg ins p) ++ spec_from ins ps' (row + 1)
  end.
Definition lookup_spec (ins : list (Z * Z)) (probes : list (Z * bool)) : list (Z * Z) :=
  spec_from ins probes 0.

Definition nonempty {A} (l : list A) : bool := match l with [] => false | _ => true end.

(* what the code relies on its callers for: each build row number is inserted once,
   row - deleted_offset indexes `next`, row + 1 fits the index type *)
Definition wf_ins (W d cap : Z) (ins : list (Z * Z)) : Prop :=
  NoDup (map fst ins) /\
  Forall (fun p => d <= fst p /\ fst p - d < cap /\ fst p + 1 <= W) ins.

(* ---------------------------------------------------------------- correspondence cases *)
Definition pair_eqb (a b : Z * Z) : bool := (fst a =? fst b) && (snd a =? snd b).
Definition pairs_eqb := list_eqb pair_eqb.
Definition tok_eqb (a b : token) : bool := (fst a =? fst b) && zopt_eqb (snd a) (snd b).
Definition page_eqb (a b : list (Z * Z) * option token) : bool :=
  pairs_eqb (fst a) (fst b) && opt_eqb tok_eqb (snd a) (snd b).

(* replay the observed pages: every call is made with the offset the previous call returned *)
Fixpoint pages_agree (s : jhm) (probes : list (Z * bool)) (limit : Z) (t : token)
         (obs : list (option (list (Z * Z) * option token))) : bool :=
  match obs with
  | [] => true
  | o :: obs' =>
      opt_eqb page_eqb (lookup_page s probes limit t) o &&
      match o with
      | Some (_, Some t') => pages_agree s probes limit t' obs'
      | _ => match obs' with [] => true | _ => false end
      end
  end.

Inductive c14_case :=
  (* width bits, capacity, deleted_offset, batches (as yielded), observed: did update_from_iter return? *)
  | CBuild (wbits cap d : Z) (bs : list (list (Z * Z))) (returned : bool) (len : Z)
  (* get_matched_indices(probes, od) = obs (None = panicked) *)
  | CMatched (wbits cap d : Z) (bs : list (list (Z * Z))) (probes : list (Z * Z)) (od : option Z)
             (obs : option (list (Z * Z)))
  (* successive get_matched_indices_with_limit_offset calls starting at [t0] *)
  | CPaged (wbits cap d : Z) (bs : list (list (Z * Z))) (probes : list (Z * bool)) (limit : Z) (t0 : token)
           (obs : list (option (list (Z * Z) * option token)))
  | CContains (wbits cap d : Z) (bs : list (list (Z * Z))) (hs : list Z) (obs : list bool).

Definition wmax (wbits : Z) : Z := 2 ^ wbits - 1.

Definition c14_check (c : c14_case) : bool :=
  match c with
  | CBuild wb cap d bs returned len =>
      match build (wmax wb) d cap bs with
      | Some s => returned && (jlen s =? len)
      | None => negb returned
      end
  | CMatched wb cap d bs probes od obs =>
      match build (wmax wb) d cap bs with
      | Some s => opt_eqb pairs_eqb (get_matched_indices (wmax wb) s probes od) obs
      | None => false
      end
  | CPaged wb cap d bs probes limit t0 obs =>
      match build (wmax wb) d cap bs with
      | Some s => pages_agree s probes limit t0 obs
      | None => false
      end
  | CContains wb cap d bs hs obs =>
      match build (wmax wb) d cap bs with
      | Some s => list_eqb Bool.eqb (contain_hashes s hs) obs
      | None => false
      end
  end.
