(* C04 -- DataFusion's expression simplifier (optimizer/src/simplify_expressions/expr_simplifier.rs & co) as
   rewrite RULES between expressions of the reference semantics E1 (Model/RefSQL.v).  Definitions only; the
   proofs are in Proofs/SimpRulesProofs.v, the pinned theorems in Props/C04.v.

   What is here
   * [sev]: a structurally recursive evaluator of the subquery-free fragment of RefSQL expressions.  It is the
     RefSQL evaluator [eval_expr] with the fuel removed ([sev_adequate]: for every subquery-free [e] and every
     fuel above [edepth e], [eval_expr f d en e = sev en e]); the rule theorems are stated about it.
   * the side conditions the Rust rules compute, transcribed by hand:
       [nullable sch e]        expr/src/expr_schema.rs  ExprSchemable::nullable  (what [info.nullable(e)] returns)
       [is_true_lit] ...       simplify_expressions/utils.rs
       [negate_op]             Operator::negate
       [negate_clause]         utils.rs negate_clause (NOT pushing / De Morgan)
       [inter] [except] [union] expr_simplifier.rs inlist_intersection / inlist_except / inlist_union
       [try_cast_int_literal]  expr-common/src/casts.rs try_cast_literal_to_type (integer targets)
       [shorten_inlist]        inlist_simplifier.rs
       [coalesce_case]         functions/src/core/coalesce.rs simplify
   * values outside RefSQL that the rules talk about: integer casts ([cast_int]: CAST fails / TRY_CAST yields NULL
     when the value does not fit) and bitwise operators ([bitop]) -- modelled over Z (two's complement =
     Z.land / Z.lor / Z.lxor on signed integers).
   * the per-program validator [equiv_on] / [equiv_small] (exhaustive evaluation of both expressions on the product of
     small per-column domains) and the correspondence case [c04_case] / [c04_check] used by the differential tie. *)
From Coq Require Import List ZArith Bool Lia.
From DF Require Import Base.Prelude Model.RefSQL.
Import ListNotations.
Open Scope Z_scope.

(* ------------------------------------------------------------------ the fuel-free evaluator *)
Fixpoint sev (en : env) (e : expr) {struct e} : res value :=
  match e with
  | ECol dp i => lookup en dp i
  | ELit v => Ok v
  | EArith op a b => x <- sev en a;; y <- sev en b;; arith op x y
  | ECmp op a b => x <- sev en a;; y <- sev en b;; Ok (value_of_tv (cmp3 op x y))
  | EAnd a b => x <- (v <- sev en a;; tv_of_value v);; y <- (v <- sev en b;; tv_of_value v);; Ok (value_of_tv (and3 x y))
  | EOr a b => x <- (v <- sev en a;; tv_of_value v);; y <- (v <- sev en b;; tv_of_value v);; Ok (value_of_tv (or3 x y))
  | ENot a => x <- (v <- sev en a;; tv_of_value v);; Ok (value_of_tv (not3 x))
  | EIsNull neg a => x <- sev en a;; Ok (VBool (xorb neg (is_null x)))
  | EDistinct neg a b => x <- sev en a;; y <- sev en b;; Ok (VBool (xorb (negb neg) (not_distinct x y)))
  | EBetween neg a lo hi =>
      x <- sev en a;; l <- sev en lo;; h <- sev en hi;;
      let t := and3 (cmp3 CGe x l) (cmp3 CLe x h) in
      Ok (value_of_tv (if neg then not3 t else t))
  | EInList neg a l =>
      x <- sev en a;;
      vs <- (fix go (l : list expr) : res (list value) :=
               match l with
               | [] => Ok []
               | e :: l' => y <- sev en e;; ys <- go l';; Ok (y :: ys)
               end) l;;
      Ok (value_of_tv (if neg then not_in3 x vs else in3 x vs))
  | ECase ws els =>
      (fix go (ws : list (expr * expr)) : res value :=
         match ws with
         | [] => match els with Some e => sev en e | None => Ok VNull end
         | (w, t) :: ws' => c <- (v <- sev en w;; tv_of_value v);; match c with TT => sev en t | _ => go ws' end
         end) ws
  | ECoalesce l =>
      (fix go (l : list expr) : res value :=
         match l with
         | [] => Ok VNull
         | e :: l' => v <- sev en e;; if is_null v then go l' else Ok v
         end) l
  | ENullif a b => x <- sev en a;; y <- sev en b;; Ok (match eq3 x y with TT => VNull | _ => x end)
  | EScalar _ | EExists _ _ | EInSub _ _ _ => Err EType
  end.

Definition sevp (en : env) (e : expr) : res tv := v <- sev en e;; tv_of_value v.

Definition list_max_nat (l : list nat) : nat := fold_right Nat.max O l.

Fixpoint edepth (e : expr) : nat :=
  match e with
  | ECol _ _ | ELit _ => 1
  | EArith _ a b | ECmp _ a b | EAnd a b | EOr a b | EDistinct _ a b | ENullif a b => S (Nat.max (edepth a) (edepth b))
  | ENot a | EIsNull _ a => S (edepth a)
  | EBetween _ a lo hi => S (Nat.max (edepth a) (Nat.max (edepth lo) (edepth hi)))
  | EInList _ a l => S (Nat.max (edepth a) (list_max_nat (map edepth l)))
  | ECase ws els =>
      S (Nat.max (list_max_nat (map (fun wt : expr * expr => let (w, t) := wt in Nat.max (edepth w) (edepth t)) ws))
                 (match els with Some x => edepth x | None => O end))
  | ECoalesce l => S (list_max_nat (map edepth l))
  | EScalar _ | EExists _ _ | EInSub _ _ _ => 1
  end%nat.

Fixpoint subq_free (e : expr) : bool :=
  match e with
  | ECol _ _ | ELit _ => true
  | EArith _ a b | ECmp _ a b | EAnd a b | EOr a b | EDistinct _ a b | ENullif a b => subq_free a && subq_free b
  | ENot a | EIsNull _ a => subq_free a
  | EBetween _ a lo hi => subq_free a && subq_free lo && subq_free hi
  | EInList _ a l => subq_free a && forallb subq_free l
  | ECase ws els =>
      forallb (fun wt : expr * expr => let (w, t) := wt in subq_free w && subq_free t) ws &&
      match els with Some x => subq_free x | None => true end
  | ECoalesce l => forallb subq_free l
  | EScalar _ | EExists _ _ | EInSub _ _ _ => false
  end.

(* ------------------------------------------------------------------ expr_schema.rs: ExprSchemable::nullable *)
(* a schema = the nullability flag of every column of the current row *)
Definition schema := list bool.
Definition col_nullable (sch : schema) (i : Z) : bool :=
  if i <? 0 then true else match nth_error sch (Z.to_nat i) with Some b => b | None => true end.
Definition conforms (sch : schema) (r : row) : Prop :=
  forall i v, col_nullable sch i = false -> nth_error r (Z.to_nat i) = Some v -> v <> VNull.

(* MAX_INSPECT_LIMIT = 6 for IN lists.  CASE: the Rust code additionally proves some nullable THEN branches
   unreachable (predicate_bounds); the model is the conservative core (a nullable THEN makes the CASE nullable).
   COALESCE / NULLIF / subqueries: nullable (the UDFs' return_field). *)
Fixpoint nullable (sch : schema) (e : expr) : bool :=
  match e with
  | ECol dp i => if dp =? 0 then col_nullable sch i else true
  | ELit v => is_null v
  | EArith _ a b | ECmp _ a b | EAnd a b | EOr a b | EDistinct _ a b => nullable sch a || nullable sch b
  | ENot a => nullable sch a
  | EIsNull _ _ => false
  | EBetween _ a lo hi => nullable sch a || nullable sch lo || nullable sch hi
  | EInList _ a l =>
      nullable sch a ||
      (fix go (n : nat) (l : list expr) : bool :=
         match n, l with
         | S n', x :: l' => nullable sch x || go n' l'
         | _, _ => false
         end) 5%nat l ||
      (6 <? Z.of_nat (length l) + 1)
  | ECase ws els =>
      existsb (fun wt : expr * expr => let (_, t) := wt in nullable sch t) ws ||
      match els with Some x => nullable sch x | None => true end
  | ECoalesce _ | ENullif _ _ | EScalar _ | EExists _ _ | EInSub _ _ _ => true
  end.

(* ------------------------------------------------------------------ utils.rs *)
Definition is_true_lit (e : expr) : bool := match e with ELit (VBool true) => true | _ => false end.
Definition is_false_lit (e : expr) : bool := match e with ELit (VBool false) => true | _ => false end.
Definition is_null_lit (e : expr) : bool := match e with ELit VNull => true | _ => false end.

Definition negate_op (op : cmp_op) : cmp_op :=
  match op with CEq => CNe | CNe => CEq | CLt => CGe | CLe => CGt | CGt => CLe | CGe => CLt end.
Definition swap_op (op : cmp_op) : cmp_op :=
  match op with CEq => CEq | CNe => CNe | CLt => CGt | CLe => CGe | CGt => CLt | CGe => CLe end.

(* utils.rs negate_clause: what [Expr::Not(inner)] is rewritten to *)
Fixpoint negate_clause (e : expr) : expr :=
  match e with
  | ECmp op a b => ECmp (negate_op op) a b
  | EDistinct neg a b => EDistinct (negb neg) a b
  | EAnd a b => EOr (negate_clause a) (negate_clause b)
  | EOr a b => EAnd (negate_clause a) (negate_clause b)
  | ENot a => a
  | EIsNull neg a => EIsNull (negb neg) a
  | EInList neg a l => EInList (negb neg) a l
  | EBetween neg a lo hi => EBetween (negb neg) a lo hi
  | _ => ENot e
  end.

(* ------------------------------------------------------------------ IN-list merging (values = the literals of the lists) *)
Definition vmem (v : value) (l : list value) : bool := existsb (value_eqb v) l.
Definition inter (l1 l2 : list value) : list value := filter (fun v => vmem v l2) l1.      (* inlist_intersection *)
Definition except (l1 l2 : list value) : list value := filter (fun v => negb (vmem v l2)) l1. (* inlist_except *)
Definition union (l1 l2 : list value) : list value := l1 ++ except l2 l1.                  (* inlist_union *)
Fixpoint dedup (l : list value) : list value :=                                          (* the OR -> IN merge: first occurrences *)
  match l with
  | [] => []
  | v :: l' => v :: filter (fun w => negb (value_eqb v w)) (dedup l')
  end.
Definition all_int (l : list value) : Prop := Forall (fun v => exists z, v = VInt z) l.

(* inlist_simplifier.rs: x IN (a, b, c) --> ((x = a) OR (x = b)) OR (x = c)   (left-deep; negated: <> and AND) *)
Definition shorten_inlist (neg : bool) (x : expr) (l : list expr) : option expr :=
  match l with
  | [] => None
  | a :: l' =>
      Some (fold_left (fun acc y => if neg then EAnd acc (ECmp CNe x y) else EOr acc (ECmp CEq x y)) l'
                      (if neg then ECmp CNe x a else ECmp CEq x a))
  end.

(* coalesce.rs simplify: COALESCE(a1..an) --> CASE WHEN a1 IS NOT NULL THEN a1 ... ELSE an END *)
Definition coalesce_case (l : list expr) : option expr :=
  match l with
  | [] => None
  | [a] => Some a
  | _ => Some (ECase (map (fun a => (EIsNull true a, a)) (removelast l)) (Some (last l (ELit VNull))))
  end.

(* CASE WHEN ... with literal TRUE / FALSE conditions (expr_simplifier.rs "CASE WHEN true THEN A ...") *)
Fixpoint case_fold (ws : list (expr * expr)) (els : option expr) : list (expr * expr) * option expr :=
  match ws with
  | [] => ([], els)
  | (w, t) :: ws' =>
      if is_true_lit w then ([], Some t)
      else if is_false_lit w then case_fold ws' els
      else let (ws2, els2) := case_fold ws' els in ((w, t) :: ws2, els2)
  end.
Definition case_fold_expr (ws : list (expr * expr)) (els : option expr) : expr :=
  let (ws2, els2) := case_fold ws els in
  match ws2 with
  | [] => match els2 with Some e => e | None => ELit VNull end
  | _ => ECase ws2 els2
  end.

(* ------------------------------------------------------------------ integer casts and unwrap_cast *)
Inductive int_ty := I8 | I16 | I32 | I64 | U8 | U16 | U32 | U64.
Definition int_lo (t : int_ty) : Z :=
  match t with I8 => -128 | I16 => -32768 | I32 => -2147483648 | I64 => -9223372036854775808 | _ => 0 end.
Definition int_hi (t : int_ty) : Z :=
  match t with
  | I8 => 127 | I16 => 32767 | I32 => 2147483647 | I64 => 9223372036854775807
  | U8 => 255 | U16 => 65535 | U32 => 4294967295 | U64 => 18446744073709551615
  end.
Definition fits (t : int_ty) (z : Z) : bool := (int_lo t <=? z) && (z <=? int_hi t).
Definition widening (s t : int_ty) : bool := (int_lo t <=? int_lo s) && (int_hi s <=? int_hi t).

(* CAST(v AS t) (safe = false: error when it does not fit) / TRY_CAST (safe = true: NULL) *)
Definition cast_int (safe : bool) (t : int_ty) (v : value) : res value :=
  match v with
  | VNull => Ok VNull
  | VInt z => if fits t z then Ok (VInt z) else if safe then Ok VNull else Err EOverflow
  | _ => Err EType
  end.
(* casts.rs try_cast_literal_to_type for integer literal and integer target: the value itself when in range *)
Definition try_cast_int_literal (s : int_ty) (lit : Z) : option Z := if fits s lit then Some lit else None.
(* unwrap_cast.rs: cast(x AS t) op lit  -->  x op lit'   where lit' = the literal cast to x's type s; None = rule does not fire *)
Definition unwrap_cast_cmp (op : cmp_op) (s : int_ty) (x : value) (lit : Z) : option tv :=
  match try_cast_int_literal s lit with
  | Some l => Some (cmp3 op x (VInt l))
  | None => None
  end.
Definition has_ty (s : int_ty) (x : value) : Prop := x = VNull \/ exists z, x = VInt z /\ fits s z = true.

(* ------------------------------------------------------------------ bitwise operators (outside RefSQL) *)
Definition bitop (f : Z -> Z -> Z) (a b : value) : res value :=
  match a, b with
  | VNull, (VNull | VInt _) | VInt _, VNull => Ok VNull
  | VInt x, VInt y => Ok (VInt (f x y))
  | _, _ => Err EType
  end.
Definition neg_val (a : value) : res value :=
  match a with VNull => Ok VNull | VInt x => Ok (VInt (- x)) | _ => Err EType end.

(* ------------------------------------------------------------------ guarantees.rs: a column known to lie in [lo, hi] *)
(* NullableInterval::apply_operator for [lo, hi] against a literal point c, then is_certainly_true / false *)
Definition interval_cmp (op : cmp_op) (lo hi c : Z) : option bool :=
  match op with
  | CEq => if (lo =? c) && (hi =? c) then Some true else if (c <? lo) || (hi <? c) then Some false else None
  | CNe => if (lo =? c) && (hi =? c) then Some false else if (c <? lo) || (hi <? c) then Some true else None
  | CLt => if hi <? c then Some true else if c <=? lo then Some false else None
  | CLe => if hi <=? c then Some true else if c <? lo then Some false else None
  | CGt => if c <? lo then Some true else if hi <=? c then Some false else None
  | CGe => if c <=? lo then Some true else if hi <? c then Some false else None
  end.

(* ------------------------------------------------------------------ per-program validation on a small domain *)
Fixpoint product (doms : list (list value)) : list row :=
  match doms with
  | [] => [[]]
  | d :: ds => flat_map (fun v => map (cons v) (product ds)) d
  end.

Definition c04_fuel : nat := 64.
Definition ev (e : expr) (r : row) : res value := eval_expr c04_fuel [] [r] e.

(* 0 same (or the original fails: nothing to compare); 1 different values; 2 the simplified expression has a
   run-time error where the original has a value; 3 ill-formed *)
Definition row_verdict (e e' : expr) (r : row) : Z :=
  match ev e r with
  | Err er => if runtime_err er then 0 else 3
  | Ok v =>
      match ev e' r with
      | Ok v' => if value_eqb v v' then 0 else 1
      | Err er => if runtime_err er then 2 else 3
      end
  end.
Definition equiv_on (e e' : expr) (rows : list row) : bool := forallb (fun r => row_verdict e e' r =? 0) rows.
(* lenient: a run-time error of the simplified expression where the reference is stricter than the engine
   (AND / OR evaluate both operands in the reference) is not counted *)
Definition equiv_on_lenient (e e' : expr) (rows : list row) : bool :=
  forallb (fun r => let v := row_verdict e e' r in (v =? 0) || (v =? 2)) rows.

Inductive col_ty := TInt (nullable : bool) (lo hi : Z) | TBool (nullable : bool) | TStr (nullable : bool).
Definition small_dom (t : col_ty) : list value :=
  match t with
  | TInt n lo hi => (if n then [VNull] else []) ++ map VInt [-1; 0; 1; 2; lo; hi]
  | TBool n => (if n then [VNull] else []) ++ [VBool true; VBool false]
  | TStr n => (if n then [VNull] else []) ++ [VStr []; VStr [97]; VStr [98]]
  end.
Definition equiv_small (e e' : expr) (sch : list col_ty) : bool := equiv_on e e' (product (map small_dom sch)).

(* the engine's observed value of the ORIGINAL expression on a row: Some v, or None when the engine failed *)
Definition obs_agree (e : expr) (r : row) (o : option value) : bool :=
  match ev e r, o with
  | Ok v, Some v' => value_eqb v v'
  | Ok _, None => true                   (* the engine failed on this row (e.g. COALESCE before it is simplified): not compared *)
  | Err er, _ => runtime_err er          (* overflow (the engine wraps), division by zero: not compared *)
  end.
Fixpoint obs_agree_all (e : expr) (rows : list row) (obs : list (option value)) : bool :=
  match rows, obs with
  | [], [] => true
  | r :: rows', o :: obs' => obs_agree e r o && obs_agree_all e rows' obs'
  | _, _ => false
  end.

Inductive c04_case := C04Case (e e' : expr) (doms : list (list value)) (obs : list (option value)).
(* the simplifier's output is equivalent to its input on the whole product domain, and the reference evaluator
   computes what the engine computed for the input *)
Definition c04_check (c : c04_case) : bool :=
  match c with C04Case e e' doms obs => let rows := product doms in equiv_on e e' rows && obs_agree_all e rows obs end.
Definition c04_check_lenient (c : c04_case) : bool :=
  match c with C04Case e e' doms obs => let rows := product doms in equiv_on_lenient e e' rows && obs_agree_all e rows obs end.
Definition c04_equiv_only (c : c04_case) : bool :=
  match c with C04Case e e' doms _ => equiv_on_lenient e e' (product doms) end.

(* ------------------------------------------------------------------ what a rule theorem states *)
(* [rw en l r]: in every environment (row) on which the LEFT side evaluates without error, the right side
   evaluates to the same value *)
Definition rw (en : env) (l r : expr) : Prop := forall v, sev en l = Ok v -> sev en r = Ok v.
(* the semantic content of the guards [!info.nullable(A)] ([nullable_sound]) and [info.is_boolean_type(A)] *)
Definition nonnull_at (en : env) (A : expr) : Prop := forall v, sev en A = Ok v -> v <> VNull.
Definition bool_at (en : env) (A : expr) : Prop := forall v, sev en A = Ok v -> v = VNull \/ exists b, v = VBool b.
Definition is_bool_lit (e : expr) : bool := match e with ELit (VBool _) | ELit VNull => true | _ => false end.

Fixpoint case_eval (en : env) (ws : list (expr * expr)) (els : option expr) : res value :=
  match ws with
  | [] => match els with Some e => sev en e | None => Ok VNull end
  | (w, t) :: ws' => c <- sevp en w;; match c with TT => sev en t | _ => case_eval en ws' els end
  end.
Fixpoint coal_eval (en : env) (l : list expr) : res value :=
  match l with
  | [] => Ok VNull
  | e :: l' => v <- sev en e;; if is_null v then coal_eval en l' else Ok v
  end.

(* ------------------------------------------------------------------ region abstraction (E2-light) *)
(* expressions whose atoms only compare column 0 (an integer column) with integer literals from [cs]: their value on a
   row depends only on the REGION of the column value relative to the literals, so evaluating both expressions on one
   representative per region (each literal, its two neighbours, 0, NULL) decides equivalence for ALL values *)
Fixpoint lit_atoms (cs : list Z) (e : expr) : bool :=
  match e with
  | ELit (VBool _) | ELit VNull => true
  | ECmp _ (ECol 0 0) (ELit (VInt c)) => existsb (Z.eqb c) cs
  | ECmp _ (ELit (VInt c)) (ECol 0 0) => existsb (Z.eqb c) cs
  | EBetween _ (ECol 0 0) (ELit (VInt c1)) (ELit (VInt c2)) => existsb (Z.eqb c1) cs && existsb (Z.eqb c2) cs
  | EIsNull _ (ECol 0 0) => true
  | EAnd a b | EOr a b => lit_atoms cs a && lit_atoms cs b
  | ENot a => lit_atoms cs a
  | _ => false
  end.
Definition reps (cs : list Z) : list value :=
  VNull :: VInt 0 :: flat_map (fun c => [VInt (c - 1); VInt c; VInt (c + 1)]) cs.
Definition same_on (e e' : expr) (v : value) : bool :=
  match sev [[v]] e, sev [[v]] e' with Ok a, Ok b => value_eqb a b | _, _ => false end.
Definition equiv_regions (e e' : expr) (cs : list Z) : bool :=
  lit_atoms cs e && lit_atoms cs e' && forallb (same_on e e') (reps cs).
