(* C51 -- the command-line client splits scripts at semicolons outside quotes and formats results
   faithfully.  Executable models (definitions only; proofs are in Proofs/CliSplitProofs.v).

   Part 1  datafusion-cli/src/helper.rs  split_from_semicolon   (a loop over the chars of the line)
   Part 2  datafusion-cli/src/print_format.rs  PrintFormat::{Csv,Tsv,Json,NdJson}:
           arrow-csv Writer -> csv-core Writer (QuoteStyle::Necessary, double_quote, LF terminator, NULL = <dq><dq>)
           arrow-json ArrayWriter / LineDelimitedWriter -> serde_json string escaping (explicit_nulls = false)

   Text is a list of Z: Unicode code points for Part 1 (Rust iterates `sql.chars()`), bytes of the
   UTF-8 encoding for Part 2 (both writers work on bytes; all bytes >= 0x80 pass through verbatim). *)
(* In comments <dq> stands for the double quote character (code 34). *)
From DF Require Import Base.Prelude.
Open Scope Z_scope.

(* ------------------------------------------------------------------------------------------ *)
(* Part 1: split_from_semicolon                                                               *)
(* ------------------------------------------------------------------------------------------ *)

(* Rust char::is_whitespace = Unicode White_Space *)
Definition is_ws (c : Z) : bool :=
  ((9 <=? c) && (c <=? 13)) || (c =? 32) || (c =? 133) || (c =? 160) || (c =? 5760)
  || ((8192 <=? c) && (c <=? 8202)) || (c =? 8232) || (c =? 8233) || (c =? 8239)
  || (c =? 8287) || (c =? 12288).

Fixpoint trim_start (s : list Z) : list Z :=
  match s with
  | c :: r => if is_ws c then trim_start r else s
  | [] => []
  end.
(* str::trim *)
Definition trim (s : list Z) : list Z := rev (trim_start (rev (trim_start s))).
(* current_command.trim().is_empty() *)
Definition blank (s : list Z) : bool := match trim s with [] => true | _ => false end.

(* format!(<dq>{};<dq>, current_command.trim()) *)
Definition piece (cur : list Z) : list Z := trim cur ++ [59].

(* the loop body, with the two flags, the command under construction and the commands pushed so far.
   39 = ', 34 = <dq>, 59 = ;   Note that a blank current_command is NOT cleared at a semicolon. *)
Fixpoint split_loop (s : list Z) (sq dq : bool) (cur : list Z) (out : list (list Z)) : list (list Z) :=
  match s with
  | [] => if blank cur then out else out ++ [piece cur]
  | c :: r =>
    let t1 := (c =? 39) && negb dq in
    let t2 := negb t1 && (c =? 34) && negb sq in
    let sq' := if t1 then negb sq else sq in
    let dq' := if t2 then negb dq else dq in
    if (c =? 59) && negb sq' && negb dq' then
      if blank cur then split_loop r sq' dq' cur out
      else split_loop r sq' dq' [] (out ++ [piece cur])
    else split_loop r sq' dq' (cur ++ [c]) out
  end.

Definition split_model (s : list Z) : list (list Z) := split_loop s false false [] [].

(* ---- specification: a reference lexer, written independently of the loop above ------------- *)
Inductive lstate := Normal | InSingle | InDouble.

(* a quoted region ends at the next occurrence of the quote that opened it; the other quote character
   is ordinary text inside it.  A doubled quote ('' inside '...') closes and reopens at once, so the
   text after it is still inside the literal. *)
Definition lex_step (st : lstate) (c : Z) : lstate :=
  match st with
  | Normal => if c =? 39 then InSingle else if c =? 34 then InDouble else Normal
  | InSingle => if c =? 39 then Normal else InSingle
  | InDouble => if c =? 34 then Normal else InDouble
  end.
Definition lex_run (st : lstate) (s : list Z) : lstate := fold_left lex_step s st.

Definition is_normal (st : lstate) : bool := match st with Normal => true | _ => false end.

(* separator marks: position i is a statement separator iff it holds ';' and the lexer is in
   state Normal when it reads it *)
Fixpoint seps (st : lstate) (s : list Z) : list bool :=
  match s with
  | [] => []
  | c :: r => ((c =? 59) && is_normal st) :: seps (lex_step st c) r
  end.

(* cut the text at the marked positions (the marked characters are dropped); n marks give n+1 segments *)
Fixpoint cut (s : list Z) (m : list bool) : list (list Z) :=
  match s, m with
  | c :: r, b :: m' =>
      if b then [] :: cut r m'
      else match cut r m' with x :: xs => (c :: x) :: xs | [] => [[c]] end
  | _, _ => [[]]
  end.

Definition segments (s : list Z) : list (list Z) := cut s (seps Normal s).

(* the statements reported for a list of segments: blank ones dropped, the others trimmed + ';' *)
Definition render (segs : list (list Z)) : list (list Z) :=
  map piece (filter (fun x => negb (blank x)) segs).

Definition ref_split (s : list Z) : list (list Z) := render (segments s).

(* joining with ';' *)
Fixpoint join59 (segs : list (list Z)) : list Z :=
  match segs with
  | [] => []
  | [x] => x
  | x :: r => x ++ 59 :: join59 r
  end.

(* a grammar of statements <dq>containing quotes, doubled quotes and semicolons inside literals<dq> *)
Inductive tok :=
| TPlain (c : Z)              (* any character other than ' <dq> ; *)
| TStr (body : list Z)        (* string literal with this value: 'body' with every ' doubled *)
| TIdent (body : list Z).     (* quoted identifier with this value: <dq>body<dq> with every <dq> doubled *)

Fixpoint dbl_q (q : Z) (s : list Z) : list Z :=
  match s with [] => [] | c :: r => if c =? q then q :: q :: dbl_q q r else c :: dbl_q q r end.
Definition tok_ok (t : tok) : bool :=
  match t with TPlain c => negb ((c =? 39) || (c =? 34) || (c =? 59)) | _ => true end.
Definition tok_text (t : tok) : list Z :=
  match t with
  | TPlain c => [c]
  | TStr b => 39 :: dbl_q 39 b ++ [39]
  | TIdent b => 34 :: dbl_q 34 b ++ [34]
  end.
Definition stmt_text (ts : list tok) : list Z := flat_map tok_text ts.

(* a second reference lexer that also knows backtick-quoted identifiers (96 = `), which the default
   (generic) SQL dialect of the client accepts; used only for the refutation C51_backtick_refuted *)
Inductive lstate4 := N4 | S4 | D4 | B4.
Definition lex_step4 (st : lstate4) (c : Z) : lstate4 :=
  match st with
  | N4 => if c =? 39 then S4 else if c =? 34 then D4 else if c =? 96 then B4 else N4
  | S4 => if c =? 39 then N4 else S4
  | D4 => if c =? 34 then N4 else D4
  | B4 => if c =? 96 then N4 else B4
  end.
Fixpoint seps4 (st : lstate4) (s : list Z) : list bool :=
  match s with
  | [] => []
  | c :: r => ((c =? 59) && match st with N4 => true | _ => false end) :: seps4 (lex_step4 st c) r
  end.
Definition ref_split_bt (s : list Z) : list (list Z) := render (cut s (seps4 N4 s)).

(* ------------------------------------------------------------------------------------------ *)
(* Part 2a: CSV / TSV (csv-core writer as configured by arrow-csv; d = delimiter byte)         *)
(* ------------------------------------------------------------------------------------------ *)

(* requires_quotes: delimiter, quote, CR, LF *)
Definition special (d b : Z) : bool := (b =? d) || (b =? 34) || (b =? 13) || (b =? 10).
Definition needs_quotes (d : Z) (f : list Z) : bool := existsb (special d) f.
Definition enc_field (d : Z) (f : list Z) : list Z :=
  if needs_quotes d f then 34 :: dbl_q 34 f ++ [34] else f.
Fixpoint join_fields (d : Z) (fs : list (list Z)) : list Z :=
  match fs with
  | [] => []
  | [f] => f
  | f :: r => f ++ d :: join_fields d r
  end.
(* a record that produced no bytes at all (a single empty field) is written as <dq><dq> ; terminator LF *)
Definition write_record (d : Z) (r : list (list Z)) : list Z :=
  (match join_fields d (map (enc_field d) r) with [] => [34; 34] | body => body end) ++ [10].
Definition write_csv (d : Z) (rows : list (list (list Z))) : list Z := flat_map (write_record d) rows.

(* NULL is written as the empty field *)
Definition cell_text (c : option (list Z)) : list Z := match c with Some t => t | None => [] end.
(* what PrintFormat::Csv / Tsv prints for string columns (header line, then the rows) *)
Definition table_records (header : option (list (list Z))) (rows : list (list (option (list Z)))) : list (list (list Z)) :=
  match header with Some h => [h] | None => [] end ++ map (map cell_text) rows.
Definition print_csv (d : Z) (header : option (list (list Z))) (rows : list (list (option (list Z)))) : list Z :=
  write_csv d (table_records header rows).

(* an independent strict RFC-4180 style reader (LF line ends, delimiter d, quote <dq>, doubled quotes).
   States: record start, field start (after a delimiter), unquoted field, inside quotes, quote seen
   inside quotes.  Malformed input (quote inside an unquoted field, text after a closing quote, bare CR
   outside quotes, unterminated quote) is rejected; empty lines are skipped. *)
Inductive cst := RS | FS | UQ | QT | QQ.
Fixpoint parse_csv_from (d : Z) (s : list Z) (st : cst) (fld : list Z) (rc : list (list Z))
         (acc : list (list (list Z))) : option (list (list (list Z))) :=
  let endf := rev fld :: rc in
  match s with
  | [] =>
      match st with
      | RS => Some (rev acc)
      | QT => None
      | _ => Some (rev (rev endf :: acc))
      end
  | c :: r =>
      match st with
      | RS | FS =>
          if c =? 34 then parse_csv_from d r QT [] rc acc
          else if c =? d then parse_csv_from d r FS [] ([] :: rc) acc
          else if c =? 10 then
            match st with
            | RS => parse_csv_from d r RS [] [] acc
            | _ => parse_csv_from d r RS [] [] (rev ([] :: rc) :: acc)
            end
          else if c =? 13 then None
          else parse_csv_from d r UQ [c] rc acc
      | UQ =>
          if c =? 34 then None
          else if c =? d then parse_csv_from d r FS [] endf acc
          else if c =? 10 then parse_csv_from d r RS [] [] (rev endf :: acc)
          else if c =? 13 then None
          else parse_csv_from d r UQ (c :: fld) rc acc
      | QT =>
          if c =? 34 then parse_csv_from d r QQ fld rc acc
          else parse_csv_from d r QT (c :: fld) rc acc
      | QQ =>
          if c =? 34 then parse_csv_from d r QT (34 :: fld) rc acc
          else if c =? d then parse_csv_from d r FS [] endf acc
          else if c =? 10 then parse_csv_from d r RS [] [] (rev endf :: acc)
          else None
      end
  end.
Definition parse_csv (d : Z) (s : list Z) : option (list (list (list Z))) :=
  parse_csv_from d s RS [] [] [].

(* ------------------------------------------------------------------------------------------ *)
(* Part 2b: JSON / NDJSON strings (serde_json ESCAPE table)                                    *)
(* ------------------------------------------------------------------------------------------ *)
Definition hexd (n : Z) : Z := if n <? 10 then 48 + n else 87 + n.   (* 0-9 a-f *)
Definition json_esc_byte (b : Z) : list Z :=
  if b =? 34 then [92; 34]
  else if b =? 92 then [92; 92]
  else if b =? 8 then [92; 98]
  else if b =? 9 then [92; 116]
  else if b =? 10 then [92; 110]
  else if b =? 12 then [92; 102]
  else if b =? 13 then [92; 114]
  else if (0 <=? b) && (b <? 32) then [92; 117; 48; 48; hexd (b / 16); hexd (b mod 16)]
  else [b].
Definition json_write_string (s : list Z) : list Z := 34 :: flat_map json_esc_byte s ++ [34].

(* an independent JSON string reader (RFC 8259 string syntax; \uXXXX only for code points < 0x80,
   which is all a byte-level round trip needs; raw control characters are rejected) *)
Definition hexv (c : Z) : option Z :=
  if (48 <=? c) && (c <=? 57) then Some (c - 48)
  else if (97 <=? c) && (c <=? 102) then Some (c - 87)
  else if (65 <=? c) && (c <=? 70) then Some (c - 55)
  else None.
Definition short_escape (e : Z) : option Z :=
  if e =? 34 then Some 34 else if e =? 92 then Some 92 else if e =? 47 then Some 47
  else if e =? 98 then Some 8 else if e =? 102 then Some 12 else if e =? 110 then Some 10
  else if e =? 114 then Some 13 else if e =? 116 then Some 9 else None.
Fixpoint json_read_body (s : list Z) (acc : list Z) : option (list Z * list Z) :=
  match s with
  | [] => None
  | c :: r =>
      if c =? 34 then Some (rev acc, r)
      else if c =? 92 then
        match r with
        | [] => None
        | e :: r1 =>
            if e =? 117 then
              match r1 with
              | h1 :: h2 :: h3 :: h4 :: r2 =>
                  match hexv h1, hexv h2, hexv h3, hexv h4 with
                  | Some a, Some b, Some x, Some y =>
                      let v := ((a * 16 + b) * 16 + x) * 16 + y in
                      if v <? 128 then json_read_body r2 (v :: acc) else None
                  | _, _, _, _ => None
                  end
              | _ => None
              end
            else match short_escape e with
                 | Some v => json_read_body r1 (v :: acc)
                 | None => None
                 end
        end
      else if (0 <=? c) && (c <? 32) then None
      else json_read_body r (c :: acc)
  end.
(* reads one string token from the front of the input; returns its value and the rest of the input *)
Definition json_read_string (s : list Z) : option (list Z * list Z) :=
  match s with
  | c :: r => if c =? 34 then json_read_body r [] else None
  | [] => None
  end.

(* what PrintFormat::Json / NdJson prints for string columns: one object per row, NULL cells omitted *)
Fixpoint json_members (names : list (list Z)) (cells : list (option (list Z))) : list (list Z) :=
  match names, cells with
  | n :: ns, Some v :: cs => (json_write_string n ++ 58 :: json_write_string v) :: json_members ns cs
  | _ :: ns, None :: cs => json_members ns cs
  | _, _ => []
  end.
Definition json_row (names : list (list Z)) (cells : list (option (list Z))) : list Z :=
  123 :: join_fields 44 (json_members names cells) ++ [125].
Definition print_json (names : list (list Z)) (rows : list (list (option (list Z)))) : list Z :=
  91 :: join_fields 44 (map (json_row names) rows) ++ [93; 10].
Definition print_ndjson (names : list (list Z)) (rows : list (list (option (list Z)))) : list Z :=
  flat_map (fun r => json_row names r ++ [10]) rows.

(* ------------------------------------------------------------------------------------------ *)
(* correspondence cases: the model run on an input yields exactly what the implementation did   *)
(* ------------------------------------------------------------------------------------------ *)
Inductive c51_case :=
| CSplit (s : list Z) (got : list (list Z))
| CCsv (d : Z) (header : option (list (list Z))) (rows : list (list (option (list Z)))) (got : list Z)
| CJson (names : list (list Z)) (rows : list (list (option (list Z)))) (got : list Z)
| CNdJson (names : list (list Z)) (rows : list (list (option (list Z)))) (got : list Z).

Definition c51_check (c : c51_case) : bool :=
  match c with
  | CSplit s got => list_eqb zlist_eqb (split_model s) got && list_eqb zlist_eqb (ref_split s) got
  | CCsv d h rows got =>
      zlist_eqb (print_csv d h rows) got
      && opt_eqb (list_eqb (list_eqb zlist_eqb)) (parse_csv d got) (Some (table_records h rows))
  | CJson n rows got => zlist_eqb (print_json n rows) got
  | CNdJson n rows got => zlist_eqb (print_ndjson n rows) got
  end.
