(* C22 -- model of datafusion/pruning/src/pruning_predicate.rs:
   the rewrite of a row predicate into a predicate over container statistics
   (build_predicate_expression / build_statistics_expr / build_single_column_expr /
   build_is_null_column_expr / wrap_null_count_check_expr / build_is_[not_]distinct_from,
   IN-list expansion, AND/OR constant folding, unhandled -> TRUE) and PruningPredicate::prune
   (3-valued evaluation of the rewritten predicate on the statistics row; skip iff FALSE).
   Definitions only; proofs are in Proofs/PruningProofs.v. *)
From DF Require Import Base.Prelude.
Open Scope Z_scope.

(* ------------------------------------------------------------------ SQL three-valued logic *)
(* option bool: None is NULL / unknown *)
Definition and3 (a b : option bool) : option bool :=
  match a, b with
  | Some false, _ => Some false
  | _, Some false => Some false
  | Some true, Some true => Some true
  | _, _ => None
  end.

Definition or3 (a b : option bool) : option bool :=
  match a, b with
  | Some true, _ => Some true
  | _, Some true => Some true
  | Some false, Some false => Some false
  | _, _ => None
  end.

Definition not3 (a : option bool) : option bool :=
  match a with Some b => Some (negb b) | None => None end.

(* comparison operators of the modelled fragment *)
Inductive op := OEq | ONe | OLt | OLe | OGt | OGe | ODf (* IS DISTINCT FROM *) | ONdf (* IS NOT DISTINCT FROM *).

Definition zcmp (o : op) (a b : Z) : bool :=
  match o with
  | OEq | ONdf => a =? b
  | ONe | ODf => negb (a =? b)
  | OLt => a <? b
  | OLe => a <=? b
  | OGt => b <? a
  | OGe => b <=? a
  end.

(* a op b on nullable integers *)
Definition cmp3 (o : op) (a b : option Z) : option bool :=
  match o with
  | ODf => Some (match a, b with Some x, Some y => negb (x =? y) | None, None => false | _, _ => true end)
  | ONdf => Some (match a, b with Some x, Some y => x =? y | None, None => true | _, _ => false end)
  | _ => match a, b with Some x, Some y => Some (zcmp o x y) | _, _ => None end
  end.

Definition isnone {A} (a : option A) : bool := match a with None => true | Some _ => false end.

(* ------------------------------------------------------------------ rows and predicates (the specification side) *)
(* a row of nullable Int64 columns i0,i1,.. and nullable Boolean columns b0,b1,..; a column
   beyond the row's width reads as NULL *)
Record row := { ri : list (option Z); rb : list (option bool) }.
Definition geti (r : row) (c : nat) : option Z := nth c (ri r) None.
Definition getb (r : row) (c : nat) : option bool := nth c (rb r) None.

Inductive colref := CI (c : nat) | CB (c : nat).
Definition is_null_at (r : row) (cr : colref) : bool :=
  match cr with CI c => isnone (geti r c) | CB c => isnone (getb r c) end.

Inductive pred :=
| PLit (b : option bool)                      (* boolean literal, possibly NULL *)
| PBCol (c : nat)                             (* a Boolean column used as a predicate *)
| PNot (p : pred)
| PIsNull (c : colref)
| PIsNotNull (c : colref)
| PCmp (o : op) (c : nat) (l : option Z)      (* i<c> op literal *)
| PCmpR (o : op) (l : option Z) (c : nat)     (* literal op i<c> *)
| PAnd (p q : pred)
| POr (p q : pred)
| PIn (c : nat) (ls : list (option Z)) (neg : bool).   (* i<c> [NOT] IN (literals) *)

(* SQL IN: TRUE if some element equals v, else NULL if v or some element is NULL, else FALSE *)
Definition in3 (v : option Z) (ls : list (option Z)) : option bool :=
  match v with
  | None => None
  | Some x =>
      if existsb (fun l => match l with Some y => x =? y | None => false end) ls then Some true
      else if existsb isnone ls then None else Some false
  end.

(* SQL evaluation of a predicate on one row *)
Fixpoint eval (r : row) (p : pred) : option bool :=
  match p with
  | PLit b => b
  | PBCol c => getb r c
  | PNot p => not3 (eval r p)
  | PIsNull c => Some (is_null_at r c)
  | PIsNotNull c => Some (negb (is_null_at r c))
  | PCmp o c l => cmp3 o (geti r c) l
  | PCmpR o l c => cmp3 o l (geti r c)
  | PAnd p q => and3 (eval r p) (eval r q)
  | POr p q => or3 (eval r p) (eval r q)
  | PIn c ls neg => if neg then not3 (in3 (geti r c) ls) else in3 (geti r c) ls
  end.

(* ------------------------------------------------------------------ container statistics *)
(* None = unknown (the PruningStatistics array is absent or NULL for this container) *)
Record istat := { imin : option Z; imax : option Z; inc : option Z }.
Record bstat := { bmin : option bool; bmax : option bool; bnc : option Z }.
Record stats := { si : list istat; sb : list bstat; src : option Z (* row count *) }.

Definition unk_i : istat := {| imin := None; imax := None; inc := None |}.
Definition unk_b : bstat := {| bmin := None; bmax := None; bnc := None |}.
Definition ist (st : stats) (c : nat) : istat := nth c (si st) unk_i.
Definition bst (st : stats) (c : nat) : bstat := nth c (sb st) unk_b.
Definition null_count (st : stats) (cr : colref) : option Z :=
  match cr with CI c => inc (ist st c) | CB c => bnc (bst st c) end.

Definition count_nulls (rows : list row) (cr : colref) : nat :=
  length (filter (fun r => is_null_at r cr) rows).

(* The statistics are valid for the container's rows: minimum and maximum bound the non-null
   values (false < true for Booleans), null and row counts are exact; every statistic may be unknown. *)
Record valid_stats (rows : list row) (st : stats) : Prop := {
  v_rc : forall n, src st = Some n -> n = Z.of_nat (length rows);
  v_nc : forall cr k, null_count st cr = Some k -> k = Z.of_nat (count_nulls rows cr);
  v_imin : forall c m, imin (ist st c) = Some m -> forall r x, In r rows -> geti r c = Some x -> m <= x;
  v_imax : forall c m, imax (ist st c) = Some m -> forall r x, In r rows -> geti r c = Some x -> x <= m;
  v_bmin : forall c m, bmin (bst st c) = Some m -> forall r x, In r rows -> getb r c = Some x -> Bool.le m x;
  v_bmax : forall c m, bmax (bst st c) = Some m -> forall r x, In r rows -> getb r c = Some x -> Bool.le x m
}.

(* ------------------------------------------------------------------ statistics predicates (the rewritten language) *)
Inductive term :=
| TLit (l : option Z)
| TMin (c : nat) | TMax (c : nat)        (* i<c>_min, i<c>_max *)
| TNc (c : colref)                       (* <col>_null_count *)
| TRc.                                   (* row_count *)

Inductive sexpr :=
| SLit (b : option bool)
| SBMin (c : nat) | SBMax (c : nat)      (* b<c>_min, b<c>_max (Boolean valued) *)
| SCmp (o : op) (a b : term)
| SIsNull (t : term) | SIsNotNull (t : term)
| SAnd (a b : sexpr) | SOr (a b : sexpr) | SNot (a : sexpr).

Definition teval (st : stats) (t : term) : option Z :=
  match t with
  | TLit l => l
  | TMin c => imin (ist st c)
  | TMax c => imax (ist st c)
  | TNc cr => null_count st cr
  | TRc => src st
  end.

(* evaluation of the rewritten predicate on the one-row statistics batch: unknown statistics are NULLs *)
Fixpoint seval (st : stats) (e : sexpr) : option bool :=
  match e with
  | SLit b => b
  | SBMin c => bmin (bst st c)
  | SBMax c => bmax (bst st c)
  | SCmp o a b => cmp3 o (teval st a) (teval st b)
  | SIsNull t => Some (isnone (teval st t))
  | SIsNotNull t => Some (negb (isnone (teval st t)))
  | SAnd a b => and3 (seval st a) (seval st b)
  | SOr a b => or3 (seval st a) (seval st b)
  | SNot a => not3 (seval st a)
  end.

(* ------------------------------------------------------------------ the rewrite, as the code does it *)
Definition STrue := SLit (Some true).     (* ConstantUnhandledPredicateHook: keep the container *)
Definition SFalse := SLit (Some false).

Definition is_true (e : sexpr) : bool := match e with SLit (Some true) => true | _ => false end.
Definition is_false (e : sexpr) : bool := match e with SLit (Some false) => true | _ => false end.

(* the AND / OR arms of build_predicate_expression, with their constant folding, in match order *)
Definition mk_and (l r : sexpr) : sexpr :=
  if is_false l || is_false r then SFalse
  else if is_true l then r
  else if is_true r then l
  else SAnd l r.

Definition mk_or (l r : sexpr) : sexpr :=
  if is_true l || is_true r then STrue
  else if is_false l then r
  else if is_false r then l
  else SOr l r.

(* column_has_non_nulls_expr: x_null_count != row_count;  column_has_nulls_expr: x_null_count > 0 *)
Definition has_non_nulls (cr : colref) : sexpr := SCmp ONe (TNc cr) TRc.
Definition has_nulls (cr : colref) : sexpr := SCmp OGt (TNc cr) (TLit (Some 0)).
(* wrap_null_count_check_expr *)
Definition wrap (c : nat) (e : sexpr) : sexpr := SAnd (has_non_nulls (CI c)) e.
(* build_eq_statistics_expr: min <= lit AND lit <= max;  build_ne_statistics_expr: min != lit OR lit != max *)
Definition eq_stat (c : nat) (l : option Z) : sexpr :=
  SAnd (SCmp OLe (TMin c) (TLit l)) (SCmp OLe (TLit l) (TMax c)).
Definition ne_stat (c : nat) (l : option Z) : sexpr :=
  SOr (SCmp ONe (TMin c) (TLit l)) (SCmp ONe (TLit l) (TMax c)).

(* build_statistics_expr for `i<c> o l` (column on the left) *)
Definition rw_cmp (o : op) (c : nat) (l : option Z) : sexpr :=
  match o with
  | OEq => wrap c (eq_stat c l)
  | ONe => wrap c (ne_stat c l)
  | OGt => wrap c (SCmp OGt (TMax c) (TLit l))
  | OGe => wrap c (SCmp OGe (TMax c) (TLit l))
  | OLt => wrap c (SCmp OLt (TMin c) (TLit l))
  | OLe => wrap c (SCmp OLe (TMin c) (TLit l))
  | ODf => SOr (SAnd (SIsNull (TLit l)) (has_non_nulls (CI c)))
               (SAnd (SIsNotNull (TLit l)) (SOr (has_nulls (CI c)) (ne_stat c l)))
  | ONdf => SOr (SAnd (SIsNull (TLit l)) (has_nulls (CI c)))
                (SAnd (SIsNotNull (TLit l)) (SAnd (has_non_nulls (CI c)) (eq_stat c l)))
  end.

(* Operator::swap, used when the column is the right operand *)
Definition swap (o : op) : op :=
  match o with OLt => OGt | OLe => OGe | OGt => OLt | OGe => OLe | o => o end.

Definition MAX_IN_LIST_SIZE : nat := 20.

(* the IN arm: the list is turned into  (c = l1 OR c = l2) OR ..  /  (c != l1 AND c != l2) AND ..
   (Iterator::reduce, left nested) and that predicate is rewritten; empty or longer than
   MAX_IN_LIST_SIZE -> unhandled *)
Definition in_chain (c : nat) (ls : list (option Z)) (neg : bool) : option pred :=
  match ls with
  | [] => None
  | l :: r =>
      Some (fold_left (fun acc l' => if neg then PAnd acc (PCmp ONe c l') else POr acc (PCmp OEq c l'))
                      r (PCmp (if neg then ONe else OEq) c l))
  end.

Definition rw_in (c : nat) (ls : list (option Z)) (neg : bool) : sexpr :=
  match ls with
  | [] => STrue
  | l :: r =>
      if (length ls <=? MAX_IN_LIST_SIZE)%nat then
        fold_left (fun acc l' => if neg then mk_and acc (rw_cmp ONe c l') else mk_or acc (rw_cmp OEq c l'))
                  r (rw_cmp (if neg then ONe else OEq) c l)
      else STrue
  end.

(* build_predicate_expression *)
Fixpoint rewrite (p : pred) : sexpr :=
  match p with
  | PLit (Some false) => SFalse                     (* is_always_false: returned as is *)
  | PLit _ => STrue                                 (* other literals: unhandled *)
  | PBCol c => SOr (SBMin c) (SBMax c)              (* build_single_column_expr, is_not = false *)
  | PNot (PBCol c) => SNot (SAnd (SBMin c) (SBMax c))   (* is_not = true *)
  | PNot _ => STrue                                 (* NOT of anything else: unhandled *)
  | PIsNull cr => has_nulls cr                      (* build_is_null_column_expr *)
  | PIsNotNull cr => has_non_nulls cr
  | PCmp o c l => rw_cmp o c l
  | PCmpR o l c => rw_cmp (swap o) c l
  | PAnd p q => mk_and (rewrite p) (rewrite q)
  | POr p q => mk_or (rewrite p) (rewrite q)
  | PIn c ls neg => rw_in c ls neg
  end.

(* PruningPredicate::prune for one container (BoolVecBuilder::combine_value/combine_array):
   true = keep, false = skip; only a definite FALSE skips *)
Definition prune (st : stats) (p : pred) : bool :=
  match seval st (rewrite p) with Some false => false | _ => true end.

(* ------------------------------------------------------------------ correspondence check *)
(* decidable validity of statistics for given rows (used on the harness' cases) *)
Definition ble (a b : bool) : bool := implb a b.

Definition valid_icolb (rows : list row) (c : nat) (s : istat) : bool :=
  (match imin s with None => true | Some m =>
     forallb (fun r => match geti r c with Some x => m <=? x | None => true end) rows end) &&
  (match imax s with None => true | Some m =>
     forallb (fun r => match geti r c with Some x => x <=? m | None => true end) rows end) &&
  (match inc s with None => true | Some k => k =? Z.of_nat (count_nulls rows (CI c)) end).

Definition valid_bcolb (rows : list row) (c : nat) (s : bstat) : bool :=
  (match bmin s with None => true | Some m =>
     forallb (fun r => match getb r c with Some x => ble m x | None => true end) rows end) &&
  (match bmax s with None => true | Some m =>
     forallb (fun r => match getb r c with Some x => ble x m | None => true end) rows end) &&
  (match bnc s with None => true | Some k => k =? Z.of_nat (count_nulls rows (CB c)) end).

Fixpoint forallb_idx {A} (f : nat -> A -> bool) (i : nat) (l : list A) : bool :=
  match l with [] => true | x :: r => f i x && forallb_idx f (S i) r end.

Definition valid_statsb (rows : list row) (st : stats) : bool :=
  (match src st with None => true | Some n => n =? Z.of_nat (length rows) end) &&
  forallb_idx (valid_icolb rows) 0 (si st) &&
  forallb_idx (valid_bcolb rows) 0 (sb st).

Definition bool3_eqb := opt_eqb Bool.eqb.

(* one container as observed: rows, statistics handed to the implementation, the keep flag the
   implementation returned, and the real evaluator's result for the predicate on every row *)
Definition container := (list row * stats * bool * list (option bool))%type.

Inductive c22_case := C22 (p : pred) (cs : list container).

Definition c22_check (c : c22_case) : bool :=
  match c with
  | C22 p cs =>
      forallb (fun x : container =>
                 match x with
                 | (rows, st, keep, evs) =>
                     valid_statsb rows st
                     && Bool.eqb (prune st p) keep
                     && list_eqb bool3_eqb (map (fun r => eval r p) rows) evs
                 end) cs
  end.
