(* C34 -- ScalarValue (datafusion/common/src/scalar/mod.rs) and the row search helpers of
   datafusion/common/src/utils/mod.rs as Gallina functions, for a few type families.

   Modelled code:
   * `impl PartialEq for ScalarValue` ([sv_eqb]), `impl PartialOrd` ([sv_cmp]: a typed NULL is smaller than
     every value of its type because the payloads are `Option<T>`; values of different variants -- and
     ScalarValue::Null against anything else -- are incomparable; timestamps ignore the time zone; decimals
     compare only at equal scale and ignore the precision), `impl Hash` ([sv_enc]: the byte stream written to
     the Hasher -- no variant discriminant, Option tag + little-endian payload; strings: bytes + 0xff;
     timestamps ignore the time zone, decimals write value, precision, scale),
     `data_type` ([sv_ty]), `is_null`, `try_cmp`.
   * integer casts through the arrow cast kernel with `safe = false` ([cast_int]), `add_checked` / `add`
     ([add_checked], [add_wrapping]), `distance` ([distance]).
   * utils: `compare_rows` ([compare_rows]), `find_bisect_point` ([bisect_go]), `bisect::<SIDE>` ([bisect]),
     `search_in_slice` / `linear_search` ([linear_search]).
   Floats, nested types, dictionaries: not modelled (implementation-side consistency checks only).
   Definitions only; proofs in Proofs/ScalarModelProofs.v. *)
From Coq Require Import List ZArith Bool.
From DF Require Import Base.Prelude.
Import ListNotations.
Open Scope Z_scope.

Inductive ity := I8 | I16 | I32 | I64 | U8 | U16 | U32 | U64.
Inductive strkind := KUtf8 | KLargeUtf8 | KUtf8View.
Inductive tsunit := USecond | UMilli | UMicro | UNano.

Inductive sv :=
| SNull
| SBool (v : option bool)
| SInt (t : ity) (v : option Z)
| SStr (k : strkind) (v : option (list Z))                 (* UTF-8 bytes *)
| STs (u : tsunit) (v : option Z) (tz : option (list Z))
| SDec (v : option Z) (p s : Z).                           (* Decimal128(value, precision, scale) *)

Inductive sty :=
| TNull | TBool | TInt (t : ity) | TStr (k : strkind) | TTs (u : tsunit) (tz : option (list Z)) | TDec (p s : Z).

Definition sv_ty (a : sv) : sty :=
  match a with
  | SNull => TNull
  | SBool _ => TBool
  | SInt t _ => TInt t
  | SStr k _ => TStr k
  | STs u _ tz => TTs u tz
  | SDec _ p s => TDec p s
  end.

Definition sv_is_null (a : sv) : bool :=
  match a with
  | SNull | SBool None | SInt _ None | SStr _ None | STs _ None _ | SDec None _ _ => true
  | _ => false
  end.

Definition ity_eqb (a b : ity) : bool :=
  match a, b with
  | I8, I8 | I16, I16 | I32, I32 | I64, I64 | U8, U8 | U16, U16 | U32, U32 | U64, U64 => true
  | _, _ => false
  end.
Definition strkind_eqb (a b : strkind) : bool :=
  match a, b with KUtf8, KUtf8 | KLargeUtf8, KLargeUtf8 | KUtf8View, KUtf8View => true | _, _ => false end.
Definition tsunit_eqb (a b : tsunit) : bool :=
  match a, b with USecond, USecond | UMilli, UMilli | UMicro, UMicro | UNano, UNano => true | _, _ => false end.

Definition bytes_eqb := list_eqb Z.eqb.

(* ------------------------------------------------------------------ PartialEq *)
Definition sv_eqb (a b : sv) : bool :=
  match a, b with
  | SNull, SNull => true
  | SBool x, SBool y => opt_eqb Bool.eqb x y
  | SInt t x, SInt t' y => ity_eqb t t' && opt_eqb Z.eqb x y
  | SStr k x, SStr k' y => strkind_eqb k k' && opt_eqb bytes_eqb x y
  | STs u x _, STs u' y _ => tsunit_eqb u u' && opt_eqb Z.eqb x y          (* the time zone is ignored *)
  | SDec x p s, SDec y p' s' => opt_eqb Z.eqb x y && (p =? p') && (s =? s')
  | _, _ => false
  end.

(* ------------------------------------------------------------------ PartialOrd *)
Fixpoint bytes_cmp (a b : list Z) : comparison :=
  match a, b with
  | [], [] => Eq
  | [], _ :: _ => Lt
  | _ :: _, [] => Gt
  | x :: a', y :: b' => match x ?= y with Eq => bytes_cmp a' b' | c => c end
  end.
Definition bool_cmp (a b : bool) : comparison :=
  match a, b with false, true => Lt | true, false => Gt | _, _ => Eq end.
(* Option<T>: None < Some _ *)
Definition opt_cmp {T} (c : T -> T -> comparison) (a b : option T) : comparison :=
  match a, b with
  | None, None => Eq
  | None, Some _ => Lt
  | Some _, None => Gt
  | Some x, Some y => c x y
  end.

Definition sv_cmp (a b : sv) : option comparison :=
  match a, b with
  | SNull, SNull => Some Eq
  | SBool x, SBool y => Some (opt_cmp bool_cmp x y)
  | SInt t x, SInt t' y => if ity_eqb t t' then Some (opt_cmp Z.compare x y) else None
  | SStr k x, SStr k' y => if strkind_eqb k k' then Some (opt_cmp bytes_cmp x y) else None
  | STs u x _, STs u' y _ => if tsunit_eqb u u' then Some (opt_cmp Z.compare x y) else None
  | SDec x _ s, SDec y _ s' => if s =? s' then Some (opt_cmp Z.compare x y) else None
  | _, _ => None
  end.

(* ------------------------------------------------------------------ Hash: the bytes fed to the Hasher *)
Definition bits (t : ity) : Z :=
  match t with I8 | U8 => 8 | I16 | U16 => 16 | I32 | U32 => 32 | I64 | U64 => 64 end.
Definition signed (t : ity) : bool := match t with I8 | I16 | I32 | I64 => true | _ => false end.
Definition lo (t : ity) : Z := if signed t then - 2 ^ (bits t - 1) else 0.
Definition hi (t : ity) : Z := if signed t then 2 ^ (bits t - 1) - 1 else 2 ^ bits t - 1.
Definition in_range (t : ity) (z : Z) : bool := (lo t <=? z) && (z <=? hi t).

Fixpoint le_bytes (n : nat) (z : Z) : list Z :=
  match n with O => [] | S n' => (z mod 256) :: le_bytes n' (z / 256) end.
Definition enc_opt {T} (f : T -> list Z) (a : option T) : list Z :=
  match a with None => [0] | Some x => 1 :: f x end.
Definition sv_enc (a : sv) : list Z :=
  match a with
  | SNull => le_bytes 4 1
  | SBool x => enc_opt (fun b : bool => [if b then 1 else 0]) x
  | SInt t x => enc_opt (le_bytes (Z.to_nat (bits t / 8))) x
  | SStr _ x => enc_opt (fun s => s ++ [255]) x
  | STs _ x _ => enc_opt (le_bytes 8) x
  | SDec x p s => enc_opt (le_bytes 16) x ++ le_bytes 1 p ++ le_bytes 1 s
  end.

(* ------------------------------------------------------------------ casts / arithmetic on integer scalars *)
(* arrow cast kernel, safe = false: the value when it fits the target type, an error otherwise *)
Definition cast_int (to : ity) (v : option Z) : option (option Z) :=
  match v with
  | None => Some None
  | Some z => if in_range to z then Some (Some z) else None
  end.
Definition subrange (a b : ity) : bool := (lo b <=? lo a) && (hi a <=? hi b).

Definition wrap (t : ity) (z : Z) : Z := lo t + (z - lo t) mod 2 ^ bits t.
(* add_optional: a NULL operand gives NULL; checked: error (None) on overflow *)
Definition add_checked (t : ity) (a b : option Z) : option (option Z) :=
  match a, b with
  | Some x, Some y => if in_range t (x + y) then Some (Some (x + y)) else None
  | _, _ => Some None
  end.
Definition add_wrapping (t : ity) (a b : option Z) : option Z :=
  match a, b with
  | Some x, Some y => Some (wrap t (x + y))
  | _, _ => None
  end.
Definition distance (a b : option Z) : option Z :=
  match a, b with Some x, Some y => Some (Z.abs (x - y)) | _, _ => None end.

(* ------------------------------------------------------------------ utils: compare_rows, bisect, linear_search *)
Definition sort_opt := (bool * bool)%type.      (* (descending, nulls_first) *)
Definition row := list sv.

(* one column of compare_rows; None = try_cmp failed ("Uncomparable values") *)
Definition col_cmp (so : sort_opt) (l r : sv) : option comparison :=
  let '(desc, nulls_first) := so in
  match sv_is_null l, sv_is_null r with
  | true, false => Some (if nulls_first then Lt else Gt)
  | false, true => Some (if nulls_first then Gt else Lt)
  | false, false => if desc then sv_cmp r l else sv_cmp l r
  | true, true => Some Eq
  end.
(* zip of the three slices; lexical order; an error only when the deciding column is reached *)
Fixpoint compare_rows (x y : row) (sos : list sort_opt) : option comparison :=
  match x, y, sos with
  | l :: x', r :: y', so :: sos' =>
      match col_cmp so l r with
      | None => None
      | Some Eq => compare_rows x' y' sos'
      | Some c => Some c
      end
  | _, _, _ => Some Eq
  end.

Definition is_lt (c : comparison) : bool := match c with Lt => true | _ => false end.
Definition is_le (c : comparison) : bool := match c with Gt => false | _ => true end.

(* find_bisect_point: while low < high { mid = (high - low) / 2 + low; if f(row[mid]) {low = mid + 1} else {high = mid} } *)
Fixpoint bisect_go (fuel : nat) (rows : list row) (f : row -> option bool) (low high : nat) : option nat :=
  match fuel with
  | O => if Nat.ltb low high then None else Some low
  | S fuel' =>
      if Nat.ltb low high then
        let mid := (Nat.div (high - low) 2 + low)%nat in
        match nth_error rows mid with
        | None => None
        | Some r =>
            match f r with
            | None => None
            | Some true => bisect_go fuel' rows f (S mid) high
            | Some false => bisect_go fuel' rows f low mid
            end
        end
      else Some low
  end.
Definition side_fn (left : bool) (target : row) (sos : list sort_opt) (current : row) : option bool :=
  match compare_rows current target sos with
  | None => None
  | Some c => Some (if left then is_lt c else is_le c)
  end.
Definition bisect (left : bool) (rows : list row) (target : row) (sos : list sort_opt) : option nat :=
  bisect_go (length rows) rows (side_fn left target sos) 0 (length rows).

(* search_in_slice: while low < high { if !f(row[low]) break; low += 1 } *)
Fixpoint linear_go (rows : list row) (f : row -> option bool) (low : nat) : option nat :=
  match rows with
  | [] => Some low
  | r :: rows' => match f r with
                  | None => None
                  | Some true => linear_go rows' f (S low)
                  | Some false => Some low
                  end
  end.
Definition linear_search (left : bool) (rows : list row) (target : row) (sos : list sort_opt) : option nat :=
  linear_go rows (side_fn left target sos) 0.

(* the specification: how many rows are strictly before (left) / not after (right) the target *)
Definition count_before (left : bool) (rows : list row) (target : row) (sos : list sort_opt) : nat :=
  length (filter (fun r => match side_fn left target sos r with Some true => true | _ => false end) rows).

(* rows typed by a schema, sorted under compare_rows *)
Definition sty_eq_dec : forall a b : sty, {a = b} + {a <> b}.
Proof. repeat decide equality. Defined.
Definition row_typed (sch : list sty) (r : row) : Prop := Forall2 (fun t v => sv_ty v = t) sch r.

(* ------------------------------------------------------------------ correspondence *)
Definition cmp_code (c : option comparison) : Z :=
  match c with None => 2 | Some Lt => -1 | Some Eq => 0 | Some Gt => 1 end.
Definition nat_code (n : option nat) : Z := match n with None => -1 | Some k => Z.of_nat k end.

Inductive c34_case :=
| C34Cmp (a b : sv) (obs : Z)                           (* partial_cmp: -1 0 1, 2 = None *)
| C34Eq (a b : sv) (obs_eq obs_hash_eq : bool)          (* ==, hash(a) == hash(b) *)
| C34Null (a : sv) (obs : bool)
| C34Cast (t : ity) (v : option Z) (to : ity) (obs : option (option Z))      (* None = error *)
| C34Add (t : ity) (a b : option Z) (obs_checked : option (option Z)) (obs_wrapping : option Z)
| C34Dist (a b : option Z) (obs : option Z)
| C34Rows (x y : row) (sos : list sort_opt) (obs : Z)                          (* compare_rows, 2 = Err *)
| C34Search (rows : list row) (target : row) (sos : list sort_opt)
            (obs_bl obs_br obs_ll obs_lr : Z).           (* bisect left/right, linear_search left/right; -1 = Err *)

Definition oz_eqb := opt_eqb Z.eqb.
Definition c34_check (c : c34_case) : bool :=
  match c with
  | C34Cmp a b obs => cmp_code (sv_cmp a b) =? obs
  | C34Eq a b oe oh => Bool.eqb (sv_eqb a b) oe && (if list_eqb Z.eqb (sv_enc a) (sv_enc b) then oh else true)
  | C34Null a obs => Bool.eqb (sv_is_null a) obs
  | C34Cast t v to obs => opt_eqb oz_eqb (cast_int to v) obs
  | C34Add t a b oc ow => opt_eqb oz_eqb (add_checked t a b) oc && oz_eqb (add_wrapping t a b) ow
  | C34Dist a b obs => oz_eqb (distance a b) obs
  | C34Rows x y sos obs => cmp_code (compare_rows x y sos) =? obs
  | C34Search rows target sos bl br ll lr =>
      (nat_code (bisect true rows target sos) =? bl) && (nat_code (bisect false rows target sos) =? br) &&
      (nat_code (linear_search true rows target sos) =? ll) && (nat_code (linear_search false rows target sos) =? lr)
  end.
