(* C10 -- small model of ONE output of RepartitionExec in non-preserve-order mode when every batch is spilled:
   the input tasks (producers) share one multi-producer spill pool (spill_pool::mpsc_channel) and one distributor
   channel to the output; the reader is PerPartitionStream.  Used for the refutation witness of the known finding
   "hang with a shared spill pool" (Props/C10.v).  Definitions only.

   SpillPoolSink::push_batch is two critical sections: (A) under the pool lock take the first open write file, or create
   a new file when none is open (the new file is appended to the reader's queue `files`); (B) append + flush the batch
   to that file and put the file back at the END of open_write_files.  Between (A) and (B) other producers run.
   Then the task sends a RepartitionBatch::Spilled marker through the distributor channel; with a single output the
   gate lets a send through only while the channel is empty (distributor_channels: senders pend while no channel is
   empty).  A task that has pushed and sent everything ends and drops its sink; the LAST drop seals all open files.
   PerPartitionStream: ReadingMemory takes one marker from the channel and switches to ReadingSpilled; ReadingSpilled
   polls SpillPoolReader, which reads only the FIRST file of its queue: next unread batch if there is one, next file
   if this one is sealed, otherwise Pending. *)
From Coq Require Import List Arith Bool.
Import ListNotations.

Inductive phase := Idle | Holding (f : nat) | NeedSend | Finished.
Record prod := { todo : nat; ph : phase }.

Record sst := {
  files : list (nat * bool);      (* per file in queue order: batches written, sealed *)
  opened : list nat;              (* open_write_files: indices into files, FIFO *)
  prods : list prod;
  writers : nat;                  (* remaining_writer_count *)
  chan : nat;                     (* markers in the distributor channel *)
  rd_spilled : bool;              (* PerPartitionStream state = ReadingSpilled *)
  rd_file : nat;                  (* SpillPoolReader: index of the file at the front of its queue *)
  rd_read : nat;                  (* batches read from that file *)
  delivered : nat                 (* batches handed to the consumer of the output *)
}.

Inductive sev := TakeFile (i : nat) | Write (i : nat) | Send (i : nat) | Finish (i : nat) | Reader.

Fixpoint set_nth {X} (n : nat) (v : X) (l : list X) : list X :=
  match l, n with
  | [], _ => []
  | _ :: r, O => v :: r
  | x :: r, S n' => x :: set_nth n' v r
  end.

Definition with_prod (st : sst) (i : nat) (p : prod) : sst :=
  {| files := files st; opened := opened st; prods := set_nth i p (prods st); writers := writers st; chan := chan st;
     rd_spilled := rd_spilled st; rd_file := rd_file st; rd_read := rd_read st; delivered := delivered st |}.

Definition sstep (st : sst) (e : sev) : option sst :=
  match e with
  | TakeFile i =>
      match nth_error (prods st) i with
      | Some {| todo := S t; ph := Idle |} =>
          match opened st with
          | f :: rest =>
              Some {| files := files st; opened := rest; prods := set_nth i {| todo := t; ph := Holding f |} (prods st);
                      writers := writers st; chan := chan st; rd_spilled := rd_spilled st; rd_file := rd_file st;
                      rd_read := rd_read st; delivered := delivered st |}
          | [] =>
              Some {| files := files st ++ [(0, false)]; opened := [];
                      prods := set_nth i {| todo := t; ph := Holding (length (files st)) |} (prods st);
                      writers := writers st; chan := chan st; rd_spilled := rd_spilled st; rd_file := rd_file st;
                      rd_read := rd_read st; delivered := delivered st |}
          end
      | _ => None
      end
  | Write i =>
      match nth_error (prods st) i with
      | Some {| todo := t; ph := Holding f |} =>
          match nth_error (files st) f with
          | Some (w, sealed) =>
              Some {| files := set_nth f (S w, sealed) (files st); opened := opened st ++ [f];
                      prods := set_nth i {| todo := t; ph := NeedSend |} (prods st);
                      writers := writers st; chan := chan st; rd_spilled := rd_spilled st; rd_file := rd_file st;
                      rd_read := rd_read st; delivered := delivered st |}
          | None => None
          end
      | _ => None
      end
  | Send i =>
      match nth_error (prods st) i with
      | Some {| todo := t; ph := NeedSend |} =>
          if chan st =? 0                                  (* the gate: some channel (the only one) is empty *)
          then Some {| files := files st; opened := opened st; prods := set_nth i {| todo := t; ph := Idle |} (prods st);
                       writers := writers st; chan := 1; rd_spilled := rd_spilled st; rd_file := rd_file st;
                       rd_read := rd_read st; delivered := delivered st |}
          else None
      | _ => None
      end
  | Finish i =>
      match nth_error (prods st) i with
      | Some {| todo := 0; ph := Idle |} =>
          let last := writers st =? 1 in
          Some {| files := if last then map (fun f => (fst f, true)) (files st) else files st;   (* only open files are unsealed *)
                  opened := if last then [] else opened st;
                  prods := set_nth i {| todo := 0; ph := Finished |} (prods st);
                  writers := writers st - 1; chan := chan st; rd_spilled := rd_spilled st; rd_file := rd_file st;
                  rd_read := rd_read st; delivered := delivered st |}
      | _ => None
      end
  | Reader =>
      if rd_spilled st then
        match nth_error (files st) (rd_file st) with
        | Some (w, sealed) =>
            if rd_read st <? w then
              Some {| files := files st; opened := opened st; prods := prods st; writers := writers st; chan := chan st;
                      rd_spilled := false; rd_file := rd_file st; rd_read := S (rd_read st); delivered := S (delivered st) |}
            else if sealed then
              Some {| files := files st; opened := opened st; prods := prods st; writers := writers st; chan := chan st;
                      rd_spilled := true; rd_file := S (rd_file st); rd_read := 0; delivered := delivered st |}
            else None                                       (* Pending on the unsealed first file *)
        | None => None                                      (* no file in the queue: Pending on the pool *)
        end
      else
        match chan st with
        | S c =>
            Some {| files := files st; opened := opened st; prods := prods st; writers := writers st; chan := c;
                    rd_spilled := true; rd_file := rd_file st; rd_read := rd_read st; delivered := delivered st |}
        | O => None
        end
  end.

Fixpoint srun (st : sst) (sched : list sev) : option sst :=
  match sched with
  | [] => Some st
  | e :: r => match sstep st e with Some st' => srun st' r | None => None end
  end.

Definition sinit (batches : list nat) : sst :=
  {| files := []; opened := []; prods := map (fun t => {| todo := t; ph := Idle |}) batches; writers := length batches;
     chan := 0; rd_spilled := false; rd_file := 0; rd_read := 0; delivered := 0 |}.

Definition all_events (n : nat) : list sev :=
  Reader :: flat_map (fun i => [TakeFile i; Write i; Send i; Finish i]) (seq 0 n).
(* no step of any task or of the reader is enabled *)
Definition stuck (st : sst) : bool :=
  forallb (fun e => match sstep st e with None => true | Some _ => false end) (all_events (length (prods st))).
