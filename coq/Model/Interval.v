(* C23 -- interval arithmetic over signed fixed-width integers and booleans
   (datafusion/expr-common/src/interval_arithmetic.rs) and the per-node propagation rules of the
   constraint solver (datafusion/physical-expr/src/intervals/cp_solver.rs: propagate_arithmetic,
   propagate_comparison).  Executable definitions only.

   An integer type is given by its MAX value M (Int8: 127, Int16: 32767, Int32: 2^31-1, Int64: 2^63-1);
   MIN = -M-1.  An interval endpoint is a ScalarValue of that type; NULL = unbounded on that side:
   [bound] = option Z, an interval is (lower, upper).  `Interval::new` does not normalise signed
   integer endpoints.  ScalarValue's PartialOrd on same-typed integers is Rust's Option order
   (None < Some _), which the code relies on in several places: [ole]/[olt] are that order.
   Boolean intervals are (lower, upper) pairs of bools: FALSE = (false,false), TRUE = (true,true),
   TRUE_OR_FALSE = (false,true). *)
From DF Require Import Base.Prelude.
Open Scope Z_scope.

Definition bound := option Z.
Definition interval := (bound * bound)%type.
Definition bint := (bool * bool)%type.

Definition B_FALSE : bint := (false, false).
Definition B_TRUE : bint := (true, true).
Definition B_UNC : bint := (false, true).

Definition tmin (M : Z) : Z := - M - 1.
Definition in_range (M x : Z) : bool := (tmin M <=? x) && (x <=? M).

(* ---------- Rust's derived order on Option<iN> (None is the least element) ---------- *)
Definition is_null (a : bound) : bool := match a with None => true | Some _ => false end.
Definition ole (a b : bound) : bool :=
  match a, b with
  | None, _ => true
  | Some _, None => false
  | Some x, Some y => x <=? y
  end.
Definition olt (a b : bound) : bool :=
  match a, b with
  | None, None => false
  | None, Some _ => true
  | Some _, None => false
  | Some x, Some y => x <? y
  end.
Definition oge (a b : bound) : bool := ole b a.
Definition ogt (a b : bound) : bool := olt b a.
Definition oeq (a b : bound) : bool := zopt_eqb a b.

Definition ieq (a b : interval) : bool := oeq (fst a) (fst b) && oeq (snd a) (snd b).
Definition beq (a b : bint) : bool := Bool.eqb (fst a) (fst b) && Bool.eqb (snd a) (snd b).

(* ---------- comparisons: Interval::gt / gt_eq / lt / lt_eq ---------- *)
Definition igt (a b : interval) : bint :=
  let '(al, au) := a in let '(bl, bu) := b in
  if negb (is_null au || is_null bl) && ole au bl then B_FALSE
  else if negb (is_null al || is_null bu) && ogt al bu then B_TRUE
  else B_UNC.

Definition igteq (a b : interval) : bint :=
  let '(al, au) := a in let '(bl, bu) := b in
  if negb (is_null al || is_null bu) && oge al bu then B_TRUE
  else if negb (is_null au || is_null bl) && olt au bl then B_FALSE
  else B_UNC.

Definition ilt (a b : interval) : bint := igt b a.
Definition ilteq (a b : interval) : bint := igteq b a.

(* ---------- max_of_bounds / min_of_bounds, intersect, union ---------- *)
Definition max_of_bounds (a b : bound) : bound :=
  if negb (is_null a) && (is_null b || oge a b) then a else b.
Definition min_of_bounds (a b : bound) : bound :=
  if negb (is_null a) && (is_null b || ole a b) then a else b.

Definition intersect (a b : interval) : option interval :=
  let '(al, au) := a in let '(bl, bu) := b in
  if (negb (is_null al || is_null bu) && ogt al bu)
     || (negb (is_null au || is_null bl) && olt au bl)
  then None
  else Some (max_of_bounds al bl, min_of_bounds au bu).

Definition union (a b : interval) : interval :=
  let '(al, au) := a in let '(bl, bu) := b in
  ((if is_null al || (negb (is_null bl) && ole al bl) then al else bl),
   (if is_null au || (negb (is_null bu) && oge au bu) then au else bu)).

(* Interval::equal *)
Definition iequal (a b : interval) : bint :=
  let '(al, au) := a in let '(bl, bu) := b in
  if negb (is_null al) && oeq al au && oeq bl bu && oeq al bl then B_TRUE
  else match intersect a b with
       | None => B_FALSE
       | Some _ => B_UNC
       end.

(* ---------- boolean intervals: and / or / not ---------- *)
Definition band (a b : bint) : bint := (fst a && fst b, snd a && snd b).
Definition bor (a b : bint) : bint := (fst a || fst b, snd a || snd b).
Definition bnot (a : bint) : bint :=
  if beq a B_TRUE then B_FALSE else if beq a B_FALSE then B_TRUE else B_UNC.

(* ---------- contains_value / contains / cardinality ---------- *)
Definition contains_value (a : interval) (v : Z) : bool :=
  ole (fst a) (Some v) && (is_null (snd a) || ole (Some v) (snd a)).

Definition contains (a b : interval) : bint :=
  match intersect a b with
  | Some i => if ieq i b then B_TRUE else B_UNC
  | None => B_FALSE
  end.

(* upper.distance_u64(lower) = abs_diff; then checked_add(1) in u64 *)
Definition cardinality (a : interval) : option Z :=
  match a with
  | (Some l, Some u) => let c := Z.abs (u - l) + 1 in if c <? 2 ^ 64 then Some c else None
  | _ => None
  end.

(* ---------- endpoint arithmetic with overflow handling ---------- *)
Inductive aop := Plus | Minus | Multiply | Divide.

(* handle_overflow::<UPPER>: the direction of the overflow is inferred from the operands *)
Definition positive_sign (op : aop) (a b : Z) : bool :=
  match op with
  | Multiply | Divide => ((a <? 0) && (b <? 0)) || ((0 <? a) && (0 <? b))
  | Plus => 0 <=? a
  | Minus => b <=? a
  end.

Definition handle_overflow (M : Z) (upper : bool) (op : aop) (a b : Z) : bound :=
  match upper, positive_sign op a b with
  | true, true | false, false => None
  | true, false => Some (tmin M)
  | false, true => Some M
  end.

Definition checked (M : Z) (r : Z) : option Z := if in_range M r then Some r else None.

Definition add_bounds (M : Z) (upper : bool) (a b : bound) : bound :=
  match a, b with
  | Some x, Some y =>
      match checked M (x + y) with Some r => Some r | None => handle_overflow M upper Plus x y end
  | _, _ => None
  end.

Definition sub_bounds (M : Z) (upper : bool) (a b : bound) : bound :=
  match a, b with
  | Some x, Some y =>
      match checked M (x - y) with Some r => Some r | None => handle_overflow M upper Minus x y end
  | _, _ => None
  end.

Definition mul_bounds (M : Z) (upper : bool) (a b : bound) : bound :=
  match a, b with
  | Some x, Some y =>
      match checked M (x * y) with Some r => Some r | None => handle_overflow M upper Multiply x y end
  | _, _ => None
  end.

(* div_bounds: NULL dividend or zero divisor -> unbounded; NULL divisor -> 0; truncating division *)
Definition div_bounds (M : Z) (upper : bool) (a b : bound) : bound :=
  match a, b with
  | None, _ => None
  | Some _, Some 0 => None
  | Some _, None => Some 0
  | Some x, Some y =>
      match checked M (Z.quot x y) with Some r => Some r | None => handle_overflow M upper Divide x y end
  end.

(* ---------- Interval::add / sub ---------- *)
Definition iadd (M : Z) (a b : interval) : interval :=
  (add_bounds M false (fst a) (fst b), add_bounds M true (snd a) (snd b)).
Definition isub (M : Z) (a b : interval) : interval :=
  (sub_bounds M false (fst a) (snd b), sub_bounds M true (snd a) (fst b)).

(* ---------- Interval::mul ---------- *)
Definition nonpos_upper (a : interval) : bool := negb (is_null (snd a)) && ole (snd a) (Some 0).

Definition mul_multi_zero_inclusive (M : Z) (a b : interval) : interval :=
  let '(al, au) := a in let '(bl, bu) := b in
  if is_null al || is_null au || is_null bl || is_null bu then (None, None)
  else (min_of_bounds (mul_bounds M false al bu) (mul_bounds M false bl au),
        max_of_bounds (mul_bounds M true au bu) (mul_bounds M true al bl)).

(* a contains zero, b does not *)
Definition mul_single_zero_inclusive (M : Z) (a b : interval) : interval :=
  let '(al, au) := a in let '(bl, bu) := b in
  if nonpos_upper b
  then (mul_bounds M false au bl, mul_bounds M true al bl)
  else (mul_bounds M false al bu, mul_bounds M true au bu).

Definition mul_zero_exclusive (M : Z) (a b : interval) : interval :=
  let '(al, au) := a in let '(bl, bu) := b in
  match nonpos_upper a, nonpos_upper b with
  | true, true => (mul_bounds M false au bu, mul_bounds M true al bl)
  | true, false => (mul_bounds M false al bu, mul_bounds M true au bl)
  | false, true => (mul_bounds M false bl au, mul_bounds M true bu al)
  | false, false => (mul_bounds M false al bl, mul_bounds M true au bu)
  end.

Definition imul (M : Z) (a b : interval) : interval :=
  match contains_value a 0, contains_value b 0 with
  | true, true => mul_multi_zero_inclusive M a b
  | true, false => mul_single_zero_inclusive M a b
  | false, true => mul_single_zero_inclusive M b a
  | false, false => mul_zero_exclusive M a b
  end.

(* ---------- Interval::div (integers: zero_point = [prev(0), next(0)] = [-1, 1]) ---------- *)
Definition zero_point : interval := (Some (-1), Some 1).
Definition neg_upper (a : interval) : bool := negb (is_null (snd a)) && ole (snd a) (Some (-1)).

Definition div_lhs_zero_inclusive (M : Z) (a b : interval) : interval :=
  let '(al, au) := a in let '(bl, bu) := b in
  if neg_upper b
  then (div_bounds M false au bu, div_bounds M true al bu)
  else (div_bounds M false al bl, div_bounds M true au bl).

Definition div_zero_exclusive (M : Z) (a b : interval) : interval :=
  let '(al, au) := a in let '(bl, bu) := b in
  match neg_upper a, neg_upper b with
  | true, true => (div_bounds M false au bl, div_bounds M true al bu)
  | true, false => (div_bounds M false al bl, div_bounds M true au bu)
  | false, true => (div_bounds M false au bu, div_bounds M true al bl)
  | false, false => (div_bounds M false al bu, div_bounds M true au bl)
  end.

Definition idiv (M : Z) (a b : interval) : interval :=
  if beq (contains b zero_point) B_TRUE then (None, None)
  else if beq (contains a zero_point) B_TRUE then div_lhs_zero_inclusive M a b
  else div_zero_exclusive M a b.

Definition apply_arith (M : Z) (op : aop) (a b : interval) : interval :=
  match op with
  | Plus => iadd M a b
  | Minus => isub M a b
  | Multiply => imul M a b
  | Divide => idiv M a b
  end.

(* ---------- next_value / prev_value, satisfy_greater ---------- *)
Definition next_value (M : Z) (a : bound) : bound :=
  match a with
  | None => None
  | Some x => if x =? M then None else Some (x + 1)
  end.
Definition prev_value (M : Z) (a : bound) : bound :=
  match a with
  | None => None
  | Some x => if x =? tmin M then None else Some (x - 1)
  end.

Definition satisfy_greater (M : Z) (l r : interval) (strict : bool) : option (interval * interval) :=
  let '(ll, lu) := l in let '(rl, ru) := r in
  if negb (is_null lu) && ole lu rl then
    if negb strict && oeq lu rl then Some ((lu, lu), (lu, lu)) else None
  else
    let new_ll := if is_null ll || ole ll rl
                  then (if strict then next_value M rl else rl) else ll in
    let new_ru := if is_null ru || (negb (is_null lu) && ole lu ru)
                  then (if strict then prev_value M lu else lu) else ru in
    Some ((new_ll, lu), (rl, new_ru)).

(* ---------- cp_solver.rs: propagate_arithmetic (non-temporal operands) ---------- *)
Definition inverse_op (op : aop) : aop :=
  match op with Plus => Minus | Minus => Plus | Multiply => Divide | Divide => Multiply end.

Definition propagate_right (M : Z) (op : aop) (left parent right : interval) : option interval :=
  intersect
    (match op with
     | Minus => apply_arith M Minus left parent
     | Plus => apply_arith M Minus parent left
     | Divide => apply_arith M Divide left parent
     | Multiply => apply_arith M Divide parent left
     end) right.

Definition propagate_arithmetic (M : Z) (op : aop) (parent left right : interval)
  : option (interval * interval) :=
  match intersect (apply_arith M (inverse_op op) parent right) left with
  | Some v =>
      match propagate_right M op v parent right with
      | Some r => Some (v, r)
      | None => None
      end
  | None => None
  end.

(* ---------- cp_solver.rs: propagate_comparison ---------- *)
Inductive cop := Eq | Gt | GtEq | Lt | LtEq.

Definition swap {A B} (p : A * B) : B * A := (snd p, fst p).
Definition omap {A B} (f : A -> B) (o : option A) : option B :=
  match o with Some x => Some (f x) | None => None end.

Definition propagate_comparison (M : Z) (op : cop) (parent : bint) (l r : interval)
  : option (interval * interval) :=
  if beq parent B_TRUE then
    match op with
    | Eq => omap (fun i => (i, i)) (intersect l r)
    | Gt => satisfy_greater M l r true
    | GtEq => satisfy_greater M l r false
    | Lt => omap swap (satisfy_greater M r l true)
    | LtEq => omap swap (satisfy_greater M r l false)
    end
  else if beq parent B_FALSE then
    match op with
    | Eq => None
    | Gt => satisfy_greater M r l false
    | GtEq => satisfy_greater M r l true
    | Lt => omap swap (satisfy_greater M l r false)
    | LtEq => omap swap (satisfy_greater M l r true)
    end
  else None.

Definition apply_cmp (op : cop) (a b : interval) : bint :=
  match op with
  | Eq => iequal a b
  | Gt => igt a b
  | GtEq => igteq a b
  | Lt => ilt a b
  | LtEq => ilteq a b
  end.

(* ====================== specification ====================== *)
(* membership of a value in an interval; a value of the type is additionally in_range *)
Definition lb_ok (l : bound) (x : Z) : Prop := match l with None => True | Some v => v <= x end.
Definition ub_ok (u : bound) (x : Z) : Prop := match u with None => True | Some v => x <= v end.
Definition inI (x : Z) (a : interval) : Prop := lb_ok (fst a) x /\ ub_ok (snd a) x.
(* a truth value lies in a boolean interval: lower <= b <= upper in false < true *)
Definition inB (b : bool) (a : bint) : Prop := (fst a = true -> b = true) /\ (snd a = false -> b = false).

(* endpoints are values of the type *)
Definition wfb (M : Z) (a : bound) : Prop := match a with None => True | Some v => in_range M v = true end.
Definition wfI (M : Z) (a : interval) : Prop := wfb M (fst a) /\ wfb M (snd a).

Definition cmp_sem (op : cop) (x y : Z) : bool :=
  match op with
  | Eq => x =? y
  | Gt => y <? x
  | GtEq => y <=? x
  | Lt => x <? y
  | LtEq => x <=? y
  end.

(* the value of x op y when it is defined mathematically (division by zero is an error) *)
Definition arith_sem (op : aop) (x y : Z) : option Z :=
  match op with
  | Plus => Some (x + y)
  | Minus => Some (x - y)
  | Multiply => Some (x * y)
  | Divide => if y =? 0 then None else Some (Z.quot x y)
  end.

(* the inputs on which the implementation's integer division/multiplication is NOT sound
   (see Props/C23.v: *_refuted); the soundness theorems exclude exactly these *)
(* an interval whose upper endpoint is exactly 0 and that reaches below 0: div classifies it as
   "positive" because it compares the upper endpoint with zero_point.lower = -1 *)
Definition zero_topped (a : interval) : bool :=
  oeq (snd a) (Some 0) && olt (fst a) (Some 0).
(* both operands contain zero and an endpoint product overflows: mul_helper_multi_zero_inclusive
   combines the candidates with min_of_bounds/max_of_bounds, which read the NULL produced by the
   overflow as the opposite infinity *)
Definition mul_overflow_both_zero (M : Z) (a b : interval) : bool :=
  contains_value a 0 && contains_value b 0 &&
  match a, b with
  | (Some al, Some au), (Some bl, Some bu) =>
      negb (in_range M (al * bu) && in_range M (bl * au) && in_range M (au * bu) && in_range M (al * bl))
  | _, _ => false
  end.


(* satisfy_greater's constraint: left > right (strict) or left >= right *)
Definition gt_sem (strict : bool) (x y : Z) : bool := if strict then y <? x else y <=? x.

(* ---------- expression trees: bottom-up bound evaluation (ExprIntervalGraph::evaluate_bounds computes
   the same intervals on the DAG of the expression: every node's interval is apply_operator of its
   children's; leaves are column ranges or singleton literals) ---------- *)
Inductive aexp := ACol (i : nat) | ALit (v : Z) | ABin (op : aop) (l r : aexp).
Inductive pexp := PCmp (op : cop) (l r : aexp) | PAnd (l r : pexp).

(* the value of an expression on a row; None = the row makes it error (overflow, division by zero) *)
Fixpoint aeval (M : Z) (env : nat -> Z) (e : aexp) : option Z :=
  match e with
  | ACol i => Some (env i)
  | ALit v => Some v
  | ABin op l r =>
      match aeval M env l, aeval M env r with
      | Some x, Some y =>
          match arith_sem op x y with
          | Some v => if in_range M v then Some v else None
          | None => None
          end
      | _, _ => None
      end
  end.
Fixpoint peval (M : Z) (env : nat -> Z) (p : pexp) : option bool :=
  match p with
  | PCmp op l r =>
      match aeval M env l, aeval M env r with
      | Some x, Some y => Some (cmp_sem op x y)
      | _, _ => None
      end
  | PAnd l r =>
      match peval M env l, peval M env r with
      | Some a, Some b => Some (a && b)
      | _, _ => None
      end
  end.

Fixpoint abounds (M : Z) (ranges : nat -> interval) (e : aexp) : interval :=
  match e with
  | ACol i => ranges i
  | ALit v => (Some v, Some v)
  | ABin op l r => apply_arith M op (abounds M ranges l) (abounds M ranges r)
  end.
Fixpoint pbounds (M : Z) (ranges : nat -> interval) (p : pexp) : bint :=
  match p with
  | PCmp op l r => apply_cmp op (abounds M ranges l) (abounds M ranges r)
  | PAnd l r => band (pbounds M ranges l) (pbounds M ranges r)
  end.

(* no node of the tree meets the unsound mul/div inputs; literals are values of the type *)
Definition op_node_ok (M : Z) (op : aop) (a b : interval) : Prop :=
  match op with
  | Multiply => mul_overflow_both_zero M a b = false
  | Divide => zero_topped a = false /\ zero_topped b = false
  | _ => True
  end.
Fixpoint anode_ok (M : Z) (ranges : nat -> interval) (e : aexp) : Prop :=
  match e with
  | ACol _ => True
  | ALit v => in_range M v = true
  | ABin op l r =>
      (anode_ok M ranges l) /\ (anode_ok M ranges r) /\
      (op_node_ok M op (abounds M ranges l) (abounds M ranges r))
  end.
Fixpoint pnode_ok (M : Z) (ranges : nat -> interval) (p : pexp) : Prop :=
  match p with
  | PCmp _ l r => anode_ok M ranges l /\ anode_ok M ranges r
  | PAnd l r => pnode_ok M ranges l /\ pnode_ok M ranges r
  end.

(* ====================== correspondence cases ====================== *)
Definition obound_eqb := zopt_eqb.
Definition oi_eqb (a b : option interval) : bool := opt_eqb ieq a b.
Definition oii_eqb (a b : option (interval * interval)) : bool :=
  opt_eqb (fun p q => ieq (fst p) (fst q) && ieq (snd p) (snd q)) a b.

Inductive c23_case :=
  | CArith (M : Z) (op : aop) (a b res : interval)
  | CCmp (op : cop) (a b : interval) (res : bint)
  | CNotEq (a b : interval) (res : bint)               (* apply_operator(NotEq) = equal().not() *)
  | CAnd (a b res : bint)
  | COr (a b res : bint)
  | CNot (a res : bint)
  | CIntersect (a b : interval) (res : option interval)
  | CUnion (a b res : interval)
  | CContains (a b : interval) (res : bint)
  | CContainsValue (a : interval) (v : Z) (res : bool)
  | CCard (a : interval) (res : option Z)
  | CSatGt (M : Z) (l r : interval) (strict : bool) (res : option (interval * interval))
  | CPropArith (M : Z) (op : aop) (parent l r : interval) (res : option (interval * interval))
  | CPropCmp (M : Z) (op : cop) (parent : bint) (l r : interval) (res : option (interval * interval)).

Definition c23_check (c : c23_case) : bool :=
  match c with
  | CArith M op a b res => ieq (apply_arith M op a b) res
  | CCmp op a b res => beq (apply_cmp op a b) res
  | CNotEq a b res => beq (bnot (iequal a b)) res
  | CAnd a b res => beq (band a b) res
  | COr a b res => beq (bor a b) res
  | CNot a res => beq (bnot a) res
  | CIntersect a b res => oi_eqb (intersect a b) res
  | CUnion a b res => ieq (union a b) res
  | CContains a b res => beq (contains a b) res
  | CContainsValue a v res => Bool.eqb (contains_value a v) res
  | CCard a res => zopt_eqb (cardinality a) res
  | CSatGt M l r strict res => oii_eqb (satisfy_greater M l r strict) res
  | CPropArith M op parent l r res => oii_eqb (propagate_arithmetic M op parent l r) res
  | CPropCmp M op parent l r res => oii_eqb (propagate_comparison M op parent l r) res
  end.
