"""Shared machinery for /verif/check: Coq build + audit, cargo harness build/run,
model evaluation inside coqc (vm_compute), verdicts, evidence, known findings."""
import hashlib
import json
import os
import re
import subprocess
import sys
import time
from concurrent.futures import ThreadPoolExecutor

VERIF = os.path.dirname(os.path.dirname(os.path.abspath(__file__)))
REPO = os.environ.get("VERIF_REPO", "/repo")
COQ = os.path.join(VERIF, "coq")
BUILD = os.path.join(VERIF, "build")
TARGET = os.path.join(BUILD, "target")
HARNESS = os.path.join(VERIF, "harness")
REPLAYS = os.path.join(VERIF, "replays")
EVIDENCE = os.path.join(VERIF, "evidence")

ENV = dict(os.environ)
ENV.update({"CARGO_NET_OFFLINE": "true", "CARGO_TARGET_DIR": TARGET,
            "CARGO_TERM_COLOR": "never", "RUST_BACKTRACE": "0"})

ALLOWED_AXIOMS = {
    # standard-library axioms that may appear (named in the trusted base when they do)
    "functional_extensionality_dep", "FunctionalExtensionality.functional_extensionality_dep",
    "Coq.Logic.FunctionalExtensionality.functional_extensionality_dep",
}

FORBIDDEN = re.compile(
    r"\b(Admitted|admit|Axiom|Axioms|Parameter|Parameters|Conjecture|Hypothesis|Variable)\b|Unset Guard|bypass_check|type-in-type|impredicative-set|Admit Obligations")


def sh(cmd, cwd=None, timeout=None, env=None, stdin=None):
    t = time.time()
    try:
        p = subprocess.run(cmd, cwd=cwd, env=env or ENV, timeout=timeout, input=stdin,
                           stdout=subprocess.PIPE, stderr=subprocess.STDOUT, text=True,
                           shell=isinstance(cmd, str))
        return p.returncode, p.stdout, time.time() - t
    except subprocess.TimeoutExpired as e:
        out = e.stdout or ""
        if isinstance(out, bytes):
            out = out.decode(errors="replace")
        return 124, out + "\nTIMEOUT", time.time() - t


# ------------------------------------------------------------------ Coq
def coq_project():
    """_CoqProject lists every .v under Base/ Model/ Gen/ Proofs/ Props/ except *_audit.v
    (audits are compiled fresh by every check)."""
    files = []
    for d in ("Base", "Model", "Gen", "Proofs", "Props"):
        dd = os.path.join(COQ, d)
        if os.path.isdir(dd):
            for f in sorted(os.listdir(dd)):
                if f.endswith(".v") and not f.endswith("_audit.v"):
                    files.append("%s/%s" % (d, f))
    text = "-Q . DF\n" + "\n".join(files) + "\n"
    proj = os.path.join(COQ, "_CoqProject")
    try:
        old = open(proj).read()
    except OSError:
        old = None
    if old != text:
        open(proj, "w").write(text)


def coq_makefile():
    coq_project()
    mk = os.path.join(COQ, "Makefile")
    proj = os.path.join(COQ, "_CoqProject")
    if (not os.path.exists(mk)) or os.path.getmtime(mk) < os.path.getmtime(proj):
        rc, out, _ = sh(["coq_makefile", "-f", "_CoqProject", "-o", "Makefile"], cwd=COQ, timeout=120)
        if rc != 0:
            raise RuntimeError("coq_makefile failed:\n" + out)


def coq_make(targets, timeout=1500):
    """Full .vo build of the given targets (relative to coq/), never -vos."""
    coq_makefile()
    rc, out, dt = sh(["make", "-j16"] + targets, cwd=COQ, timeout=timeout)
    return rc == 0, out, dt


def section_ok_lines(path):
    """FORBIDDEN scan that tolerates Variable/Hypothesis inside a Section."""
    bad = []
    depth = 0
    in_comment = 0
    for n, line in enumerate(open(path, encoding="utf-8", errors="replace"), 1):
        # strip comments (nested)
        out = ""
        i = 0
        while i < len(line):
            if line.startswith("(*", i):
                in_comment += 1
                i += 2
            elif line.startswith("*)", i) and in_comment:
                in_comment -= 1
                i += 2
            else:
                if not in_comment:
                    out += line[i]
                i += 1
        if re.match(r"\s*Section\b", out):
            depth += 1
        if re.match(r"\s*End\b", out) and depth:
            depth -= 1
        for m in FORBIDDEN.finditer(out):
            w = m.group(0)
            if w in ("Variable", "Hypothesis") and depth > 0:
                continue
            if w in ("Variable", "Hypothesis") and re.match(r"\s*(Context)\b", out):
                continue
            bad.append("%s:%d: %s" % (os.path.relpath(path, VERIF), n, line.rstrip()))
    return bad


def hygiene(files=None):
    bad = []
    if files is None:
        files = []
        for root, _, fs in os.walk(COQ):
            for f in fs:
                if f.endswith(".v"):
                    files.append(os.path.join(root, f))
    for f in files:
        bad += section_ok_lines(f)
    proj = open(os.path.join(COQ, "_CoqProject")).read()
    for flag in ("-type-in-type", "-impredicative-set", "-noinit"):
        if flag in proj:
            bad.append("_CoqProject: " + flag)
    return bad


def coq_audit(pid, timeout=600):
    """Compile Props/<pid>_audit.v fresh (Check pins + Print Assumptions), parse axioms."""
    src = os.path.join(COQ, "Props", pid + "_audit.v")
    rc, out, dt = sh(["coqc", "-noglob", "-Q", ".", "DF", "-o", os.path.join(BUILD, pid + "_audit.vo"), src],
                     cwd=COQ, timeout=timeout)
    res = {"ok": rc == 0, "log": out, "closed": 0, "axioms": [], "bad_axioms": []}
    if rc != 0:
        return res
    res["closed"] = out.count("Closed under the global context")
    for m in re.finditer(r"^Axioms:\n((?:.+\n?)*?)(?=^\S|\Z)", out, re.M):
        pass
    in_ax = False
    for line in out.splitlines():
        if line.startswith("Axioms:"):
            in_ax = True
            continue
        if in_ax:
            m = re.match(r"^([A-Za-z_][\w.']*)\s*:", line)
            if m:
                res["axioms"].append(m.group(1))
            elif line and not line.startswith(" "):
                in_ax = False
    for a in res["axioms"]:
        if a.split(".")[-1] not in {x.split(".")[-1] for x in ALLOWED_AXIOMS}:
            res["bad_axioms"].append(a)
    res["ok"] = not res["bad_axioms"]
    return res


def count_obligations(files):
    n = 0
    names = []
    for f in files:
        txt = open(os.path.join(COQ, f)).read()
        for m in re.finditer(r"^\s*(?:Local\s+|Global\s+)?(Theorem|Lemma|Corollary|Example|Fact|Proposition|Remark)\s+([\w']+)", txt, re.M):
            n += 1
            names.append(m.group(2))
    return n, names


def coq_closure(pid):
    """.v files the property's Props file depends on (from coqdep), inside coq/."""
    coq_makefile()
    rc, out, _ = sh("coqdep -Q . DF $(grep '\\.v$' _CoqProject) 2>/dev/null", cwd=COQ, timeout=120)
    deps = {}
    for line in out.splitlines():
        if ":" not in line:
            continue
        l, r = line.split(":", 1)
        tgt = [x for x in l.split() if x.endswith(".vo")]
        if not tgt:
            continue
        deps[tgt[0]] = [x for x in r.split() if x.endswith(".vo") and not x.startswith("/")]
    seen, todo = set(), ["Props/%s.vo" % pid]
    while todo:
        x = todo.pop()
        x = os.path.normpath(x)
        if x in seen:
            continue
        seen.add(x)
        todo += deps.get(x, [])
    return sorted(s[:-1] for s in seen)


def coq_eval_cases(preamble, ctype, checker, case_terms, shard=400, timeout=900, tag="cases"):
    """Evaluate `checker : ctype -> bool` (a model-vs-implementation agreement test)
    on every case inside coqc with vm_compute.  Returns (bad_indices, log, wall)."""
    os.makedirs(os.path.join(BUILD, "cases"), exist_ok=True)
    shards = [case_terms[i:i + shard] for i in range(0, len(case_terms), shard)]
    t0 = time.time()

    def run(k):
        path = os.path.join(BUILD, "cases", "%s_%d.v" % (tag, k))
        with open(path, "w") as f:
            f.write(preamble + "\n")
            f.write("Definition cases : list (%s) := [\n" % ctype)
            f.write(";\n".join(shards[k]))
            f.write("\n].\n")
            f.write("Definition bad := bad_idx (%s) cases.\n" % checker)
            f.write("Eval vm_compute in (Z.of_nat (length cases), bad).\n")
        rc, out, _ = sh(["coqc", "-noglob", "-Q", COQ, "DF", "-o", path + "o", path], cwd=COQ, timeout=timeout)
        if rc != 0:
            return k, None, out
        flat = " ".join(out.split())
        m = re.search(r"= \((\d+)(?:%Z)?, (\[.*?\]|nil)(?:%list)?\)", flat)
        if not m:
            return k, None, out
        if int(m.group(1)) != len(shards[k]):
            return k, None, "case count mismatch\n" + out
        body = m.group(2)
        idx = [] if body == "nil" else [int(x) for x in re.findall(r"-?\d+", body)]
        return k, idx, out

    bad, logs = [], []
    with ThreadPoolExecutor(max_workers=16) as ex:
        for k, idx, out in ex.map(run, range(len(shards))):
            if idx is None:
                logs.append("shard %d failed:\n%s" % (k, out[-3000:]))
                bad.append(("shard-error", k))
            else:
                bad += [k * shard + i for i in idx]
    return bad, "\n".join(logs), time.time() - t0


def coq_eval_term(preamble, term, timeout=300, tag="term"):
    os.makedirs(os.path.join(BUILD, "cases"), exist_ok=True)
    path = os.path.join(BUILD, "cases", "%s.v" % tag)
    with open(path, "w") as f:
        f.write(preamble + "\nEval vm_compute in (%s).\n" % term)
    rc, out, _ = sh(["coqc", "-noglob", "-Q", COQ, "DF", "-o", path + "o", path], cwd=COQ, timeout=timeout)
    return rc, " ".join(out.split())


# ------------------------------------------------------------------ Rust harness
def harness_prepare(crate):
    """each harness crate is its own workspace; it starts from /repo's lockfile (offline)"""
    lock = os.path.join(HARNESS, crate, "Cargo.lock")
    src = os.path.join(REPO, "Cargo.lock")
    if not os.path.exists(lock):
        import shutil
        shutil.copy(src, lock)


def cargo_build(crate, features=None, timeout=3000, bin=None):
    harness_prepare(crate)
    cmd = ["cargo", "build", "--offline"]
    if bin:
        cmd += ["--bin", bin]
    if features:
        cmd += ["--features", ",".join(features)]
    rc, out, dt = sh(cmd, cwd=os.path.join(HARNESS, crate), timeout=max(timeout, 7200))
    if rc == 124:
        # waiting for the shared target-dir lock / an overloaded machine is not a verdict about the property
        raise RuntimeError("cargo build of %s timed out after %.0f s (machine overloaded or target dir locked)" % (crate, dt))
    return rc == 0, out, dt


def run_bin(exe_name, args, timeout=1800, stdin=None, env_extra=None):
    exe = os.path.join(TARGET, "debug", exe_name)
    env = dict(ENV)
    if env_extra:
        env.update(env_extra)
    t = time.time()
    try:
        p = subprocess.run([exe] + [str(a) for a in args], env=env, timeout=timeout, input=stdin,
                           stdout=subprocess.PIPE, stderr=subprocess.PIPE, text=True)
        return p.returncode, p.stdout, p.stderr, time.time() - t
    except subprocess.TimeoutExpired as e:
        return 124, (e.stdout or b"").decode(errors="replace") if isinstance(e.stdout, bytes) else (e.stdout or ""), "TIMEOUT", time.time() - t


def jsonl(text):
    out = []
    for line in text.split("\n"):      # not splitlines(): U+0085/U+2028 inside JSON strings are data
        line = line.strip(" \t\r")
        if line.startswith("{"):
            out.append(json.loads(line))
    return out


# ------------------------------------------------------------------ Coq term rendering
def zlit(n):
    n = int(n)
    return "(%d)" % n if n < 0 else str(n)


def zlist(xs):
    return "[" + "; ".join(zlit(x) for x in xs) + "]"


def optz(x):
    return "None" if x is None else "(Some %s)" % zlit(x)


def coq_bool(b):
    return "true" if b else "false"


# ------------------------------------------------------------------ findings / verdict
def load_known():
    p = os.path.join(VERIF, "known_findings.json")
    if not os.path.exists(p):
        return {"findings": [], "fixed": []}
    return json.load(open(p))


class Check:
    """One run of one property's check."""

    def __init__(self, pid, tier, seed, level="proof"):
        self.pid, self.tier, self.seed, self.level = pid, tier, seed, level
        self.t0 = time.time()
        self.problems = []          # (kind, text)  kind in proof|tie|translator
        self.failing = []           # dicts: concrete failing inputs found by the oracle
        self.known_hits = []
        self.coverage = {}
        self.assumptions = []
        self.notes = []

    def log(self, msg):
        print("[%s %6.1fs] %s" % (self.pid, time.time() - self.t0, msg), flush=True)

    def problem(self, kind, text):
        self.problems.append((kind, text))
        self.log("PROBLEM(%s): %s" % (kind, text[:2000]))

    def fail_input(self, what, case, key=None):
        """record a concrete failing input found by the direct property oracle;
        key identifies the class of input a known finding is listed under"""
        f = {"what": what, "case": case}
        if key:
            f["key"] = key
        self.failing.append(f)

    # -- standard proof step
    def proof_step(self, extra_targets=None, timeout=1500):
        pid = self.pid
        ok, out, dt = coq_make(["Props/%s.vo" % pid] + (extra_targets or []), timeout=timeout)
        files = []
        if not ok:
            self.problem("proof", "coq build of Props/%s.vo failed:\n%s" % (pid, out[-2500:]))
        try:
            files = coq_closure(pid)
        except Exception as e:  # pragma: no cover
            self.problem("proof", "coqdep failed: %s" % e)
        # forbidden constructs are searched in everything this property's theorems depend on
        # (plus its audit file); other properties' files are covered by their own checks
        bad = hygiene(files=[os.path.join(COQ, f) for f in files] + [os.path.join(COQ, "Props", pid + "_audit.v")]) if files else hygiene()
        if bad:
            self.problem("proof", "forbidden constructs in development:\n" + "\n".join(bad[:20]))
        aud = {"closed": 0, "axioms": []}
        if ok:
            aud = coq_audit(pid)
            if not aud["ok"]:
                self.problem("proof", "audit (Check pins / Print Assumptions) failed:\n%s\nbad axioms: %s"
                             % (aud["log"][-2500:], aud["bad_axioms"]))
        nobl, names = count_obligations(files) if files else (0, [])
        pins = 0
        try:
            pins = len(re.findall(r"^\s*Check\b", open(os.path.join(COQ, "Props", pid + "_audit.v")).read(), re.M))
        except OSError:
            pass
        self.coverage.update({
            "obligations": nobl,
            "discharged": nobl if ok and not bad and aud.get("ok") else 0,
            "property_theorems_pinned": pins,
            "print_assumptions_closed": aud["closed"],
            "axioms_reported": sorted(set(aud["axioms"])),
            "coq_files": files,
            "checker_cmd": "make -C coq Props/%s.vo (coqc 8.16.1, full .vo) && coqc Props/%s_audit.v" % (pid, pid),
            "proof_build_s": round(dt, 1),
        })
        self.log("proof step: ok=%s obligations=%d pins=%d closed=%d axioms=%s (%.1fs)"
                 % (ok and not bad and aud.get("ok", False), nobl, pins, aud["closed"], aud["axioms"], dt))
        return ok and not bad and aud.get("ok", False)

    # -- verdict
    def finish(self):
        os.makedirs(REPLAYS, exist_ok=True)
        os.makedirs(EVIDENCE, exist_ok=True)
        known = load_known()
        new_fail = []
        for f in self.failing:
            hit = None
            for k in known.get("findings", []):
                if k.get("property") == self.pid and k.get("key") and k["key"] == f.get("key", f["what"]):
                    hit = k
            if hit:
                self.known_hits.append(hit)
            else:
                new_fail.append(f)
        printed = set()
        for k in self.known_hits:
            if k["id"] not in printed:
                printed.add(k["id"])
                print("KNOWN-FINDING: property=%s %s" % (self.pid, k["what"]), flush=True)
        rc = 0
        violations = 0
        if new_fail:
            violations = len(new_fail)
            path = os.path.join(REPLAYS, "%s-%d.json" % (self.pid, self.seed))
            json.dump({"property": self.pid, "seed": self.seed, "tier": self.tier,
                       "failing_inputs": new_fail[:20], "problems": self.problems}, open(path, "w"), indent=1)
            print("VIOLATION property=%s replay=%s" % (self.pid, path), flush=True)
            rc = 1
        elif self.problems:
            violations = 1
            path = os.path.join(REPLAYS, "%s-%d.json" % (self.pid, self.seed))
            json.dump({"property": self.pid, "seed": self.seed, "tier": self.tier,
                       "no_failing_input_found": True,
                       "broken": [{"kind": k, "detail": t} for k, t in self.problems]}, open(path, "w"), indent=1)
            print("VIOLATION property=%s replay=%s no-failing-input-found" % (self.pid, path), flush=True)
            rc = 1
        cov = dict(self.coverage)
        cov.setdefault("trusted_base", [])
        ev = {"property_id": self.pid, "tier": self.tier, "seed": self.seed, "level": self.level,
              "coverage": cov, "assumptions": self.assumptions, "wall_s": round(time.time() - self.t0, 2),
              "violations": violations, "known_findings_hit": sorted(printed), "notes": self.notes}
        json.dump(ev, open(os.path.join(EVIDENCE, self.pid + ".json"), "w"), indent=1)
        self.log("done rc=%d wall=%.1fs" % (rc, time.time() - self.t0))
        return rc


TRUSTED_COMMON = [
    "Coq 8.16.1 kernel (coqc, full .vo build; vm_compute used for finite computations; no native_compute)",
    "no axioms declared by the development; Print Assumptions output per property theorem is in axioms_reported",
    "correspondence harness (Rust bin against /repo path dependencies, Python case renderer, coqc evaluation of the model): differential testing bounded by its generators",
    "rustc/cargo, Arrow and other third-party crates are trusted as compiled",
]


def case_hash(obj):
    return hashlib.sha1(json.dumps(obj, sort_keys=True).encode()).hexdigest()
