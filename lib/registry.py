"""Registry of claimed properties -> MANIFEST.json (python3 lib/registry.py writes it)."""
import json
import os
import re

VERIF = os.path.dirname(os.path.dirname(os.path.abspath(__file__)))

def load_checks():
    d = {}
    pd = os.path.join(VERIF, "lib", "props")
    # only checks that have been reviewed and pass on the unchanged tree are claimed
    enabled = set(open(os.path.join(pd, "ENABLED")).read().split())
    for f in sorted(os.listdir(pd)):
        if re.match(r"C\d+\.json$", f) and f[:-5] in enabled:
            d[f[:-5]] = json.load(open(os.path.join(pd, f)))
    return d


CHECKS = load_checks()

_NB = ("not claimed: the technique applies (design in DESIGN.md §5) but no Coq model + checked tie was built in the time "
       "available; ")
NOT_APPLICABLE = {
    "C18": _NB + "would reuse C17 (pools), C21/C16 (spill) and the RefSQL reference to compare memory-limited runs with unlimited ones",
    "C19": _NB + "cancellation/drop behaviour of streams and background tasks needs a task-ownership model plus runtime observation",
    "C20": _NB + "error propagation through exchanges would reuse the C15/C16/C10 channel models with an error-injection harness",
    "C24": _NB + "parquet pruning/pushdown end-to-end would reuse C22 (pruning soundness) and C44 (schema adaptation)",
    "C28": _NB + "verified monitor over executed sub-plans (like C53/C29) for orderings/partitionings was not built",
    "C30": _NB + "verified monitor for batch schema conformance (like C53/C29) was not built",
    "C31": _NB + "dynamic filter generations / bounds need a small-step model (like C15/C16) plus join/TopK harness",
    "C32": _NB + "per-function specifications for ~50 scalar functions were not written",
    "C37": _NB + "substrait producer/consumer tables would use the same translator approach as C35",
    "C45": _NB + "FFI wrappers would be compared with native components using the C07/C09/C01 models",
    "C50": _NB + "unbounded-input progress needs prefix-monotonicity models of the streaming operators",
}


def manifest():
    props = [json.loads(l)["id"] for l in open(os.path.join(VERIF, "properties.jsonl"))]
    checks = []
    for pid in props:
        if pid not in CHECKS:
            continue
        c = CHECKS[pid]
        checks.append({
            "property_id": pid,
            "quick_cmd": "./check %s --tier quick" % pid,
            "thorough_cmd": "./check %s --tier thorough" % pid,
            "evidence_file": "/verif/evidence/%s.json" % pid,
            "replay_cmd_template": "./check %s --replay {path}" % pid,
            "engine": c.get("engine", "coq+harness"),
            "level_claimed": {"category": c["category"], "text": c["text"], "design_ref": c.get("design_ref", "DESIGN.md §5 " + pid)},
            "level_note": c["note"],
            "technique": c["technique"],
        })
    na = []
    for pid in props:
        if pid not in CHECKS:
            na.append({"property_id": pid,
                       "reason": NOT_APPLICABLE.get(pid, "not claimed yet: no Coq model + checked tie has been built for this property in the time available (design in DESIGN.md §5); the technique is applicable, the check is simply absent")})
    return {
        "version": 1,
        "setup_cmd": "./setup.sh",
        "hooks": {
            "guard": "cargo feature verif_hooks (declared, empty and off by default, in datafusion-physical-plan, datafusion-cli and datafusion-benchmarks)",
            "enable": "harness crates depend on /repo crates by path with features=[\"verif_hooks\"]; built into /verif/build/target",
            "baseline_off_cmd": "cd /repo && cargo nextest run --workspace --no-fail-fast --test-threads 8 --offline || cargo test --workspace --no-fail-fast --offline",
            "source_commits": HOOK_COMMITS,
            "add_only": True,
        },
        "engines": [
            {"name": "coq", "path": "coq/", "serves_properties": sorted(CHECKS), "kind_free_text": "Coq 8.16.1 development: Base (shared), Model (executable Gallina models), Gen (models regenerated from Rust by translators), Proofs, Props (property theorems + audits)"},
            {"name": "harness", "path": "harness/", "serves_properties": sorted(CHECKS), "kind_free_text": "Rust bins depending on /repo crates by path; print observations as JSON lines; direct property oracles"},
            {"name": "vlib", "path": "lib/", "serves_properties": sorted(CHECKS), "kind_free_text": "Python driver: proof step, audit, coqc/vm_compute evaluation of models on implementation observations, verdict, evidence"},
        ],
        "checks": checks,
        "not_applicable": na,
        "notes": "All checks: ./check <id> --tier quick|thorough. VERIF_SEED selects the PRNG seed. Known findings: known_findings.json.",
    }


HOOK_COMMITS = ["5cc9999", "c8ab79e", "3b6d884"]

if __name__ == "__main__":
    json.dump(manifest(), open(os.path.join(VERIF, "MANIFEST.json"), "w"), indent=1)
    print("MANIFEST.json written: %d checks" % len(manifest()["checks"]))
