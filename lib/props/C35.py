"""C35 -- logical plans and expressions survive protobuf serialisation unchanged.  Tie: T (enum tables) + X."""
import json
import os
import re
import sys
import vlib
from vlib import Check

TRANSLATOR = "translators/rs_enummap2coq.py"
SETNAME, GEN, INFO = "logical", "Gen/ProtoEnums.v", "c35_info.json"

KF_OP = "C35-binary-operator-without-decode-arm"
KF_KEYS = {"C35-literal-metadata-dropped", "C35-alias-metadata-dropped", "C35-cast-field-metadata-dropped",
           "C35-like-multibyte-escape-rejected"}


from props.protoenums_common import table_report, cs

KF_F16 = "C35-float16-scalar-decoded-as-float32"
KF_VALUES = "C35-values-schema-nullability-not-preserved"
KF_CTE = "C35-cte-work-table-scan-projection-dropped"
KF_EMPTY = "C35-empty-relation-schema-dropped"
KF_PLACEHOLDER = "C35-placeholder-field-name-dropped"
KF_EXPLAIN = "C35-explain-stringified-plans-dropped"
KF_COPY = "C35-copy-to-options-dropped"
KF_LIMIT = "C35-limit-zero-skip-expression-dropped"
KF_QUALIFY = "C35-unqualified-column-requalified-by-decoder"
KF_FETCH = "C35-limit-fetch-none-decoded-as-i64-max"
KF_UNION = "C35-union-nesting-not-preserved"

# (key, required substring of some differing line, normaliser applied to both lines of every differing line pair)
TEXT_CLASSES = [
    (KF_CTE, "TableScan:", lambda t: re.sub(r"(TableScan: \S+) projection=\[[^\]]*\]", r"\1", t)),
    (KF_EMPTY, "EmptyRelation:", lambda t: re.sub(r"EmptyRelation: rows=(\d+) \[[^\]]*\]", r"EmptyRelation: rows=\1 []", t)),
    (KF_COPY, "CopyTo:", lambda t: re.sub(r"options: \([^)]*\)", "options: ()", t)),
    (KF_FETCH, "Limit:", lambda t: re.sub(r"(Limit: skip=\d+, fetch=)(None|9223372036854775807)\b", r"\1None", t)),
    (KF_VALUES, "", lambda t: t.replace(";N", "")),
    (KF_QUALIFY, "", lambda t: re.sub(r"\b[A-Za-z_]\w*\.(?=[A-Za-z_])", "", t)),
]


def flatten_unions(text):
    """remove `Union [..]` lines whose parent line is a Union (and dedent their subtrees): the decoder rebuilds an n-ary Union as nested binary ones"""
    lines = text.split("\n")
    ind = lambda l: len(l) - len(l.lstrip(" "))
    changed = True
    while changed:
        changed = False
        for i, l in enumerate(lines):
            if not l.strip().startswith("Union"):
                continue
            k = i - 1
            while k >= 0 and ind(lines[k]) >= ind(l):
                k -= 1
            if k >= 0 and lines[k].strip().startswith("Union") and ind(lines[k]) == ind(l) - 2:
                j = i + 1
                while j < len(lines) and lines[j].strip() and ind(lines[j]) > ind(l):
                    lines[j] = lines[j][2:]
                    j += 1
                del lines[i]
                changed = True
                break
    return "\n".join(lines)


def classify_plan(st):
    """known-finding class of a failing plan stage, or None"""
    why, plan = st.get("why") or "", st.get("plan") or ""
    if "Explain.stringified_plans" in why:
        return KF_EXPLAIN
    if why.startswith("decoding failed") and re.search(r"No field named|FieldNotFound", why) and re.search(r"EmptyRelation: rows=\d+ \[[^\]]+\]", plan):
        return KF_EMPTY      # the decoded EmptyRelation has no columns, so the nodes above it cannot be rebuilt
    if re.search(r"expression of Limit differs: Literal\(Int64\(0\), None\) vs |not PartialEq-equal to the original: Limit: number of expressions differs", why):
        return KF_LIMIT
    m = re.search(r"expression of \w+ differs: (.*) vs (.*)$", why, re.S)
    if m and "Placeholder(Placeholder" in m.group(1):
        norm = lambda x: re.sub(r'(Placeholder \{ id: "[^"]*", field: Some\(Field \{ name: )"[^"]*"', r'\1""', x)
        if norm(m.group(1)) == norm(m.group(2)):
            return KF_PLACEHOLDER
    if why.startswith("display_indent_schema differs after the round trip:\n"):
        if st.get("diff"):
            for key, need, f in TEXT_CLASSES:
                if any(need in a for a, _ in st["diff"]) and all(f(a) == f(b) for a, b in st["diff"]):
                    return key
        elif "Union" in plan and not plan.endswith("..."):
            back = why.split("\n", 1)[1]
            nn = lambda t: t.replace(";N", "").rstrip("\n")
            if nn(flatten_unions(back)) == nn(flatten_unions(plan)) and nn(plan) != nn(back):
                return KF_UNION
    return None


def run(pid, tier, seed, replay):
    ck = Check(pid, tier, seed, level="proof")
    n = 24 if tier == "quick" else 400
    info_path = os.path.join(vlib.BUILD, INFO)
    # ---- T: regenerate the tables from the current source
    rc, out, _ = vlib.sh([sys.executable, os.path.join(vlib.VERIF, TRANSLATOR), vlib.REPO, os.path.join(vlib.COQ, GEN),
                          "--set", SETNAME, "--json", info_path])
    ck.log("translator: " + out.strip()[-300:])
    if rc != 0:
        ck.problem("translator", "rs_enummap2coq.py could not translate the mapping tables (fails closed): %s" % out.strip()[-1200:])
    info = json.load(open(info_path)) if os.path.exists(info_path) else {"tables": []}
    byname = {t["name"]: t for t in info["tables"]}
    rep = table_report(ck, pid, SETNAME, GEN, info) if rc == 0 else None
    if rep:
        ck.log("generated tables: %d tables, %d variants, %d failing variant(s)" % (len(info["tables"]), sum(len(t["variants"]) for t in info["tables"]), rep["bad"]))
    # ---- proofs over the regenerated tables
    proof_ok = ck.proof_step()
    # ---- build + run the implementation
    ok, out, dt = vlib.cargo_build("h_core", bin="c35")
    ck.log("cargo build h_core c35: ok=%s (%.0fs)" % (ok, dt))
    if not ok:
        ck.problem("tie", "harness build failed:\n" + out[-3000:])
        return ck.finish()
    rc, so, se, dt = vlib.run_bin("c35", ["--seed", seed, "--n", n], timeout=3000)
    cases = vlib.jsonl(so)
    if rc != 0:
        ck.problem("tie", "harness ended abnormally rc=%d: %s" % (rc, se[-1500:]))
    if not cases:
        return ck.finish()
    enums = [c for c in cases if c["k"] == "enum"]
    exprs = [c for c in cases if c["k"] == "expr"]
    scalars = [c for c in cases if c["k"] == "scalar"]
    plans = [c for c in cases if c["k"] == "plan"]
    ck.log("harness: %d enum observations, %d expressions, %d scalars, %d plans (%.1fs)" % (len(enums), len(exprs), len(scalars), len(plans), dt))
    # ---- direct oracle
    nfail = {}

    def fail(what, case, key=None):
        nfail[key] = nfail.get(key, 0) + 1
        if key and nfail[key] > 3:
            return
        ck.fail_input(what, case, key=key)

    for c in enums:
        if not c["ok"]:
            known = c["table"] == "Operator" and c["variant"] in byname.get("Operator", {}).get("known_bad", [])
            fail("%s::%s does not survive the round trip through the real conversions: wire tag %s, decoded %s%s"
                 % (c["table"], c["variant"], c["tag"], c["back"], (" (" + c["err"] + ")") if c.get("err") else ""), c, key=KF_OP if known else None)
    for c in exprs:
        if not c["ok"]:
            key = c["key"] or None
            if key is None and c["shape"] == "BinaryExpr" and re.search(r"Unsupported binary operator", c.get("why") or ""):
                m = re.search(r"Unsupported binary operator '\\?\"(\w+)", c["why"])
                if m and m.group(1) in byname.get("Operator", {}).get("known_bad", []):
                    key = KF_OP
            if key is None and c["name"].startswith("literal Float16(") and "Literal(Float32(" in (c.get("why") or ""):
                key = KF_F16
            fail("expression %s: %s" % (c["name"], c["why"]), {k: c[k] for k in ("id", "name", "shape", "expr", "why")}, key=key)
        elif c["key"]:
            ck.notes.append("witness of %s no longer fails (fixed?): %s" % (c["key"], c["name"]))
    for c in scalars:
        if not c["ok"]:
            fail("scalar %s: %s" % (c["value"], c["why"]), c, key=KF_F16 if c["value"].startswith("Float16(") else None)
    enc_skipped = 0
    for c in plans:
        for st in c["stages"]:
            if st.get("skipped"):
                enc_skipped += 1
        if not c["ok"]:
            st = [s for s in c["stages"] if not s["ok"]][0]
            fail("plan of `%s` (%s): %s" % (c["sql"][:300], st["stage"], (st["why"] or "")[:600]),
                 {"id": c["id"], "sql": c["sql"], "tp": c["tp"], "stage": st["stage"], "why": st["why"], "diff": st.get("diff"), "plan": st["plan"]}, key=classify_plan(st))
    if nfail:
        ck.log("oracle failures by class: %s" % nfail)
    # ---- T/X tie 1: the variant lists of the harness and of the translator agree; 2: tags and decoded variants agree with the model
    obs_tables = {}
    for c in enums:
        obs_tables.setdefault(c["table"], []).append(c["variant"])
    for tname, vs in obs_tables.items():
        t = byname.get(tname)
        if not t:
            ck.problem("tie", "harness reports table %s which the translator does not produce" % tname)
            continue
        if set(vs) != set(t["variants"]):
            ck.problem("tie", "table %s: variants exercised by the harness %s differ from the variants in the source's encode match %s"
                       % (tname, sorted(set(vs) - set(t["variants"])), sorted(set(t["variants"]) - set(vs))))
    terms, tcases = [], []
    for c in enums:
        t = byname.get(c["table"])
        if not t or c["tag"] is None:
            continue
        back = "None" if c["back"] is None else "(Some %s)" % cs(c["back"])
        if t["kind"] == "enum":
            terms.append("CTab (PCz %s %s %s %s)" % (cs(c["table"]), cs(c["variant"]), vlib.zlit(c["tag"]), back))
        else:
            terms.append("CTab (PCs %s %s %s %s)" % (cs(c["table"]), cs(c["variant"]), cs(c["tag"]), back))
        tcases.append(c)
    ntab = len(terms)
    seen = set()
    for c in exprs:
        if c.get("tie"):
            sig = c["tie"]["e"]
            if sig in seen:
                continue
            seen.add(sig)
            terms.append("CExpr %s %s %s" % (c["tie"]["e"], c["tie"]["p"], c["tie"]["b"]))
            tcases.append(c)
    if proof_ok and terms:
        pre = ("From Coq Require Import List String ZArith.\nFrom DF Require Import Base.Prelude Model.ProtoCodec Gen.ProtoEnums Model.C35Corr.\n"
               "Import ListNotations.\nOpen Scope string_scope.\nOpen Scope Z_scope.\n")
        bad, log, dt = vlib.coq_eval_cases(pre, "c35_case", "c35_check", terms, shard=max(200, len(terms) // 8 + 1), tag="c35")
        ck.log("correspondence: %d table observations + %d expressions, %d disagreements (%.1fs)" % (ntab, len(terms) - ntab, len(bad), dt))
        for b in bad[:5]:
            if isinstance(b, int):
                c = tcases[b]
                if c["k"] == "enum":
                    ck.fail_input("model and implementation disagree on %s::%s: the real conversion gives tag %s / decodes to %s, the generated table says otherwise"
                                  % (c["table"], c["variant"], c["tag"], c["back"]), c)
                else:
                    ck.fail_input("model and implementation disagree on the wire form of %s" % c["expr"][:300], {k: c[k] for k in ("id", "name", "expr", "tie")})
        if bad:
            ck.problem("tie", "model and implementation disagree on %d case(s); first: %s" % (len(bad), str(tcases[bad[0]] if isinstance(bad[0], int) else log)[:900]))
    # ---- coverage
    shapes = sorted({c["shape"] for c in exprs})
    nodes = sorted({k for c in plans for k in c["nodes"]})
    executed = sum(1 for c in plans for s in c["stages"] if s["rows"] >= 0)
    plan_errs = sum(1 for c in plans if c["plan_err"])
    nt = {vlib.case_hash(c["expr"]) for c in exprs if c["shape"] not in ("Column", "Literal")} | {vlib.case_hash(c["sql"]) for c in plans if len(c["nodes"]) >= 3}
    ck.coverage.update({
        "evaluations": len(enums) + len(exprs) + len(scalars) + sum(len(c["stages"]) for c in plans),
        "distinct_nontrivial": len(nt),
        "rule": "enum: every variant of every generated table that has a public conversion is pushed through the real to_proto and from_proto "
                "(the variant lists of harness and source are compared); expr: witnesses, then a hand-built list covering the Expr variants, all operators, "
                "all association shapes of chains, every window frame unit x bound kind, null treatments, sort flags, casts to every DataType kind, ~50 ScalarValue "
                "variants, then seeded random trees (depth 1..4) over 14 constructors; plan: a fixed SQL corpus (window, unnest, recursive CTE, all join kinds, "
                "grouping sets, set operations, subqueries, DML, COPY, DDL, EXPLAIN, PREPARE) and C01's query generator (all 19 streams) over parquet listing tables, "
                "unoptimised and optimised plan, binary and JSON form, decoded in a fresh SessionContext and executed. "
                "non-trivial = distinct expressions other than a bare column/literal + distinct SQL texts whose plan has >= 3 node kinds",
        "tables_generated": [t["name"] for t in info["tables"]],
        "variants_generated": sum(len(t["variants"]) for t in info["tables"]),
        "tables_observed_on_implementation": sorted(obs_tables),
        "tables_not_observed": sorted(set(byname) - set(obs_tables)),
        "expr_shapes": shapes, "plan_node_kinds": nodes,
        "plans": len(plans), "plan_stages_executed": executed, "plans_not_plannable": plan_errs, "plan_stages_encoder_rejected": enc_skipped,
        "traces_validated_against_impl": len(terms),
        "oracle_failures_by_class": {str(k): v for k, v in nfail.items()},
        "samples": [{k: c[k] for k in ("table", "variant", "tag", "back")} for c in enums[4:6]]
                   + [{k: c[k] for k in ("name", "expr", "ok")} for c in exprs if c["name"] == "random"][:2]
                   + [{"sql": c["sql"], "nodes": c["nodes"], "ok": c["ok"]} for c in plans[:1]],
        "trusted_base": vlib.TRUSTED_COMMON + [
            "translators/rs_enummap2coq.py (locates the pinned encode/decode match blocks by the shape of their first arm, parses arms, composes with the "
            "prost numbering; fails closed; cross-checked variant by variant against the real conversions by the harness)",
            "prost encodes an i32 enum field as the number in the generated `Variant = n` list and its TryFrom<i32> accepts exactly those numbers",
            "derive(Debug) of a unit enum variant prints the variant's identifier (Operator wire names)"],
    })
    ck.assumptions = ["theorems are about the model: the generated tables and the Expr AST of Model/ProtoCodec.v (column, literal, binary chains, NOT, IS [NOT] NULL, negative, "
                      "BETWEEN, LIKE/ILIKE, CASE, IN list, CAST/TRY_CAST, alias); the per-variant field plumbing of the remaining Expr / plan nodes is covered by the "
                      "differential oracle only",
                      "C35_expr_round_trip assumes c35_plain: no literal/alias/cast metadata, one-byte escape characters, operators with a decode arm -- the complement is "
                      "refuted (C35_*_refuted) and listed as known findings"]
    return ck.finish()
