"""C29 -- statistics reported as exact are exact.  Verified monitor (E5) + Precision algebra / with_fetch theorems.  Tie: X."""
import vlib
from vlib import Check, zlit, coq_bool


def r_prec(p):
    if p == "A":
        return "Absent"
    if "E" in p:
        return "(Exact %s)" % zlit(int(p["E"]))
    return "(Inexact %s)" % zlit(int(p["I"]))


OPS = {"add": "OAdd", "sub": "OSub", "mul": "OMul", "min": "OMin", "max": "OMax", "inexact": "OInexact"}


def render_alg(c):
    if c["op"] == "with_fetch":
        f = "None" if c["fetch"] is None else "(Some %s)" % zlit(int(c["fetch"]))
        return "C29Fetch %s %s %s %s %s %s" % (r_prec(c["a"]), f, zlit(int(c["skip"])), zlit(int(c["np"])), r_prec(c["out"]), coq_bool(c["kept"]))
    return "C29Alg %s %s %s %s" % (OPS[c["op"]], r_prec(c["a"]), r_prec(c["b"]), r_prec(c["out"]))


def numeric_claims(c):
    out = []
    for nd in c["nodes"]:
        for cl in nd["claims"]:
            if cl["num"] is not None:
                out.append((int(cl["num"][0]), int(cl["num"][1]), cl["ok"]))
    return out


def render_claims(c):
    cl = numeric_claims(c)
    return "C29Claims [%s] %s" % ("; ".join("(Exact %s, %s)" % (zlit(a), zlit(b)) for a, b, _ in cl), coq_bool(all(ok for _, _, ok in cl)))


def wrong_claims(c):
    """wrong Exact claims at their ORIGIN: (node, statistic) pairs such that no descendant node has a wrong claim for the same
    statistic or for num_rows (a wrong claim propagates upwards, a wrong row count into every other statistic; only the lowest
    operator is blamed)"""
    kids = {}
    names = {}
    unmeasured = set()   # nodes whose sub-plan could not be executed on its own (e.g. expressions that need a ScalarSubqueryExec above)
    wrong = {}   # idx -> set of stats wrong (any partition)
    for nd in c["nodes"]:
        kids[nd["idx"]] = nd["kids"]
        names[nd["idx"]] = nd["name"]
        if nd["err"]:
            unmeasured.add(nd["idx"])
        for cl in nd["claims"]:
            if not cl["ok"]:
                wrong.setdefault(nd["idx"], set()).add(cl["stat"])
    desc_memo = {}

    def desc(i):
        if i not in desc_memo:
            d = set()
            for k in kids.get(i, []):
                d.add(k)
                d |= desc(k)
            desc_memo[i] = d
        return desc_memo[i]
    out = []
    for nd in c["nodes"]:
        for cl in nd["claims"]:
            if not cl["ok"] and not any(cl["stat"] in wrong.get(d, ()) or "num_rows" in wrong.get(d, ()) for d in desc(nd["idx"])):
                out.append({"node": nd["name"], "below": sorted({names[d] for d in desc(nd["idx"])}),
                            "below_unmeasured": bool(unmeasured & desc(nd["idx"])),
                            "partition": None if nd["part"] < 0 else nd["part"], "stat": cl["stat"],
                            "column": None if cl["col"] < 0 else cl["col"], "claimed_exact": cl["claimed"], "measured": cl["measured"]})
    return out


JOINS = ("HashJoinExec", "SortMergeJoinExec", "NestedLoopJoinExec")


def key_of(w):
    """root-cause classes of the listed known findings; anything else is keyed by operator x statistic"""
    op, st = w["node"].split("(")[0], w["stat"]
    if st == "distinct_count" and w["claimed_exact"] == "1" and w["measured"] == "0":
        return "C29-distinct_count-1-claimed-for-empty-output"
    # SortExec(TopK) with preserve_partitioning shares one dynamic threshold between its partitions: how many rows come out of a whole-node
    # run depends on scheduling, so the wrong whole-node claim may first be caught above the limiting operator
    fetchers = ("LocalLimitExec", "SortExec(TopK)", "CoalesceBatchesExec")
    if st == "num_rows" and w["partition"] is None and (op in ("LocalLimitExec", "SortExec", "CoalesceBatchesExec")
                                                       or any(b in fetchers for b in w.get("below", []))):
        return "C29-per-partition-fetch-applied-to-whole-node-num_rows"
    # the joins hand their inputs' exact column statistics upwards; whether the claim is already false AT the join depends on which rows a
    # re-execution of the sub-plan happens to produce (limits without order, scheduling) or the join cannot be executed on its own
    # (expressions that need the ScalarSubqueryExec above): a wrong column statistic anywhere above a join is attributed to this class
    if (op in JOINS or any(b in JOINS for b in w.get("below", []))) \
            and st in ("null_count", "min_value", "max_value", "distinct_count", "sum_value"):
        return "C29-join-output-keeps-input-column-statistics-exact"
    if op == "DataSourceExec" and st in ("num_rows", "null_count"):
        return "C29-memory-source-with-pushed-limit-keeps-unlimited-statistics"
    if op == "AggregateExec" and st == "num_rows" and w["partition"] is None:
        return "C29-partial-aggregate-one-row-input-ignores-grand-total-rows-of-empty-partitions"
    if op == "UnionExec" and st in ("min_value", "max_value"):
        return "C29-union-merges-exact-min-max-of-an-empty-input"
    return "C29-%s-%s" % (op, st)


def keys_of(c):
    """stable keys: origin operator x statistic"""
    return sorted({key_of(w) for w in wrong_claims(c)})


def run(pid, tier, seed, replay):
    ck = Check(pid, tier, seed, level="exploration")
    n = 320 if tier == "quick" else 5000
    ck.proof_step(extra_targets=["Model/PrecisionAlg.vo"])
    ok, out, dt = vlib.cargo_build("h_core", bin="c29")
    ck.log("cargo build: ok=%s (%.0fs)" % (ok, dt))
    if not ok:
        ck.problem("tie", "harness build failed:\n" + out[-3000:])
        return ck.finish()
    rc, so, se, dt = vlib.run_bin("c29", ["--seed", seed, "--n", n], timeout=2400)
    cases = vlib.jsonl(so)
    if rc != 0:
        ck.problem("tie", "harness ended abnormally rc=%d: %s" % (rc, se[-1500:]))
    if not cases:
        ck.problem("tie", "harness printed no cases")
        return ck.finish()
    algs = [c for c in cases if c["k"] == "alg"]
    plans = [c for c in cases if c["k"] == "stats"]
    ran = [c for c in plans if c.get("status") == "ok"]
    status = {}
    for c in plans:
        s = c.get("status", "?")
        s = "panic" if s.startswith("panic") else s
        status[s] = status.get(s, 0) + 1
    ck.log("harness: %d algebra cases, %d plans (%s) (%.1fs)" % (len(algs), len(plans), status, dt))
    for c in algs:
        if not c["ok"]:
            ck.fail_input("Precision algebra / Statistics::with_fetch reports Exact for a value that is not exact", c)
    for c in ran:
        if not c["ok"]:
            for key in keys_of(c):
                mine = [w for w in wrong_claims(c) if key == key_of(w)]
                ck.fail_input("a statistic reported as Precision::Exact differs from the value measured on the executed node output: " + key,
                              {"id": c["id"], "stream": c["stream"], "desc": c["desc"], "tp": c["tp"], "bs": c["bs"], "opts": c["opts"], "seed": seed,
                               "wrong": mine[:6]}, key=key)
    pre = "From DF Require Import Base.Prelude Model.PrecisionAlg.\nOpen Scope Z_scope."
    good_alg = [c for c in algs if "out" in c]
    terms = [render_alg(c) for c in good_alg] + [render_claims(c) for c in ran]
    bad, log, dt = vlib.coq_eval_cases(pre, "c29_case", "c29_check", terms, shard=max(150, len(terms) // 4 + 1), tag="c29")
    ck.log("correspondence: %d algebra cases + %d claim lists, %d disagreements (%.1fs)" % (len(good_alg), len(ran), len(bad), dt))
    if bad:
        first = bad[0]
        ck.problem("tie", "Coq model/monitor and implementation disagree on %d cases; first: %s"
                   % (len(bad), (terms[first] if isinstance(first, int) else log)[:1500]))
    by_stat, by_op, vac, errs, nclaims = {}, {}, 0, 0, 0
    for c in ran:
        for nd in c["nodes"]:
            vac += nd["vac"]
            errs += 1 if nd["err"] else 0
            for cl in nd["claims"]:
                nclaims += 1
                by_stat[cl["stat"]] = by_stat.get(cl["stat"], 0) + 1
                by_op[nd["name"]] = by_op.get(nd["name"], 0) + 1
    nt = {vlib.case_hash([c["desc"], c["tp"], c["bs"], c["opts"]]) for c in ran if sum(len(nd["claims"]) for nd in c["nodes"]) >= 3}
    nt |= {vlib.case_hash([c["op"], c["a"], c.get("b"), c.get("fetch"), c.get("skip")]) for c in algs
           if isinstance(c.get("out"), dict) and "E" in c["out"]}
    ck.coverage.update({
        "evaluations": len(cases),
        "distinct_nontrivial": len(nt),
        "rule": "plans: same zoo as C53 (C01-generator SQL, 58-statement SQL corpus x 9 option sets x partitions x batch sizes, random operator trees of depth 1-3 "
                "over memory sources, fixed witness trees); every node, whole and per partition; non-trivial plan = at least 3 Exact claims were compared with "
                "measured values. algebra: Precision<usize> add/sub/multiply/min/max/to_inexact and Statistics::with_fetch on values incl. 0, small, 2^32, "
                "usize::MAX/2.., usize::MAX-2..usize::MAX; non-trivial = the result is Exact",
        "plan_status": status,
        "exact_claims_compared": nclaims,
        "exact_claims_by_statistic": by_stat,
        "exact_claims_by_operator": by_op,
        "vacuous_min_max_sum_claims_skipped(no non-null value in the output column)": vac,
        "node_partitions_with_statistics_or_execution_error(skipped)": errs,
        "traces_validated_against_impl": len(terms) - len(bad),
        "samples": [algs[0] if algs else None,
                    {"desc": ran[0]["desc"], "nodes": [[nd["name"], nd["part"], [[cl["stat"], cl["col"], cl["claimed"], cl["measured"]] for cl in nd["claims"]][:4]] for nd in ran[0]["nodes"]][:6]} if ran else None],
        "trusted_base": vlib.TRUSTED_COMMON + [
            "the measurement: a fresh copy of every sub-plan is executed on its own (whole / one partition) and rows, nulls, distinct values, min, max, integer sums are counted by the harness",
            "the per-operator statistics rules are explored with the verified monitor as oracle, not proved; only Precision arithmetic and Statistics::with_fetch are modelled"],
    })
    ck.assumptions = ["memory sources only (MemTable / MemorySourceConfig / VALUES): Parquet and listing-table statistics are not examined",
                      "total_byte_size / byte_size are not examined (not in the property's list)",
                      "min/max/sum claims over an output column without non-null values are treated as vacuous"]
    ck.notes.append("level exploration: theorems cover the Precision algebra and with_fetch (exact tie on generated values) and the monitor; "
                    "operator rules are judged by the monitor on executed plans")
    return ck.finish()
