"""C05 -- every join operator computes exactly its join type's result.  Tie: X (correspondence).

Proof: coq/Props/C05.v over coq/Model/JoinAlgo.v: the DEFINITION is RefSQL's nested-loop combinators (join_def); the
hash join ALGORITHM (build/probe, any hash, any probe batching, any paging, visited bitmap, adjust_indices_by_join_type,
final bitmap scan, null-aware NOT IN variants) and the sort-merge ALGORITHM (merge over equal-key runs) are proved equal
to the definition as bags for all ten join types.
Tie: harness bin c05 drives the REAL operators (HashJoinExec CollectLeft/Partitioned incl. null-aware, SortMergeJoinExec,
NestedLoopJoinExec, SymmetricHashJoinExec, CrossJoinExec) over generated in-memory batches; direct oracle = nested-loop
evaluation of the join type in Rust on the operator's own output; correspondence = Coq definition AND Coq algorithm
model evaluated on the same input must equal the operator's output bag (c05_check)."""
import vlib
from vlib import Check, zlit, coq_bool

PAIR = ("Inner", "Left", "Right", "Full")
K1 = "C05-symmetric-hash-join-nullequalsnull-loses-null-key-matches"
K2 = "C05-sort-merge-semi-anti-mark-join-with-column-free-filter-errors"
K3 = "C05-sort-merge-inner-outer-join-ignores-column-free-filter"


# ------------------------------------------------------------------ rendering JSON -> Coq
def r_value(v):
    if v is None:
        return "VNull"
    if v is True or v is False:
        return "VBool %s" % coq_bool(v)
    return "VInt %s" % zlit(v)


def r_row(r):
    return "[" + "; ".join(r_value(v) for v in r) + "]"


def r_rel(rows):
    return "[" + "; ".join(r_row(r) for r in rows) + "]"


def r_filt(f):
    k, c = f
    return {"none": "FNone", "lt": "FLt", "even": "FEvenSum", "lge": "(FLeftGe %s)" % zlit(c),
            "rge": "(FRightGe %s)" % zlit(c), "const": "(FConst %s)" % coq_bool(c == 1)}[k]


def flat(parts):
    return [r for p in parts for b in p for r in b]


def model_op(c):
    if c["op"] in ("hj_collect", "hj_part"):
        return "OHashJoin"
    if c["op"] == "smj" and len(c["l"]) == 1 and len(c["r"]) == 1:
        return "OSortMerge"
    return "OOther"


def render(c):
    kcols = "[" + "; ".join("%d%%nat" % (1 + i) for i in range(c["nk"])) + "]"
    so = "[" + "; ".join("(%s, %s)" % (coq_bool(d), coq_bool(n)) for d, n in c["so"]) + "]"
    rb = "[" + "; ".join(r_rel(b) for p in c["r"] for b in p) + "]"
    return "C05 %s T%s %s %s %s %s %s %s %s %s %s" % (
        model_op(c), c["jt"], coq_bool(c["nulleq"]), kcols, r_filt(c["filt"]), coq_bool(c["na"]), zlit(c["bs"]), so,
        r_rel(flat(c["l"])), rb, r_rel(c["out"]))


# ------------------------------------------------------------------ the definition, once more, for classifying findings
def keys_eq(nulleq, nk, a, b):
    for i in range(nk):
        x, y = a[1 + i], b[1 + i]
        if x is None and y is None:
            if not nulleq:
                return False
        elif x != y:
            return False
    return True


def filt_eval(f, a, b):
    k, c = f
    lv, rv = a[3], b[3]
    if k == "none":
        return True
    if k == "const":
        return c == 1
    if k == "lt":
        return lv is not None and rv is not None and lv < rv
    if k == "even":
        return lv is not None and rv is not None and (lv + rv) % 2 == 0
    if k == "lge":
        return lv is not None and lv >= c
    return rv is not None and rv >= c


def definition(c, filt=None):
    L, R = flat(c["l"]), flat(c["r"])
    f = c["filt"] if filt is None else filt
    on = lambda a, b: keys_eq(c["nulleq"], c["nk"], a, b) and filt_eval(f, a, b)
    nul = [None] * 4
    jt, out = c["jt"], []
    if jt in PAIR:
        for a in L:
            ms = [b for b in R if on(a, b)]
            out += [a + b for b in ms]
            if not ms and jt in ("Left", "Full"):
                out.append(a + nul)
        if jt in ("Right", "Full"):
            out += [nul + b for b in R if not any(on(a, b) for a in L)]
    elif jt == "LeftSemi":
        out = [a for a in L if any(on(a, b) for b in R)]
    elif jt == "LeftAnti":
        out = [a for a in L if not any(on(a, b) for b in R)]
    elif jt == "RightSemi":
        out = [b for b in R if any(on(a, b) for a in L)]
    elif jt == "RightAnti":
        out = [b for b in R if not any(on(a, b) for a in L)]
    elif jt == "LeftMark":
        out = [a + [any(on(a, b) for b in R)] for a in L]
    else:
        out = [b + [any(on(a, b) for a in L)] for b in R]
    return out


def bag(rows):
    return sorted(rows, key=lambda r: [(0, 0) if v is None else (1, int(v)) for v in r])


def bag_diff(a, b):
    """rows of a not in b (as bags)"""
    b = list(b)
    out = []
    for x in a:
        if x in b:
            b.remove(x)
        else:
            out.append(x)
    return out


def classify(c):
    """the stable key of the known-finding class this failing case belongs to, or None (= a new violation)"""
    L, R = flat(c["l"]), flat(c["r"])
    cand = any(keys_eq(c["nulleq"], c["nk"], a, b) for a in L for b in R)
    if c["op"] == "smj" and c["filt"][0] == "const" and cand:
        if c["jt"] not in PAIR:
            if "err" in c and "must either specify a row count or at least one column" in c["err"]:
                return K2
            return None
        # inner / outer: exactly the result of the join without the filter
        if "out" in c and c["filt"][1] != 1 and not c["nullability"] \
                and bag(c["out"]) == bag(definition(c, filt=["none", 0])):
            return K3
        return None
    if c["op"] == "shj" and c["nulleq"] and "out" in c and not c["nullability"]:
        # every row in the symmetric difference involves an input row whose join key contains a NULL, and the
        # output is what the definition gives when SOME NULL = NULL key matches are lost: it lies between the
        # NullEqualsNull and the NullEqualsNothing result on the rows without NULL keys
        byid = {r[0]: r for r in L + R}
        nullkey = lambda i: i in byid and any(byid[i][1 + k] is None for k in range(c["nk"]))
        diff = bag_diff(c["out"], c["exp"]) + bag_diff(c["exp"], c["out"])
        ids = lambda row: [v for j, v in enumerate(row) if j in (0, 4) and isinstance(v, int) and not isinstance(v, bool)]
        if diff and all(any(nullkey(i) for i in ids(row)) for row in diff):
            return K1
    return None


def describe(c):
    head = "%s %s join, %s, %d key column(s), filter %s%s, batch_size %d, left input (partitions/batches of [id,k1,k2,v]) %s, right input %s" % (
        c["op"], c["jt"], "NullEqualsNull" if c["nulleq"] else "NullEqualsNothing", c["nk"], c["filt"],
        " (null-aware NOT IN)" if c["na"] else "", c["bs"], c["l"], c["r"])
    if "err" in c:
        return head + ": the operator returned the error " + c["err"][:300] + "; the definition gives " + str(c["exp"])[:600]
    if "panic" in c:
        return head + ": the operator panicked: " + c["panic"][:300]
    if "timeout" in c:
        return head + ": the operator did not finish within 30 s"
    return head + ": " + c["why"][:900]


def run(pid, tier, seed, replay):
    ck = Check(pid, tier, seed, level="proof")
    n, coq_cap = (3000, 1000) if tier == "quick" else (40000, 8000)
    ck.proof_step()
    ok, out, dt = vlib.cargo_build("h_physplan", bin="c05")
    ck.log("cargo build h_physplan --bin c05: ok=%s (%.0fs)" % (ok, dt))
    if not ok:
        ck.problem("tie", "harness build failed:\n" + out[-3000:])
        return ck.finish()
    rc, so, se, dt = vlib.run_bin("c05", ["--seed", seed, "--n", n], timeout=2400)
    cases = vlib.jsonl(so)
    ck.log("harness: %d operator runs (%.1fs)" % (len(cases), dt))
    if rc != 0:
        ck.problem("tie", "harness run ended abnormally rc=%d: %s" % (rc, se[-1500:]))
    if not cases:
        ck.problem("tie", "harness produced no cases")
        return ck.finish()
    # ---- direct property oracle on the implementation's own output (independent of the model)
    known_cnt = {}
    failing_ids = set()
    for c in cases:
        if not c["ok"]:
            failing_ids.add(c["id"])
            key = classify(c)
            if key:
                known_cnt[key] = known_cnt.get(key, 0) + 1
            if key is None or known_cnt[key] <= 3 or c["stream"].startswith("witness"):
                ck.fail_input(describe(c), {k: c[k] for k in c if k not in ("exp",)}, key=key)
    # the fixed witnesses of the listed findings must still fail the way they are listed (else the listing is stale)
    for c in cases:
        if c["stream"].startswith("witness:"):
            want = {"KF-C05-1": K1, "KF-C05-2": K2, "KF-C05-3": K3}[c["stream"].split(":")[1]]
            if c["ok"]:
                ck.notes.append("witness %s no longer fails: the finding may be fixed" % c["stream"])
            elif classify(c) != want:
                ck.fail_input("witness %s fails differently than listed: %s" % (c["stream"], describe(c)), c)
    # ---- correspondence: Coq definition == Coq algorithm model == implementation output bag, on the same input
    corr = [c for c in cases if c["ok"] and "out" in c]
    if len(corr) > coq_cap:
        step = len(corr) / float(coq_cap)
        corr = [corr[int(i * step)] for i in range(coq_cap)]
    pre = ("From Coq Require Import List ZArith Bool.\nFrom DF Require Import Base.Prelude Model.RefSQL Model.JoinAlgo.\n"
           "Import ListNotations.\nOpen Scope Z_scope.")
    bad, log, dt = vlib.coq_eval_cases(pre, "c05_case", "c05_check", [render(c) for c in corr], shard=125, tag="c05")
    ck.log("correspondence: %d cases, %d disagreements (%.1fs)" % (len(corr), len(bad), dt))
    if bad:
        first = bad[0]
        detail = corr[first] if isinstance(first, int) else log
        ck.problem("tie", "Coq definition/algorithm model and implementation disagree on %d case(s); first: %s"
                   % (len(bad), str(detail)[:1500]))
    # ---- coverage
    per = {}
    for c in cases:
        k = "%s/%s" % (c["op"], c["jt"])
        per[k] = per.get(k, 0) + 1
    cnt = lambda p: sum(1 for c in cases if p(c))
    haskeynull = lambda c: any(r[1 + i] is None for r in flat(c["l"]) + flat(c["r"]) for i in range(c["nk"]))

    def dupkeys(c):
        ks = [tuple(r[1:1 + c["nk"]]) for r in flat(c["l"])]
        return len(ks) != len(set(ks))

    def nontrivial(c):
        return bool(flat(c["l"])) and bool(flat(c["r"])) and bool(c.get("exp")) and "out" in c
    distinct = len({vlib.case_hash({k: c[k] for k in ("op", "jt", "nulleq", "nk", "filt", "na", "bs", "l", "r")})
                    for c in cases if nontrivial(c)})
    modelled = {}
    for c in corr:
        m = model_op(c)
        modelled[m] = modelled.get(m, 0) + 1
    samples = []
    for pred in (lambda c: c["op"] == "hj_collect" and c["jt"] == "Full" and c["filt"][0] == "lt" and len(c.get("out", [])) > 3,
                 lambda c: c["op"] == "smj" and c["jt"] == "LeftAnti" and c["ok"] and len(c.get("out", [])) > 1,
                 lambda c: c["na"] and len(c.get("out", [])) > 0):
        s = next((c for c in cases if pred(c)), None)
        if s:
            samples.append(s)
    ck.coverage.update({
        "evaluations": len(cases),
        "model_compared": len(corr),
        "model_compared_by_algorithm": modelled,
        "distinct_nontrivial": distinct,
        "rule": "one evaluation = one execution of a real join operator; non-trivial = both inputs non-empty, the definition's "
                "result non-empty and the operator returned rows; distinct by content hash of (operator, join type, NULL "
                "equality, keys, filter, batch size, both inputs with their batching). Generator: per round every operator "
                "(HashJoinExec CollectLeft with 1-3 probe partitions / Partitioned behind RepartitionExec with 1-3 partitions, "
                "SortMergeJoinExec over pre-sorted inputs with 1-3 key-partitioned partitions and random sort options, "
                "NestedLoopJoinExec with the keys inside the filter, SymmetricHashJoinExec, CrossJoinExec) x every join type it "
                "supports; sides of 0..14 rows [id,k1,k2,v], key shapes uniform / one hot key / mostly distinct / half NULL, "
                "1 or 2 key columns (0 for NLJ sometimes), NullEqualsNull 1/3, residual filter none / l.v<r.v / (l.v+r.v)%2=0 / "
                "l.v>=c / r.v>=c (column list minimal or both sides) / column-free constant TRUE, FALSE, NULL; batch_size "
                "{1,2,3,8192}; inputs cut into batches of 1 / 2 / random 1-4 rows / one batch, with empty batches; null-aware "
                "NOT IN variant for half of the CollectLeft LeftAnti/RightAnti cases; 3 fixed witnesses first",
        "per_operator_join_type": per,
        "with_null_keys": cnt(haskeynull),
        "null_equals_null": cnt(lambda c: c["nulleq"]),
        "with_filter": cnt(lambda c: c["filt"][0] != "none"),
        "column_free_filter": cnt(lambda c: c["filt"][0] == "const"),
        "duplicate_build_keys": cnt(dupkeys),
        "empty_side": cnt(lambda c: not flat(c["l"]) or not flat(c["r"])),
        "multi_partition": cnt(lambda c: len(c["l"]) > 1 or len(c["r"]) > 1),
        "batch_sizes": {str(b): cnt(lambda c, b=b: c["bs"] == b) for b in (1, 2, 3, 8192)},
        "null_aware": cnt(lambda c: c["na"]),
        "oracle_failures": len(failing_ids),
        "known_finding_cases": known_cnt,
        "samples": samples,
        "trusted_base": vlib.TRUSTED_COMMON + [
            "coq/Model/JoinAlgo.v is a hand-written transcription: hash join at the level of process_probe_batch / "
            "adjust_indices_by_join_type / get_final_indices_from_bit_map (hash table = any function from keys to buckets, "
            "chain order as proved in C14; pages = any split of the candidate list, C14_paging_concat), sort-merge join at the "
            "level 'runs of equal keys x residual filter x matched flags' (no batch plumbing, no spilling, no bitwise stream); "
            "its agreement with the operators is checked on every run on the operator's output BAG only (row order, batch "
            "boundaries and the order-preserving variant of append_right_indices are not compared)",
            "Partitioned hash join and multi-partition sort-merge join: the decomposition over partitions is not part of this "
            "model (C02's partitioning theorems); those runs are compared with the definition (and the single hash join model)",
            "NestedLoopJoinExec, SymmetricHashJoinExec, CrossJoinExec, PiecewiseMergeJoinExec: no algorithmic model; "
            "definition-only comparison (piecewise merge join is not driven at all)",
            "join keys are nullable Int64 columns; the residual filter is one of six shapes over one Int64 column per side"],
    })
    ck.assumptions = ["sort-merge join theorem: both inputs sorted on the join key by the operator's sort options "
                      "(checked by key_sortedb for every compared case)",
                      "hash join theorem: none (any hash function, any batching, any paging)",
                      "null-aware anti joins: single key column, NullEqualsNothing, no residual filter (as the planner builds them)"]
    return ck.finish()
