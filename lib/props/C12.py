"""C12 -- row hashes depend only on the logical row value.  Tie: X (exact prediction of every hash vector)."""
import vlib
from vlib import Check, zlit, coq_bool

KEY_NESTED = "C12-null-inside-encoded-values-of-dictionary-or-run-end-array"


def zl(xs):
    return "[" + "; ".join(zlit(x) for x in xs) + "]"


def tbl(rows):
    return "[" + "; ".join("(" + ", ".join(zlit(x) for x in r) + ")" for r in rows) + "]"


def render(g):
    runs = "; ".join("mkrun %s %s %s %s" % (r["coq"], zl(r["init"]), zl(r["hashes"]), zl(r["generic"])) for r in g["runs"])
    return "C12 %s %s %s %s %s [%s]" % (coq_bool(g["exotic"] == 0), tbl(g["h"]), tbl(g["hv"]), tbl(g["hs"]), tbl(g["hvs"]), runs)


def run(pid, tier, seed, replay):
    ck = Check(pid, tier, seed, level="proof")
    n = 400 if tier == "quick" else 8000
    ck.proof_step(extra_targets=["Model/HashLayout.vo"])
    ok, out, dt = vlib.cargo_build("h_common", bin="c12")
    ck.log("cargo build: ok=%s (%.0fs)" % (ok, dt))
    if not ok:
        ck.problem("tie", "harness build failed:\n" + out[-3000:])
        return ck.finish()
    rc, so, se, dt = vlib.run_bin("c12", ["--seed", seed, "--n", n])
    cases = vlib.jsonl(so)
    if rc != 0:
        ck.problem("tie", "harness ended abnormally rc=%d: %s" % (rc, se[-1500:]))
    if not cases:
        ck.problem("tie", "harness printed nothing")
        return ck.finish()
    groups = [c for c in cases if c["k"] == "grp"]
    panics = [c for c in cases if c["k"] == "panic"]
    comb = [c for c in cases if c["k"] == "combine"]
    ck.log("harness: %d groups (%d with encoded dictionary/run-end values), %d panics (%.1fs)"
           % (len(groups), sum(1 for g in groups if g["exotic"]), len(panics), dt))
    for c in panics:
        ck.fail_input("hashing panicked: " + c["why"][:300], {"group": c["id"], "exotic": c["exotic"], "harness_args": "--seed %s --n %s" % (seed, n)})
    for w in [c for c in cases if c["k"] == "witness"]:
        # Props/C12.v C12_encoded_values_null_refuted replayed on the implementation; the model predicts [23273] vs [0]
        if w["logical_p"] != w["logical_q"]:
            ck.problem("tie", "witness arrays are not logically equal: %s" % w)
        if not w["ok"]:
            ck.fail_input("a NULL stored inside the (encoded) values of a dictionary / run-end array hashes differently "
                          "from the same NULL stored as a NULL key / NULL run when the column is not the first key column",
                          {"key_columns": ["Int32 [NULL]", "Dictionary<Int32,Dictionary<Int32,Utf8>> [NULL]"],
                           "second_column_p": "outer keys [0] -> inner dictionary keys [0] -> inner values [NULL]",
                           "second_column_q": "outer keys [NULL] (same inner dictionary)",
                           "with_hashes_p": w["hashes_p"], "with_hashes_q": w["hashes_q"]}, key=KEY_NESTED)
            if w["hashes_p"] != [23273] or w["hashes_q"] != [0]:
                ck.problem("tie", "witness: the model predicts [23273] and [0], the implementation gave %s and %s" % (w["hashes_p"], w["hashes_q"]))
        else:
            ck.notes.append("the refuted-theorem witness no longer reproduces on the implementation (hashes %s): the defect seems repaired; "
                            "Model/HashLayout.v pnulls (physical validity of dictionary / run-end values) must follow" % w["hashes_p"])
    for g in groups:
        if not g["ok"]:
            case = {"key_column_types": g["shapes"], "logical_rows_per_column": g["logical"], "why": g["why"][:600],
                    "runs": [{"columns": r["cols"], "initial_buffer": r["init"], "create_hashes": r["hashes"],
                              "create_hashes_with_hasher": r["generic"]} for r in g["runs"]]}
            if g["exotic"]:
                # values of a dictionary / run-end array that are themselves dictionary / run-end encoded
                ck.fail_input("a NULL stored inside the (encoded) values of a dictionary / run-end array hashes differently "
                              "from the same NULL stored as a NULL key / NULL run when the column is not the first key column",
                              case, key=KEY_NESTED)
            else:
                ck.fail_input("same logical key columns, different row hashes: " + g["why"][:300], case)
    # correspondence: the model, given the single-value hash tables, predicts every hash vector exactly
    pre = "From DF Require Import Base.Prelude Model.HashLayout.\nOpen Scope Z_scope."
    if comb:
        rcq, outq = vlib.coq_eval_term(pre, "c12_combine_check %s" % tbl(comb[0]["pts"]), tag="c12_combine")
        if rcq != 0 or "= true" not in outq:
            ck.problem("tie", "combine_hashes: model and implementation disagree on %s: %s" % (comb[0]["pts"], outq[-500:]))
    bad, log, dt = vlib.coq_eval_cases(pre, "c12_case", "c12_check", [render(g) for g in groups], shard=40, tag="c12")
    nruns = sum(len(g["runs"]) for g in groups)
    ck.log("correspondence: %d groups / %d runs, %d disagreements (%.1fs)" % (len(groups), nruns, len(bad), dt))
    if bad:
        first = bad[0]
        g = groups[first] if isinstance(first, int) else None
        ck.problem("tie", "model and implementation disagree on %d groups; first: %s"
                   % (len(bad), (str({"shapes": g["shapes"], "runs": [r["cols"] for r in g["runs"]][:2], "hashes": g["runs"][0]["hashes"]})
                                 if g else log)[:1800]))
    shapes = {}
    for g in groups:
        for s in g["shapes"]:
            k = s.split("<")[0]
            shapes[k] = shapes.get(k, 0) + 1
    nt = {vlib.case_hash([g["shapes"], g["logical"]]) for g in groups if g["nrows"] >= 2}
    ck.coverage.update({
        "evaluations": nruns,
        "distinct_nontrivial": len(nt),
        "rule": "one group = 1..4 random key columns (Int32, Int64, Float64 incl. -0.0/+0.0/NaN, Boolean, Utf8, Utf8View with strings of 0/12/13/23 bytes, "
                "Dictionary<Int32,leaf>, RunEndEncoded<Int32,leaf>, List<Int32|leaf|Dictionary>, Struct<1..3 fields of leaf|Dictionary|List>) x 0..13 rows with "
                "NULLs and duplicates x 4..6 runs, each run re-encoding every column at random (garbage before/after the slice window and under NULLs, validity "
                "buffer absent vs all-true, dictionary permuted/duplicated/unused/NULL values and NULL keys, run boundaries re-cut and sliced, list offsets with "
                "unreferenced and NULL-covered child ranges, struct children under NULL parents, view buffers of different block sizes or an unused buffer); "
                "the last two runs start from a dirty hash buffer; every 10th group puts a Dictionary<Dictionary>, RunEnd<Dictionary> or Dictionary<RunEnd> column "
                "second; non-trivial = distinct (types, logical rows) with at least 2 rows",
        "column_shapes": shapes,
        "groups": len(groups),
        "scalar_pairs_compared": sum(g["scalar_pairs"] for g in groups),
        "scalar_pairs_equal": sum(g["scalar_eq"] for g in groups),
        "traces_validated_against_impl": nruns,
        "samples": [{"types": groups[0]["shapes"], "run0": groups[0]["runs"][0]["cols"], "hashes": groups[0]["runs"][0]["hashes"]}],
        "trusted_base": vlib.TRUSTED_COMMON + [
            "the hash function (foldhash) is abstract in the model: its values on single leaf values are read from the implementation "
            "(create_hashes on one-element arrays; seeded re-hash through the public HashState/HashValue traits)",
            "Arrow array construction, slicing and ArrayFormatter (used to cross-check that the encodings of one column are logically equal)"],
    })
    ck.assumptions = ["arrays satisfy Arrow's invariants (offsets monotone, keys in range, run ends increasing, inline views zero padded)",
                      "theorems about dictionary / run-end arrays require values that are not themselves dictionary / run-end encoded (see C12_encoded_values_null_refuted)",
                      "hash buffer has the arrays' length (create_hashes asserts it for leaf arrays)"]
    return ck.finish()
