"""C26 -- Parallel byte-range scans read every record exactly once.  Tie: X (correspondence)."""
import os
import vlib
from vlib import Check, zlit, zlist, coq_bool


def pairs(ps):
    return "[" + "; ".join("(%s, %s)" % (zlit(a), zlit(b)) for a, b in ps) + "]"


def rle(bs):
    out = []
    for b in bs:
        if out and out[-1][0] == b:
            out[-1][1] += 1
        else:
            out.append([b, 1])
    return out


def expand(r):
    out = []
    for b, n in r:
        out += [b] * n
    return out


def render_stream(c):
    obs = []
    for o in c["outs"]:
        if o is None:
            obs.append("None")
        else:
            chunks = o if c["big"] else [rle(ch) for ch in o]
            obs.append("(Some [" + "; ".join(pairs(ch) for ch in chunks) + "])")
    return "CStream %s %s %s %s %s %s [%s]" % (
        pairs(c["rle"]), zlit(c["term"]), zlit(c["L"]), zlist(c["pat"]), coq_bool(c["trail"]),
        pairs(c["ranges"]), "; ".join(obs))


def triples(ts):
    return "[" + "; ".join("(%s, %s, %s)" % (zlit(a), zlit(b), zlit(c)) for a, b, c in ts) + "]"


def render_split(c):
    if c["groups"] is None:
        obs = "None"
    else:
        obs = "(Some [" + "; ".join(triples(g) for g in c["groups"]) + "])"
    return "CSplit %s %s %s %s" % (zlit(c["n"]), zlit(c["min"]), pairs(c["files"]), obs)


def render_scan(c):
    return "CScan %s %s %s %s %s [%s]" % (
        zlist(c["file"]), zlit(c["L"]), zlist(c["pat"]), coq_bool(c["trail"]), pairs(c["ranges"]),
        "; ".join(zlist(r) for r in c["rows"]))


def text_of(bs):
    return bytes(bs).decode("latin-1")


def run(pid, tier, seed, replay):
    ck = Check(pid, tier, seed, level="proof")
    quick = tier == "quick"
    n = 1500 if quick else 30000
    maxlen = 7 if quick else 10
    nlong = 5 if quick else 20
    # ---- proofs
    ck.proof_step(extra_targets=["Model/Boundary.vo"])
    # ---- build + run the implementation
    ok, out, dt = vlib.cargo_build("h_datasource", bin="c26")
    ck.log("cargo build h_datasource: ok=%s (%.0fs)" % (ok, dt))
    if not ok:
        ck.problem("tie", "harness build failed:\n" + out[-3000:])
        return ck.finish()
    rc, so, se, dt = vlib.run_bin("c26", ["--seed", seed, "--n", n, "--maxlen", maxlen, "--long", nlong])
    cases = vlib.jsonl(so)
    ck.log("harness: %d lines (%.1fs)" % (len(cases), dt))
    if rc != 0:
        ck.problem("tie", "harness run ended abnormally rc=%d: %s" % (rc, se[-1500:]))
    if not cases:
        return ck.finish()
    kinds = {}
    for c in cases:
        kinds[c["k"]] = kinds.get(c["k"], 0) + 1
    summary = next((c for c in cases if c["k"] == "summary"), None)
    exh = next((c for c in cases if c["k"] == "exhaustive"), None)
    if summary is None or exh is None:
        ck.problem("tie", "harness output incomplete (no summary / exhaustive line)")
    # ---- direct property oracle on the implementation's own output (independent of the model)
    for c in cases:
        if c.get("ok", True):
            continue
        if c["k"] == "stream":
            file = expand(c["rle"])
            shown = text_of(file) if len(file) <= 64 else "%d bytes %s" % (len(file), c["rle"][:6])
            what = "AlignedBoundaryStream over file %r (terminator %d, chunk pattern %s%s): %s" % (
                shown, c["term"], c["pat"], " + empty trailing chunk" if c["trail"] else "", c["why"])
            case = {k: c[k] for k in ("rle", "term", "pat", "trail", "ranges", "npart", "errs")}
            case["outs"] = None if c["big"] else c["outs"]
            ck.fail_input(what, case)
        elif c["k"] == "split":
            what = "repartition_file_groups(target_partitions=%d, min_size=%d, preserve_order=%s) on file ranges %s: %s" % (
                c["n"], c["min"], c["preserve"], c["files"], c["why"] or ("panic" if c["panic"] else "?"))
            ck.fail_input(what, c)
        elif c["k"] == "scan":
            what = "%s scan of %r split into ranges %s (chunk pattern %s): %s" % (
                c["fmt"], text_of(c["file"]), c["ranges"], c["pat"], c["why"])
            ck.fail_input(what, c)
        elif c["k"] == "exhaustive":
            pass  # its failing runs are printed as stream cases
    # ---- correspondence: Coq model vs observations, exactly (chunk by chunk)
    small = [c for c in cases if c["k"] == "stream" and not c["big"]]
    big = [c for c in cases if c["k"] == "stream" and c["big"]]
    splits = [c for c in cases if c["k"] == "split" and not c["preserve"] and not c["panic"]]
    scans = [c for c in cases if c["k"] == "scan" and all(r is not None for r in c["rows"])]
    la = {c["L"] for c in small + big + scans}
    if summary is not None:
        la.add(summary["lookahead"])
    if la != {16384}:
        ck.problem("tie", "END_SCAN_LOOKAHEAD observed as %s; the recorded cases assume one value" % sorted(la))
    if os.path.exists(os.path.join(vlib.COQ, "Model/Boundary.vo")):
        pre = "From DF Require Import Base.Prelude Model.Boundary.\nOpen Scope Z_scope."
        batches = [("c26s", small, render_stream, 150), ("c26p", splits, render_split, 150),
                   ("c26e", scans, render_scan, 100), ("c26b", big, render_stream, 1)]
        ncorr = 0
        for tag, cs, rend, shard in batches:
            if not cs:
                continue
            bad, log, dt = vlib.coq_eval_cases(pre, "c26_case", "c26_check", [rend(c) for c in cs], shard=shard, tag=tag)
            ncorr += len(cs)
            ck.log("correspondence %s: %d cases, %d disagreements (%.1fs)" % (tag, len(cs), len(bad), dt))
            if bad:
                first = bad[0]
                detail = cs[first] if isinstance(first, int) else log
                if isinstance(first, int) and detail.get("big"):
                    detail = {k: detail[k] for k in ("rle", "pat", "trail", "ranges", "gets")}
                ck.problem("tie", "model and implementation disagree on %d %s case(s); first: %s" % (len(bad), tag, str(detail)[:900]))
    else:
        ncorr = 0
        ck.problem("tie", "Model/Boundary.vo missing: correspondence not evaluated")
    # ---- coverage
    def nontrivial_runs(c):
        """(file, term, pat, trail, s, e) of runs whose output is non-empty and whose range does
        not simply cover the whole file"""
        size = c["size"]
        out = []
        for (s, e), o in zip(c["ranges"], c["outs"]):
            if o and any(len(ch) for ch in o) and (s > 0 or e < size):
                out.append(vlib.case_hash([c["rle"], c["term"], c["pat"], c["trail"], s, e]))
        return out
    distinct = set()
    for c in small + big:
        if c["size"] > maxlen:
            distinct.update(nontrivial_runs(c))
    sample_small = next((c for c in small if c["npart"] >= 3), small[0] if small else None)
    samples = []
    if sample_small:
        samples.append({k: sample_small[k] for k in ("rle", "term", "pat", "trail", "ranges", "outs", "gets")})
    if splits:
        samples.append(next((c for c in splits if c["groups"]), splits[0]))
    if scans:
        samples.append(next((c for c in scans if len(c["ranges"]) >= 3), scans[0]))
    if big:
        samples.append({k: big[0][k] for k in ("rle", "pat", "trail", "ranges", "gets")})
    if exh:
        samples.append(exh)
    ck.coverage.update({
        "evaluations": int(summary["runs"]) if summary else len(cases),
        "distinct_nontrivial": len(distinct) + (int(exh["nonempty"]) if exh else 0),
        "exhaustive": False,
        "rule": "evaluations = real AlignedBoundaryStream runs (one (file, range, chunking)) + repartition_file_groups calls + "
                "CSV/NDJSON opener range scans. (a) small-scope exhaustive: every file over {a,\\n} of length <= %d x every "
                "(start,end) in [0,len+1]x[0,len+2] x 8 chunkings (1,2,3,4-byte, whole, mixed with empty chunks, +-trailing empty "
                "chunk), direct oracle only; (b) %d random files (0..40 bytes over {a,b,\\n,\\r}, edge files, custom terminator) x "
                "random partition into <=7 consecutive ranges (+ arbitrary/empty/past-EOF ranges) x random chunk pattern: oracle + "
                "exact chunk-by-chunk comparison with the Coq model; (c) %d files with a record longer than the 16 KiB lookahead "
                "(overflow GETs); (d) splitter on random file/range lists, target partitions 1..9, min sizes; (e) end-to-end "
                "CsvOpener/JsonOpener scans over ranges from the real splitter or random partitions vs whole-file scan. "
                "distinct_nontrivial = exhaustive runs with non-empty expected output (distinct by enumeration) + distinct "
                "(file,terminator,pattern,range) runs of (b),(c) on files longer than %d bytes with non-empty output and a range "
                "boundary inside the file" % (maxlen, len(small), len(big), maxlen),
        "case_kinds": kinds,
        "correspondence_cases": ncorr,
        "samples": samples,
        "trusted_base": vlib.TRUSTED_COMMON + [
            "Model/Boundary.v is a hand-written transcription of boundary_stream.rs / repartition_evenly_by_size (phase by phase; "
            "u64/usize subtractions and slice indexing modelled as panics); its faithfulness is checked by the exact comparison "
            "of yielded chunk sequences / produced groups with the implementation on every run, not proved",
            "harness object store (PatStore): InMemory + deterministic chunk pattern; mirrored by pat_chunker in the model "
            "(proved to satisfy the chunker hypothesis: C26_pat_chunker_ok)",
            "CSV/NDJSON decoders are not modelled (records are compared as decoded integers in the end-to-end cases)",
            "repartition_preserving_order (BinaryHeap based) is not modelled: direct oracle only"],
    })
    ck.assumptions = ["file_size passed to the stream equals the object's length", "file size < 2^64-1",
                      "every GET of [a,b) returns exactly those bytes (in any chunking)",
                      "newline-delimited formats: no terminator bytes inside quoted CSV fields"]
    return ck.finish()
