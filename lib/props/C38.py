"""C38 -- SQL generated from a plan / an expression means the same as the plan / the expression.  Tie: T + X.

T: translators/rs_prec2coq.py regenerates coq/Gen/OperatorPrec.v (Operator::precedence, the unparser's constants, sqlparser's
   precedence tables and levels) and pins the hand-modelled unparser functions by hash.
X: harness/h_core/src/bin/c38.rs runs the real Unparser + the session's SQL parser; the Coq model (Model/Unparse.v) must predict
   the token sequence of every unparsed text, sqlparser's parse of it, and whether the re-planned expression equals the original.
"""
import json
import os
import sys

import vlib
from vlib import Check

TRANSLATOR = "translators/rs_prec2coq.py"

ATOMS = {"i0": 0, "i1": 1, "i2": 2, "b0": 3, "b1": 4, "b2": 5, "s0": 6, "s1": 7,
         "'a'": 30, "'b'": 31, "'%'": 32, "'ab'": 33, "'1'": 34, "true": 40, "false": 41, "null": 42}
ATOMS.update({str(k): 10 + k for k in range(10)})
POST = ["PIsNull", "PIsNotNull", "PIsTrue", "PIsNotTrue", "PIsFalse", "PIsNotFalse", "PIsUnknown", "PIsNotUnknown"]
LIKE = ["LLike", "LNotLike", "LILike", "LNotILike"]
SYM = {"=": "Eq", "<>": "NotEq", "<": "Lt", "<=": "LtEq", ">": "Gt", ">=": "GtEq", "+": "Plus", "-": "Minus", "*": "Multiply", "/": "Divide",
       "%": "Modulo", "&": "BitwiseAnd", "|": "BitwiseOr", "^": "BitwiseXor", "<<": "BitwiseShiftLeft", ">>": "BitwiseShiftRight",
       "||": "StringConcat", "~": "RegexMatch", "~*": "RegexIMatch", "!~": "RegexNotMatch", "!~*": "RegexNotIMatch",
       "~~": "LikeMatch", "~~*": "ILikeMatch", "!~~": "NotLikeMatch", "!~~*": "NotILikeMatch", "AND": "And", "OR": "Or"}


class Untranslatable(Exception):
    pass


def atom(t):
    k = t if t.startswith("'") else t.lower()
    if k not in ATOMS:
        raise Untranslatable("atom %r" % t)
    return ATOMS[k]


def cb(b):
    return "true" if b else "false"


def nlist(xs):
    return "[" + "; ".join(str(x) for x in xs) + "]"


def r_expr(x):
    if "a" in x:
        return "(EAtom %d)" % atom(x["a"])
    if "b" in x:
        return "(EBin Op%s %s %s)" % (x["b"], r_expr(x["l"]), r_expr(x["r"]))
    if "like" in x:
        return "(ELike %s %s %s)" % (LIKE[x["like"]], r_expr(x["l"]), r_expr(x["r"]))
    if "not" in x:
        return "(ENot %s)" % r_expr(x["not"])
    if "neg" in x:
        return "(ENeg %s)" % r_expr(x["neg"])
    if "is" in x:
        return "(EIs %s %s)" % (POST[x["is"]], r_expr(x["e"]))
    if "in" in x:
        return "(EIn %s %s %s)" % (cb(x["in"]), r_expr(x["e"]), nlist(atom(i["a"]) if "a" in i else _raise(i) for i in x["items"]))
    raise Untranslatable(str(x)[:80])


def _raise(i):
    raise Untranslatable("IN item %s" % str(i)[:60])


def r_iop(name):
    if name == "IsDistinctFrom":
        return "(IDistinct false)"
    if name == "IsNotDistinctFrom":
        return "(IDistinct true)"
    return "(IOp Op%s)" % name


def r_ast(a):
    if "a" in a:
        return "(AAtom %d)" % atom(a["a"])
    if "n" in a:
        return "(ANested %s)" % r_ast(a["n"])
    if "b" in a:
        return "(AInfix %s %s %s)" % (r_iop(a["b"]), r_ast(a["l"]), r_ast(a["r"]))
    if "like" in a:
        return "(AInfix (ILike %s) %s %s)" % (LIKE[a["like"]], r_ast(a["l"]), r_ast(a["r"]))
    if "not" in a:
        return "(ANot %s)" % r_ast(a["not"])
    if "neg" in a:
        return "(ANeg %s)" % r_ast(a["neg"])
    if "is" in a:
        return "(APost %s %s)" % (POST[a["is"]], r_ast(a["e"]))
    if "in" in a:
        return "(AIn %s %s %s)" % (cb(a["in"]), r_ast(a["e"]), nlist(atom(i["a"]) if "a" in i else _raise(i) for i in a["items"]))
    raise Untranslatable(str(a)[:80])


def r_tokens(ts):
    """raw token texts of sqlparser's tokenizer -> the model's tokens (IS ..., [NOT] LIKE, [NOT] IN (...) are one token each)"""
    out, i, n = [], 0, len(ts)
    up = [t.upper() for t in ts]

    def in_list(j, neg):
        if j >= n or ts[j] != "(":
            raise Untranslatable("IN without list")
        j += 1
        items = []
        while True:
            items.append(atom(ts[j]))
            j += 1
            if ts[j] == ",":
                j += 1
                continue
            if ts[j] == ")":
                return j + 1, "TIn %s %s" % (cb(neg), nlist(items))
            raise Untranslatable("IN list item")
    while i < n:
        t, u = ts[i], up[i]
        if t == "(":
            out.append("TLP"); i += 1
        elif t == ")":
            out.append("TRP"); i += 1
        elif u == "NOT" and not t.startswith("'"):
            nx = up[i + 1] if i + 1 < n else ""
            if nx in ("LIKE", "ILIKE"):
                out.append("TInfix (ILike %s)" % ("LNotLike" if nx == "LIKE" else "LNotILike")); i += 2
            elif nx == "IN":
                i, tk = in_list(i + 2, True); out.append(tk)
            else:
                out.append("TNot"); i += 1
        elif u in ("LIKE", "ILIKE") and not t.startswith("'"):
            out.append("TInfix (ILike %s)" % ("LLike" if u == "LIKE" else "LILike")); i += 1
        elif u == "IN" and not t.startswith("'"):
            i, tk = in_list(i + 1, False); out.append(tk)
        elif u == "IS" and not t.startswith("'"):
            j = i + 1
            neg = j < n and up[j] == "NOT"
            if neg:
                j += 1
            w = up[j] if j < n else ""
            if w in ("NULL", "TRUE", "FALSE", "UNKNOWN"):
                out.append("TPost %s" % POST[{"NULL": 0, "TRUE": 2, "FALSE": 4, "UNKNOWN": 6}[w] + (1 if neg else 0)]); i = j + 1
            elif w == "DISTINCT" and j + 1 < n and up[j + 1] == "FROM":
                out.append("TInfix (IDistinct %s)" % cb(neg)); i = j + 2
            else:
                raise Untranslatable("IS %s" % w)
        elif (u if u in ("AND", "OR") else t) in SYM and not t.startswith("'"):
            out.append("TInfix (IOp Op%s)" % SYM[u if u in ("AND", "OR") else t]); i += 1
        else:
            out.append("TAtom %d" % atom(t)); i += 1
    return "[" + "; ".join(out) + "]"


def render(c):
    toks = "None" if c["tok"] is None else "(Some %s)" % r_tokens(c["tok"])
    rp = c["reparsed"]
    if rp is None or ("ast" in rp and rp["ast"] is None):
        rpt = "None"
    elif "err" in rp:
        rpt = "(Some None)"
    else:
        rpt = "(Some (Some %s))" % r_ast(rp["ast"])
    # the planner can reject a text that sqlparser parsed (operand types of an untyped operator pair): no structural verdict then
    so = "None" if (c.get("reparse_err") and rp and rp.get("ast")) else "(Some %s)" % cb(c["struct_ok"])
    return "C38Case %s %s %s %s %s" % (cb(c["mode"] == "pretty"), r_expr(c["x"]), toks, rpt, so)


def run(pid, tier, seed, replay):
    ck = Check(pid, tier, seed, level="proof")
    n = 200 if tier == "quick" else 3000
    # ---- T: regenerate the tables from the current sources
    info_path = os.path.join(vlib.BUILD, "c38_info.json")
    rc, out, _ = vlib.sh([sys.executable, os.path.join(vlib.VERIF, TRANSLATOR), vlib.REPO, os.path.join(vlib.COQ, "Gen/OperatorPrec.v"), "--json", info_path])
    ck.log("translator: " + out.strip()[-400:])
    if rc != 0:
        ck.problem("translator", "rs_prec2coq.py could not translate the sources (fails closed): %s" % out.strip()[-700:])
    info = json.load(open(info_path)) if os.path.exists(info_path) else {}
    # ---- proofs over the regenerated tables
    ck.proof_step(extra_targets=["Model/Unparse.vo"])
    # ---- the implementation
    ok, out, dt = vlib.cargo_build("h_core", bin="c38")
    ck.log("cargo build h_core: ok=%s (%.0fs)" % (ok, dt))
    if not ok:
        ck.problem("tie", "harness build failed:\n" + out[-3000:])
        return ck.finish()
    rc, so, se, dt = vlib.run_bin("c38", ["--seed", seed, "--n", n], timeout=3000)
    cases = vlib.jsonl(so)
    if rc != 0:
        ck.problem("tie", "harness ended abnormally rc=%d: %s" % (rc, se[-1500:]))
    if not cases:
        return ck.finish()
    streams, verdicts = {}, {}
    for c in cases:
        s = c["stream"].split(":")[0]
        streams[s] = streams.get(s, 0) + 1
        if "sem" in c:
            verdicts[c["sem"]] = verdicts.get(c["sem"], 0) + 1
        if c["ok"]:
            continue
        if "panic" in c:
            ck.fail_input("panic: " + c["panic"][:300], {k: c.get(k) for k in ("stream", "mode", "meaning", "sql0", "optimized")}, key=c.get("key"))
        elif "sql0" in c:
            what = {"replan": "the SQL text plan_to_sql produced does not plan again", "rerun": "the SQL text plan_to_sql produced does not run",
                    "compared": "the SQL text plan_to_sql produced returns different %s" % c.get("why", "")}.get(c["stage"], c["stage"])
            ck.fail_input("%s (%s plan of %s): %s" % (what, "optimized" if c["optimized"] else "unoptimized", c["sql0"][:400], (c.get("msg") or "")[:300]),
                          {k: c.get(k) for k in ("stream", "optimized", "sql0", "sql1", "stage", "msg", "why", "names0", "names1", "rows0", "rows1")}, key=c["key"])
        elif s == "dialect":
            ck.fail_input("%s unparser dialect: text does not parse with sqlparser's %s dialect: %s is written %s (%s); minimal: %s written %s"
                          % (c["dialect"], c["dialect"], c["meaning"][:300], c["sql"][:300], c["parse_err"], c["min"], c["min_text"]),
                          {k: c.get(k) for k in ("dialect", "meaning", "sql", "parse_err", "min", "min_text")}, key=c["key"])
        else:
            ck.fail_input("%s unparser: %s is written %s, which re-plans to a different expression (%s %s); minimal: %s is written %s"
                          % (c["mode"], c["meaning"][:300], c["sql"][:300], c["sem"], (c.get("detail") or c.get("reparse_err") or "")[:300], c["min"], c["min_text"]),
                          {k: c.get(k) for k in ("stream", "mode", "meaning", "sql", "sem", "detail", "reparse_err", "min", "min_text", "x")}, key=c["key"])
    ck.log("harness: %s verdicts %s (%.1fs)" % (streams, verdicts, dt))
    # ---- correspondence: tokens of the text, sqlparser's parse of it, and the structural verdict, all predicted by the model
    corr, terms, skipped = [], [], 0
    for c in cases:
        if not c.get("frag") or "tok" not in c or c.get("unparse_err"):
            continue
        try:
            terms.append(render(c))
            corr.append(c)
        except (Untranslatable, IndexError, KeyError) as e:
            skipped += 1
            ck.problem("tie", "case in the modelled fragment could not be rendered (%s): %s" % (e, c["sql"][:300]))
    pre = "From Coq Require Import NArith List.\nFrom DF Require Import Base.Prelude Gen.OperatorPrec Model.Unparse.\nImport ListNotations.\nOpen Scope N_scope."
    bad, log, dt = vlib.coq_eval_cases(pre, "c38_case", "c38_check", terms, shard=120, tag="c38")
    ck.log("correspondence: %d cases, %d disagreements (%.1fs)" % (len(corr), len(bad), dt))
    if bad:
        first = bad[0]
        ck.problem("tie", "model and implementation disagree on %d cases; first: %s" %
                   (len(bad), str({k: corr[first].get(k) for k in ("mode", "meaning", "sql", "tok", "reparsed", "struct_ok")} if isinstance(first, int) else log)[:1500]))
    def nested(x):      # an operator directly inside another operator
        kids = [v for k, v in x.items() if isinstance(v, dict)] + [i for v in x.values() if isinstance(v, list) for i in v if isinstance(i, dict)]
        return "a" not in x and any("a" not in k for k in kids)
    nontriv = {vlib.case_hash([c.get("mode", c.get("dialect")), c["x"]]) for c in cases if "x" in c and nested(c["x"])}
    nontriv |= {vlib.case_hash([c["optimized"], c["sql0"]]) for c in cases if "sql0" in c and c.get("stage") == "compared" and c.get("nrows", 0) > 0}
    plan_stages = {}
    for c in cases:
        if "sql0" in c:
            k = ("optimized:" if c["optimized"] else "unoptimized:") + c.get("stage", "panic")
            plan_stages[k] = plan_stages.get(k, 0) + 1
    ck.coverage.update({
        "evaluations": len(cases),
        "distinct_nontrivial": len(nontriv),
        "rule": "witness corpus first; pairs: (parent, child, side) over 29 binary operators on column atoms, default and pretty unparser; frag/wide: random typed "
                "trees of depth 2..4 over nullable Int64/Boolean/Utf8 columns and literals (arithmetic, comparison, logical, bitwise, shifts, ||, regex and ~~ operators, "
                "IS [NOT] DISTINCT FROM, [NOT] [I]LIKE, NOT, unary minus, IS [NOT] NULL/TRUE/FALSE/UNKNOWN, [NOT] IN; wide adds BETWEEN, CASE, CAST, negative and NULL "
                "literals), each unparsed with the default dialect in both modes, re-planned with SessionContext::parse_sql_expr and evaluated row by row (44 rows incl. "
                "all 27 NULL/true/false and NULL/0/1 combinations, i64 extremes) with the real physical expressions; dialect: postgres/mysql/sqlite/duckdb unparser text "
                "must parse with sqlparser's dialect; plan: C01 queries (19 streams) -> logical plan (unoptimized, every second also optimized) -> plan_to_sql -> text -> "
                "planned and executed again, rows compared as bag / sort-key sequence and column names compared; non-trivial = expression with an operator nested in "
                "another one / compared plan with at least one result row",
        "streams": streams, "semantic_verdicts": verdicts, "plan_stages": plan_stages,
        "traces_validated_against_impl": len(corr),
        "translator": {"operators": len(info.get("variants", [])), "sqlparser": info.get("sqlparser"), "pins": info.get("pins"),
                       "df_prec": info.get("df_prec"), "sp_class_of": info.get("sp_class_of")},
        "samples": [next(({k: c.get(k) for k in ("mode", "meaning", "sql", "struct_ok", "sem")} for c in cases if c["stream"] == "frag"), None),
                    next(({k: c.get(k) for k in ("sql0", "sql1", "nrows")} for c in cases if "sql0" in c and c.get("stage") == "compared"), None)],
        "trusted_base": vlib.TRUSTED_COMMON + [
            "translators/rs_prec2coq.py (regex translator of Operator::precedence, op_to_sql/sql_to_op, the unparser constants, sqlparser prec_value / "
            "get_next_precedence_default / parse_infix tables; fails closed; remove_unnecessary_nesting, inner_precedence, sql_op_precedence and the Nested-wrapping arms of "
            "expr_to_sql_inner are modelled by hand and pinned by hash / exact text)",
            "the parser model (Model/Unparse.v parse_sub/ploop) is a hand model of sqlparser's parse_subexpr/parse_prefix/parse_infix for the fragment; it is validated "
            "against sqlparser's own parse of every unparsed text (exact AST comparison), not proved against the Rust code",
            "sqlparser's tokenizer and Display; the Python token grouping (IS ..., [NOT] LIKE, [NOT] IN (...) as single tokens)"],
    })
    ck.assumptions = ["theorems cover expressions over atoms, all binary operators, [NOT] [I]LIKE, NOT, unary minus, IS ..., [NOT] IN (atoms); BETWEEN, CASE, CAST, "
                      "functions, subqueries and the whole plan-level unparser (plan.rs, rewrite.rs, utils.rs, ast.rs) are covered by differential execution only",
                      "the re-parser is the session's default (sqlparser generic dialect); other dialects are only checked to produce text their sqlparser dialect parses"]
    return ck.finish()
