"""C21 -- spill files round-trip; disk usage accounting exact under injected write failures.  Tie: X."""
import vlib
from vlib import Check, zlit, coq_bool


def r_op(o):
    if o["op"] == "create":
        return "Create"
    if o["op"] == "write":
        return "Write %s %s %s" % (zlit(o["f"]), zlit(o["len"]), coq_bool(o["io_ok"]))
    if o["op"] == "release":
        return "Release %s" % zlit(o["f"])
    return "SetLimit %s" % zlit(o["n"])


def r_out(o):
    if "created" in o:
        return "OCreated %s %s" % (zlit(o["created"]), zlit(o["used"]))
    if "res" in o:
        return "OWrite %s %s %s" % (zlit(o["res"]), zlit(o["used"]), zlit(o["fsize"]))
    if "released" in o:
        return "OReleased %s" % zlit(o["used"])
    return "OLimit %s" % zlit(o["used"])


def render(c):
    return "C21 %s [%s] [%s]" % (zlit(c["lim"]), "; ".join(r_op(o) for o in c["ops"]), "; ".join(r_out(o) for o in c["outs"]))


def run(pid, tier, seed, replay):
    ck = Check(pid, tier, seed, level="proof")
    n = 1500 if tier == "quick" else 30000
    ck.proof_step(extra_targets=["Model/DiskUsage.vo"])
    ok, out, dt = vlib.cargo_build("h_physplan", bin="c21")
    ck.log("cargo build: ok=%s (%.0fs)" % (ok, dt))
    if not ok:
        ck.problem("tie", "harness build failed:\n" + out[-3000:])
        return ck.finish()
    rc, so, se, dt = vlib.run_bin("c21", ["--seed", seed, "--n", n])
    cases = vlib.jsonl(so)
    if rc != 0:
        ck.problem("tie", "harness ended abnormally rc=%d: %s" % (rc, se[-1500:]))
    if not cases:
        return ck.finish()
    acct = [c for c in cases if c["k"] == "acct"]
    rt = [c for c in cases if c["k"] == "rt"]
    ck.log("harness: %d accounting histories, %d round-trip cases (%.1fs)" % (len(acct), len(rt), dt))
    for c in cases:
        if not c["ok"]:
            if c["k"] == "acct":
                ck.fail_input("disk usage accounting: " + c["why"], {"limit": c["lim"], "ops": c["ops"], "outs": c["outs"]})
            else:
                ck.fail_input("spill round trip: " + c["why"], {"desc": c["desc"], "outcome": c["outcome"]})
    good = [c for c in acct if c["ok"]]
    pre = "From DF Require Import Base.Prelude Model.DiskUsage.\nOpen Scope Z_scope."
    bad, log, dt = vlib.coq_eval_cases(pre, "c21_case", "c21_check", [render(c) for c in good], shard=300, tag="c21")
    ck.log("correspondence: %d histories, %d disagreements (%.1fs)" % (len(good), len(bad), dt))
    if bad:
        first = bad[0]
        ck.problem("tie", "model and implementation disagree on %d accounting histories; first: %s"
                   % (len(bad), str(good[first] if isinstance(first, int) else log)[:1500]))
    res = {0: 0, 1: 0, 2: 0}
    for c in acct:
        for o in c["outs"]:
            if "res" in o:
                res[o["res"]] += 1
    outcomes = {}
    for c in rt:
        outcomes[c["outcome"]] = outcomes.get(c["outcome"], 0) + 1
    nt = {vlib.case_hash(c["ops"]) for c in acct if any(o.get("res") in (1, 2) for o in c["outs"])}
    nt |= {vlib.case_hash(c["desc"]) for c in rt if c["outcome"] == "roundtrip"}
    ck.coverage.update({
        "evaluations": len(cases),
        "distinct_nontrivial": len(nt),
        "rule": "acct: random histories of create / write (len in {0,1,7,100,999,1000,1001,2500,4096,6000}; 25% with an injected write_all failure via "
                "RLIMIT_FSIZE set between 0 and len-1 bytes past the current file size) / release / set limit, limits {0,1000,3000,5000,10000,2^40}; "
                "non-trivial = at least one write rejected by the limit or failed in I/O. rt: 1-4 columns drawn from Int32, Float64, Boolean, Utf8, Utf8View, "
                "BinaryView, Dictionary, List, Struct x {uncompressed, lz4, zstd} x sliced/empty batches x read buffer 1..3 x disk limits; non-trivial = a file was "
                "written and read back",
        "write_results": {"ok": res[0], "limit_rejected": res[1], "io_failed": res[2]},
        "roundtrip_outcomes": outcomes,
        "traces_validated_against_impl": len(good),
        "samples": [{"limit": acct[0]["lim"], "ops": acct[0]["ops"], "outs": acct[0]["outs"]}, rt[0]["desc"] if rt else None],
        "trusted_base": vlib.TRUSTED_COMMON + [
            "write failures are injected from outside with RLIMIT_FSIZE (SIGXFSZ ignored); the I/O outcome is an input of the model",
            "Arrow IPC encoding/decoding is not modelled: the round-trip half is decided by differential execution only"],
    })
    ck.assumptions = ["a writer is only used while its file is live (writes after the last reference was dropped are outside the property's histories)",
                      "u64 counters do not wrap (sizes far below 2^64)", "single-threaded histories (schedules are not in C21's quantifier)"]
    return ck.finish()
