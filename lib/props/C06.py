"""C06 -- grouped aggregation is exact under every aggregation strategy.  Tie: X.

Streams of harness/h_physplan/src/bin/c06.rs:
  ord     operation histories on the real GroupOrderingPartial / GroupOrderingFull   -> state-for-state tie (C06Ord)
  agg     the real AggregateExec in every mode x ordering x batch size x memory x skip-partial x GROUPING SETS
          -> oracle = definition computed in Rust; tie: Coq definition (group_pairs + agg_apply) = output bag (C06Agg)
  stream  ordered single-stage aggregation: exact sequence of output batches vs the ordered-table model (C06Stream)
"""
import json
import os
import vlib
from vlib import Check, zlit, coq_bool

PRE = "From DF Require Import Base.Prelude Model.RefSQL Model.PhysDecomp Model.GroupOrder.\nOpen Scope Z_scope."
FN = {"count_star": "FCountStar", "count": "FCount", "sum": "FSum", "min": "FMin", "max": "FMax", "avg": "FAvg"}


def r_list(xs):
    return "[" + "; ".join(xs) + "]"


def r_value(v):
    if v is None:
        return "VNull"
    if isinstance(v, bool):
        raise ValueError("bool")
    if isinstance(v, int):
        return "(VInt %s)" % zlit(v)
    return "(VStr [%s])" % "; ".join(str(x) for x in v.encode("utf-8"))


def r_agg_value(v):
    """an aggregate output: integer / NULL / the avg as the string 'p/q' (exact reduced fraction of the float)"""
    if isinstance(v, str):
        try:
            p, q = v.split("/")
            return "(VRat %s %s)" % (zlit(int(p)), zlit(int(q)))
        except Exception:
            return "(VRat 0 0)"
    return r_value(v)


def r_row(r):
    return r_list([r_value(v) for v in r])


def r_out_row(r, nkey):
    return r_list([r_value(v) for v in r[:nkey]] + [r_agg_value(v) for v in r[nkey:]])


def r_op(o):
    k = o["op"]
    if k == "new":
        return "OpNew %s %s %s" % (r_list([r_row(x) for x in o["keys"]]), vlib.zlist(o["gidx"]), zlit(o["total"]))
    if k == "emit":
        return "OpEmit"
    if k == "remove":
        return "OpRemove %s" % zlit(o["n"])
    if k == "done":
        return "OpDone"
    if k == "reset":
        return "OpReset"
    return "OpOom %s" % zlit(o["n"])


def r_obs(o):
    if o.get("panic"):
        return "ObsPanic"
    return "ObsState %s %s %s %s %s" % (zlit(o["tag"]), zlit(o["cs"]), zlit(o["cur"]), r_row(o["sk"]), zlit(o["emit"]))


def render_ord(c):
    return "C06Ord %s %s %s %s" % (coq_bool(c["full"]), vlib.zlist(c["idx"]), r_list([r_op(o) for o in c["ops"]]),
                                   r_list([r_obs(o) for o in c["obs"]]))


def render_agg(c):
    nkey = len(c["ktypes"]) + (1 if c["sets"] else 0)
    runs = []
    for r in c["runs"]:
        if "rows" in r:
            runs.append("Some %s" % r_list([r_out_row(x, nkey) for x in r["rows"]]))
    return "C06Agg %s %s %s %s %s" % (
        r_list([FN[a] for a in c["aggs"]]),
        r_list([r_list([coq_bool(b) for b in m]) for m in c["sets"]]),
        r_list([r_row(k) for k in c["keys"]]),
        r_list([r_value(v) for v in c["vals"]]),
        r_list(runs))


def render_stream(c):
    nkey = len(c["ktypes"])
    batches = r_list([r_list(["(%s, %s)" % (r_row(p[0]), r_value(p[1])) for p in b]) for b in c["batches"]])
    obs = r_list([r_list([r_out_row(x, nkey) for x in b]) for b in c["obs"]])
    return "C06Stream %s %s %s %s %s %s" % (r_list([FN[a] for a in c["aggs"]]), coq_bool(c["full"]), vlib.zlist(c["idx"]),
                                            zlit(c["bs"]), batches, obs)


def expected_iom(c):
    return "Sorted" if c["full"] else "Partial[%s]" % ", ".join(str(i) for i in c["idx"])


def slim(c):
    """a failing case without the runs that are fine"""
    d = dict(c)
    if d.get("kind") == "agg":
        d["runs"] = [r for r in c["runs"] if not r.get("good", False) and not r.get("benign", False)]
    return d


KF1 = "grouping-sets-single-spill-merge-drops-grouping-id"


def finding_key(c, r):
    """stable key of the input class a known finding is listed under"""
    cfg = r["cfg"]
    if "err" in r and c["sets"] and cfg["mode"] == "single" and cfg["mem"] is not None \
            and "number of columns(" in r["err"] and "must match number of fields(" in r["err"]:
        # KF-C06-1: single-stage GROUPING SETS aggregation under a memory budget: after a spill the merge of the spilled
        # runs groups on the grouping expressions only (no __grouping_id) and the batch no longer fits the schema
        return KF1
    return None


def run(pid, tier, seed, replay):
    ck = Check(pid, tier, seed, level="proof")
    n = 1500 if tier == "quick" else 30000
    ck.proof_step(extra_targets=["Model/GroupOrder.vo"])
    ok, out, dt = vlib.cargo_build("h_physplan", bin="c06")
    ck.log("cargo build: ok=%s (%.0fs)" % (ok, dt))
    if not ok:
        ck.problem("tie", "harness build failed:\n" + out[-3000:])
        return ck.finish()
    rc, so, se, dt = vlib.run_bin("c06", ["--seed", seed, "--n", n], timeout=3000)
    cases = vlib.jsonl(so)
    if rc != 0:
        ck.problem("tie", "harness ended abnormally rc=%d: %s" % (rc, se[-1500:]))
    if not cases:
        ck.problem("tie", "harness produced no cases")
        return ck.finish()
    ords = [c for c in cases if c["kind"] == "ord"]
    aggs = [c for c in cases if c["kind"] == "agg"]
    streams = [c for c in cases if c["kind"] == "stream"]
    ck.log("harness: %d ordering histories, %d AggregateExec cases, %d ordered-stream cases (%.1fs)"
           % (len(ords), len(aggs), len(streams), dt))

    # ---- direct oracle
    for c in cases:
        if c["ok"]:
            continue
        if c["kind"] == "ord":
            ck.fail_input("group ordering: " + c["why"], c)
        elif c["kind"] == "agg":
            for r in c["runs"]:
                if r.get("good", False) or r.get("benign", False):
                    continue
                what = ("AggregateExec output differs from the definition" if "rows" in r
                        else "AggregateExec failed: " + r.get("err", "")[:200])
                d = slim(c)
                d["runs"] = [r]
                ck.fail_input(what + " [%s, %s]" % (r["cfg"]["mode"], r["iom"]), d, key=finding_key(c, r))
        else:
            ck.fail_input("ordered single-stage aggregation: output is not the definition / a group is output twice", c)

    # ---- correspondence
    terms, origin = [], []
    for c in ords:
        terms.append(render_ord(c))
        origin.append(c)
    n_agg_tied = 0
    for c in aggs:
        with_rows = [r for r in c["runs"] if "rows" in r]
        if with_rows and all(r.get("good", False) for r in with_rows):      # oracle failures are reported above, once
            terms.append(render_agg(c))
            origin.append(c)
            n_agg_tied += 1
    n_stream_tied = 0
    untied = {"legacy_stream": 0, "order_mode_differs": 0, "failed": 0}
    for c in streams:
        if not isinstance(c["obs"], list):
            untied["failed"] += 1
            continue
        if not c["migr"]:
            untied["legacy_stream"] += 1      # GroupedHashAggregateStream: bag-compared only (its emission schedule is not modelled)
            continue
        if c["iom"] != expected_iom(c):
            untied["order_mode_differs"] += 1
            continue
        terms.append(render_stream(c))
        origin.append(c)
        n_stream_tied += 1
    bad, log, dt = vlib.coq_eval_cases(PRE, "c06_case", "c06_check", terms, shard=100, tag="c06", timeout=1500)
    ck.log("correspondence: %d cases (%d histories, %d aggregate cases, %d stream cases), %d disagreements (%.1fs)"
           % (len(terms), len(ords), n_agg_tied, n_stream_tied, len(bad), dt))
    if bad:
        first = bad[0]
        if isinstance(first, int):
            d = slim(origin[first])
            ck.problem("tie", "model and implementation disagree on %d cases; first (%s): %s"
                       % (len(bad), d["kind"], json.dumps(d)[:2500]))
            # a disagreement of the state machines on a protocol-following sorted history is a violation with an input
            for i in bad:
                if isinstance(i, int) and origin[i]["kind"] in ("ord", "stream"):
                    ck.fail_input("%s: the implementation deviates from the ordered-aggregation model" % origin[i]["kind"],
                                  slim(origin[i]))
                    break
        else:
            ck.problem("tie", "coq evaluation failed: " + log[-2500:])

    # ---- coverage
    runs = [r for c in aggs for r in c["runs"]]
    by_mode = {}
    for r in runs:
        k = "%s|%s|%s" % (r["cfg"]["mode"], r["iom"] or "failed", "new" if r["cfg"]["migr"] else "legacy")
        by_mode[k] = by_mode.get(k, 0) + 1
    nt = {vlib.case_hash(c["ops"]) for c in ords if any(o["op"] == "remove" and o["n"] > 0 for o in c["ops"])}
    nt |= {vlib.case_hash([c["keys"], c["vals"], c["aggs"], c["sets"]]) for c in aggs
           if len({json.dumps(k) for k in c["keys"]}) >= 2 and any("rows" in r for r in c["runs"])}
    nt |= {vlib.case_hash([c["batches"], c["bs"]]) for c in streams if isinstance(c["obs"], list) and len(c["obs"]) >= 2}
    ck.coverage.update({
        "evaluations": len(cases),
        "aggregate_runs": len(runs),
        "distinct_nontrivial": len(nt),
        "rule": "ord: histories whose emit_to allowed an early emission (remove_groups(n>0) executed); agg: inputs with >= 2 distinct "
                "group keys and at least one run that returned rows; stream: >= 2 output batches (an early emission happened)",
        "runs_with_spill": sum(1 for r in runs if r["spills"] > 0),
        "runs_with_skipped_partial_rows": sum(1 for r in runs if r["skipped"] > 0),
        "runs_out_of_memory_budget": sum(1 for r in runs if r.get("benign") and r.get("err") != "timeout"),
        "runs_hung_3_times_in_a_row": sum(1 for r in runs if r.get("err") == "timeout"),
        "grouping_sets_cases": sum(1 for c in aggs if c["sets"]),
        "adversarial_histories": sum(1 for c in ords if c["adversarial"]),
        "histories_with_panic": sum(1 for c in ords if any(o.get("panic") for o in c["obs"])),
        "runs_by_mode_order_stream": by_mode,
        "stream_cases_not_tied": untied,
        "traces_validated_against_impl": len(terms),
        "samples": [slim(ords[0]) if ords else None,
                    {k: v for k, v in (aggs[0].items() if aggs else [])},
                    streams[0] if streams else None],
        "trusted_base": vlib.TRUSTED_COMMON + [
            "the state of GroupOrderingPartial/Full is read from the structs' Debug output",
            "avg(Float64) outputs are converted back to the exact reduced fraction (smallest denominator <= 4096 whose correctly rounded "
            "quotient is the float); sums stay below 2^53 so float sums of integers are exact",
            "the accumulators are abstracted to the list of the group's rows in the ordered-table model (their exactness is C07's)"],
    })
    ck.assumptions = [
        "the input really is sorted as declared (the harness sorts it; an unsorted input under a declared ordering is outside the property)",
        "a run that ends with ResourcesExhausted under a memory budget has no result and is not compared",
        "liveness is not C06's: plans with RepartitionExec under a memory budget intermittently never finish on a loaded machine; "
        "a run that exceeds 20 s is repeated, after 3 hangs in a row it counts as 'no result' (runs_hung_3_times_in_a_row)",
        "floats as aggregate arguments are not covered (avg is taken over BIGINT values cast to DOUBLE, exactly representable)"]
    return ck.finish()
