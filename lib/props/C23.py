"""C23 -- interval arithmetic and constraint propagation are sound.  Tie: X."""
import vlib
from vlib import Check, zlit, optz, coq_bool

AOP = {"add": "Plus", "sub": "Minus", "mul": "Multiply", "div": "Divide"}
COP = {"eq": "Eq", "gt": "Gt", "gteq": "GtEq", "lt": "Lt", "lteq": "LtEq"}

F1 = "C23-F1-mul-both-zero-overflow"
F2 = "C23-F2-int-div-zero-topped"
F3 = "C23-F3-propagate-int-mul-div"
F4 = "C23-F4-propagate-comparison-parent-not-true"


def M(bits):
    return zlit(2 ** (bits - 1) - 1)


def iv(i):
    return "(%s, %s)" % (optz(i[0]), optz(i[1]))


def bi(b):
    return "(%s, %s)" % (coq_bool(b[0]), coq_bool(b[1]))


def oiv(o):
    return "None" if o is None else "(Some %s)" % iv(o)


def oiiv(o):
    return "None" if o is None else "(Some (%s, %s))" % (iv(o[0]), iv(o[1]))


def render(c):
    k = c["k"]
    if k == "arith":
        return "CArith %s %s %s %s %s" % (M(c["bits"]), AOP[c["op"]], iv(c["a"]), iv(c["b"]), iv(c["res"]))
    if k == "cmp":
        if c["op"] == "noteq":
            return "CNotEq %s %s %s" % (iv(c["a"]), iv(c["b"]), bi(c["res"]))
        return "CCmp %s %s %s %s" % (COP[c["op"]], iv(c["a"]), iv(c["b"]), bi(c["res"]))
    if k == "bool":
        if c["op"] == "not":
            return "CNot %s %s" % (bi(c["a"]), bi(c["res"]))
        return "%s %s %s %s" % ("CAnd" if c["op"] == "and" else "COr", bi(c["a"]), bi(c["b"]), bi(c["res"]))
    if k == "set":
        op = c["op"]
        if op == "intersect":
            return "CIntersect %s %s %s" % (iv(c["a"]), iv(c["b"]), oiv(c["res"]))
        if op == "union":
            return "CUnion %s %s %s" % (iv(c["a"]), iv(c["b"]), iv(c["res"]))
        if op == "contains":
            return "CContains %s %s %s" % (iv(c["a"]), iv(c["b"]), bi(c["res"]))
        if op == "contains_value":
            return "CContainsValue %s %s %s" % (iv(c["a"]), zlit(c["v"]), coq_bool(c["res"]))
        return "CCard %s %s" % (iv(c["a"]), optz(c["res"]))
    if k == "satgt":
        return "CSatGt %s %s %s %s %s" % (M(c["bits"]), iv(c["l"]), iv(c["r"]), coq_bool(c["strict"]), oiiv(c["res"]))
    if k == "parith":
        return "CPropArith %s %s %s %s %s %s" % (M(c["bits"]), AOP[c["op"]], iv(c["parent"]), iv(c["l"]), iv(c["r"]), oiiv(c["res"]))
    if k == "pcmp":
        return "CPropCmp %s %s %s %s %s %s" % (M(c["bits"]), COP[c["op"]], bi(c["parent"]), iv(c["l"]), iv(c["r"]), oiiv(c["res"]))
    raise ValueError(k)


def contains0(i):
    return (i[0] is None or i[0] <= 0) and (i[1] is None or i[1] >= 0)


def zero_topped(i):
    return i[1] == 0 and (i[0] is None or i[0] < 0)


def known_key(c):
    """the listed finding a failing case belongs to (None = a new violation)"""
    k = c["k"]
    if k == "arith" and c["op"] == "mul":
        a, b = c["a"], c["b"]
        if contains0(a) and contains0(b) and None not in a and None not in b:
            lo, hi = -(2 ** (c["bits"] - 1)), 2 ** (c["bits"] - 1) - 1
            if any(not (lo <= p <= hi) for p in (a[0] * b[1], b[0] * a[1], a[1] * b[1], a[0] * b[0])):
                return F1
    if k == "arith" and c["op"] == "div" and (zero_topped(c["a"]) or zero_topped(c["b"])):
        return F2
    if k == "parith" and c["op"] in ("mul", "div"):
        return F3
    if k == "pcmp" and c["parent"] != [True, True]:
        return F4
    if k == "cp":
        if c["muldiv"]:
            return F3
        if not c["given"]:
            return F4
    return None


def describe(c):
    k = c["k"]
    if k == "arith":
        return "Interval::%s (Int%d) %s %s = %s does not contain %s %s %s" % (
            c["op"], c["bits"], c["a"], c["b"], c["res"] if c["res"] is not None else c["error"],
            c["cex"][0] if c["cex"] else "?", {"add": "+", "sub": "-", "mul": "*", "div": "/"}[c["op"]], c["cex"][1] if c["cex"] else "?")
    if k == "cmp":
        return "apply_operator(%s) %s %s = %s excludes the truth value for members %s" % (c["op"], c["a"], c["b"], c["res"], c["cex"])
    if k == "bool":
        return "boolean %s %s %s = %s excludes a possible truth value" % (c["op"], c["a"], c["b"], c["res"])
    if k == "set":
        return "Interval::%s %s %s = %s is wrong for a sampled value" % (c["op"], c["a"], c.get("b", c.get("v")), c["res"])
    if k == "satgt":
        return "satisfy_greater(%s, %s, strict=%s) = %s removes the feasible pair %s" % (c["l"], c["r"], c["strict"], c["res"], c["cex"])
    if k == "parith":
        return "propagate_arithmetic(%s, parent=%s, left=%s, right=%s) (Int%d) = %s removes the feasible pair %s" % (
            c["op"], c["parent"], c["l"], c["r"], c["bits"], c["res"] if c["error"] is None else c["error"], c["cex"])
    if k == "pcmp":
        return "propagate_comparison(%s, parent=%s, left=%s, right=%s) = %s removes the feasible pair %s" % (
            c["op"], c["parent"], c["l"], c["r"], c["res"], c["cex"])
    if k == "cp":
        return "ExprIntervalGraph on `%s` (given range %s) with %s in %s: %s (assignment %s)" % (
            c["expr"], c["given"], c["cols"], c["ranges"], c["why"], c["cex"])
    return "Float64 Interval::%s %s %s = %s does not contain the result for members %s" % (c["op"], c["a"], c["b"], c["res"], c["cex"])


WITNESSES = 8   # the first lines of the harness output replay the _refuted witnesses of Props/C23.v


def run(pid, tier, seed, replay):
    ck = Check(pid, tier, seed, level="proof")
    n = 4000 if tier == "quick" else 80000
    ck.proof_step(extra_targets=["Model/Interval.vo"])
    ok, out, dt = vlib.cargo_build("h_expr", bin="c23")
    ck.log("cargo build: ok=%s (%.0fs)" % (ok, dt))
    if not ok:
        ck.problem("tie", "harness build failed:\n" + out[-3000:])
        return ck.finish()
    rc, so, se, dt = vlib.run_bin("c23", ["--seed", seed, "--n", n])
    cases = vlib.jsonl(so)
    if rc != 0:
        ck.problem("tie", "harness ended abnormally rc=%d: %s" % (rc, se[-1500:]))
    if len(cases) <= WITNESSES:
        ck.problem("tie", "harness printed no cases")
        return ck.finish()
    kinds, fails, panics = {}, {}, 0
    for c in cases:
        kinds[c["k"]] = kinds.get(c["k"], 0) + 1
        if not c["ok"]:
            key = known_key(c)
            fails[key or "NEW"] = fails.get(key or "NEW", 0) + 1
            ck.fail_input(describe(c), c, key=key)
        err = c.get("error") or " ".join(c.get("errors", []))
        if err and "panic:" in err:
            panics += 1
    wit = cases[:WITNESSES]
    not_reproduced = [c for c in wit if c["ok"]]
    if not_reproduced:
        ck.notes.append("refutation witnesses of Props/C23.v that the implementation no longer fails on (fixed?): %s"
                        % [describe(c)[:120] for c in not_reproduced])
    ck.log("harness: %s, oracle failures by finding: %s, panics: %d (%.1fs)" % (kinds, fails, panics, dt))
    # correspondence: the model must predict the implementation's result interval exactly (sound or not)
    corr = [c for c in cases if c["k"] not in ("cp", "float") and c.get("error") is None]
    pre = "From DF Require Import Base.Prelude Model.Interval.\nOpen Scope Z_scope."
    bad, log, dt = vlib.coq_eval_cases(pre, "c23_case", "c23_check", [render(c) for c in corr], shard=400, tag="c23")
    ck.log("correspondence: %d cases, %d disagreements (%.1fs)" % (len(corr), len(bad), dt))
    if bad:
        first = bad[0]
        ck.problem("tie", "model and implementation disagree on %d cases; first: %s"
                   % (len(bad), str(corr[first] if isinstance(first, int) else log)[:1500]))
    nt = set()
    for c in cases:
        k = c["k"]
        if k == "arith" and c["checked"] > 0 and c["res"] is not None and c["res"] != [None, None]:
            nt.add(vlib.case_hash([k, c["bits"], c["op"], c["a"], c["b"]]))
        elif k in ("satgt", "parith", "pcmp") and c["feasible"] > 0:
            nt.add(vlib.case_hash([k, c["bits"], c.get("op"), c.get("parent"), c["l"], c["r"], c.get("strict")]))
        elif k == "cp" and c["feasible"] > 0 and c["result"] == "Success":
            nt.add(vlib.case_hash([k, c["expr"], c["given"], c["ranges"]]))
        elif k in ("cmp", "set") and c["res"] not in ([False, True], None):
            nt.add(vlib.case_hash([k, c["op"], c["a"], c.get("b", c.get("v"))]))
    overflow_edge = sum(1 for c in cases if c["k"] == "arith" and c["res"] is not None and
                        any(e is not None and abs(e) >= 2 ** (c["bits"] - 1) - 2 for e in c["a"] + c["b"] + c["res"]))
    cp = [c for c in cases if c["k"] == "cp"]
    results = {}
    for c in cp:
        results[c["result"].split(":")[0]] = results.get(c["result"].split(":")[0], 0) + 1
    ck.coverage.update({
        "evaluations": len(cases),
        "distinct_nontrivial": len(nt),
        "rule": "Int8 (40%) / Int32 (20%) / Int64 (40%) intervals with endpoints from {NULL, -6..6, MIN..MIN+2, MAX-2..MAX, MIN/2, MAX/2, MAX/3, "
                "+-2^(w/2) (+-1), -130..130, random}, singletons, zero-straddling pairs with overflowing endpoint products; Boolean intervals FALSE/TRUE/UNCERTAIN; "
                "oracle members: every member when the interval has <= 24 of them, otherwise endpoints and neighbours, -2..2, midpoint, halves of the type range, "
                "values t with t*y or t/y at the edge of the type range, random ones. cp: predicates (comparison or AND of comparisons) over a,b,c:Int64 of arithmetic "
                "depth <= 2 (20% with * and /), ranges of <= 9 values, one-sided, unbounded or touching MIN/MAX, given range TRUE (7/8) or FALSE; up to 12^3 assignments. "
                "non-trivial = arith: a bounded side in the result and >= 1 representable sampled result; satisfy_greater/propagate_*: >= 1 feasible sampled pair; "
                "cp: Success with >= 1 satisfying sampled assignment; cmp/set: a decided (not UNCERTAIN) answer",
        "case_kinds": kinds,
        "oracle_failures_by_finding": fails,
        "overflow_edge_arith_cases": overflow_edge,
        "cp_results": results,
        "panics_reported_as_data": panics,
        "traces_validated_against_impl": len(corr),
        "samples": [cases[WITNESSES], next((c for c in cp if c["result"] == "Success"), None)],
        "trusted_base": vlib.TRUSTED_COMMON + [
            "the oracle's exact i128 arithmetic over SAMPLED member values (exhaustive only for intervals of <= 24 members)",
            "ExprIntervalGraph (DAG construction, traversal order), Float64 directed rounding, unsigned/decimal/temporal types: oracle only, no theorem",
            "arrow's checked integer kernels behind ScalarValue::{add,sub,mul}_checked / div are modelled as exact Z arithmetic with a range check"],
    })
    ck.assumptions = ["signed integer types only (Int8/Int32/Int64 run, the model is parametric in MAX); endpoints of an interval are values of the type",
                      "division theorems exclude operands with upper endpoint 0 reaching below 0, multiplication theorems exclude zero-straddling operands whose endpoint "
                      "products overflow, propagation theorems cover +,- (arithmetic) and a TRUE parent (comparison): on the excluded inputs the implementation is unsound "
                      "(known findings C23-F1..F4, *_refuted theorems)"]
    return ck.finish()
