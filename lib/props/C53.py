"""C53 -- reported row-count metrics equal the rows actually produced.  Verified monitor (E5) + counting-wrapper theorems.  Tie: X."""
import json
import os

import vlib
from vlib import Check, zlit, coq_bool


def r_poll(e):
    if e == "P":
        return "Pending"
    if e == "E":
        return "ReadyErr"
    if e == "N":
        return "ReadyNone"
    return "ReadyBatch %s" % zlit(e["B"])


def render_poll(c):
    obs = "; ".join("(%s, %s, %s, %s)" % (zlit(o[0]), zlit(o[1]), coq_bool(o[2]), r_poll(o[3])) for o in c["obs"])
    return "C53Poll [%s] [%s] (%s, %s)" % ("; ".join(r_poll(e) for e in c["hist"]), obs, zlit(c["after_drop"][0]), coq_bool(c["after_drop"][1]))


def node_full(n):
    return all(n["exec"][p] == 0 or n["ended"][p] for p in range(len(n["cnt"])))


def r_obs(nodes, i):
    n = nodes[i]
    rep = "None" if n["rep"] is None else "(Some %s)" % zlit(n["rep"])
    return "(Node %s [%s] %s [%s])" % (rep, "; ".join(zlit(x) for x in n["cnt"]), coq_bool(node_full(n)),
                                        "; ".join(r_obs(nodes, k) for k in n["kids"]))


def render_plan(c):
    return "C53Plan %s %s" % (r_obs(c["nodes"], c["root"]), coq_bool(not c["bad"]))


def classify(c):
    """stable key for a failing plan: the operator(s) whose report is wrong, with the direction"""
    parts = []
    for i in c["bad"]:
        n = c["nodes"][i]
        s = sum(n["cnt"])
        d = "over" if n["rep"] > s else "under"
        if n["rep"] == 2 * s:
            d = "double"
        parts.append("%s:%s" % (n["name"], d))
    if not parts:
        return "C53-root-count-differs-from-collected-rows"
    return "C53-" + "+".join(sorted(set(parts)))


def run(pid, tier, seed, replay):
    ck = Check(pid, tier, seed, level="exploration")
    n = 400 if tier == "quick" else 6000
    ck.proof_step(extra_targets=["Model/MetricsCount.vo"])
    ok, out, dt = vlib.cargo_build("h_core", bin="c53")
    ck.log("cargo build: ok=%s (%.0fs)" % (ok, dt))
    if not ok:
        ck.problem("tie", "harness build failed:\n" + out[-3000:])
        return ck.finish()
    rc, so, se, dt = vlib.run_bin("c53", ["--seed", seed, "--n", n], timeout=2400)
    cases = vlib.jsonl(so)
    if rc != 0:
        ck.problem("tie", "harness ended abnormally rc=%d: %s" % (rc, se[-1500:]))
    if not cases:
        ck.problem("tie", "harness printed no cases")
        return ck.finish()
    polls = [c for c in cases if c["k"] == "poll"]
    plans = [c for c in cases if c["k"] == "plan"]
    ran = [c for c in plans if c.get("status") == "ok"]
    status = {}
    for c in plans:
        s = c.get("status", "?")
        s = "panic" if s.startswith("panic") else s
        status[s] = status.get(s, 0) + 1
    ck.log("harness: %d poll histories, %d plans (%s) (%.1fs)" % (len(polls), len(plans), status, dt))
    for c in polls:
        if not c["ok"]:
            ck.fail_input("BaselineMetrics::record_poll: counter / pass-through / end time wrong after a poll history",
                          {"hist": c["hist"], "obs": c["obs"], "after_drop": c["after_drop"]})
    for c in ran:
        if not c["ok"]:
            key = classify(c)
            bad = [{"node": c["nodes"][i]["name"], "reported": c["nodes"][i]["rep"], "reported_per_partition": c["nodes"][i]["rep_pp"],
                    "counted_per_partition": c["nodes"][i]["cnt"]} for i in c["bad"]]
            ck.fail_input("reported output_rows differs from the rows that left the operator (consumed in full): " + key,
                          {"id": c["id"], "stream": c["stream"], "desc": c["desc"], "tp": c["tp"], "bs": c["bs"], "opts": c["opts"],
                           "seed": seed, "wrong": bad, "total_rows": c.get("total")}, key=key)
    # correspondence: Coq state machine vs real record_poll, Coq monitor vs the harness's own verdict
    pre = "From DF Require Import Base.Prelude Model.MetricsCount.\nOpen Scope Z_scope."
    terms = [render_poll(c) for c in polls] + [render_plan(c) for c in ran]
    bad, log, dt = vlib.coq_eval_cases(pre, "c53_case", "c53_check", terms, shard=max(150, len(terms) // 4 + 1), tag="c53")
    ck.log("correspondence: %d poll histories + %d plan observations, %d disagreements (%.1fs)" % (len(polls), len(ran), len(bad), dt))
    if bad:
        first = bad[0]
        ck.problem("tie", "Coq model/monitor and harness disagree on %d cases; first: %s"
                   % (len(bad), (terms[first] if isinstance(first, int) else log)[:1500]))
    ops = {}
    checked = 0
    early = 0
    nometric = {}
    for c in ran:
        early += len(c["early"])
        for nd in c["nodes"]:
            if nd["rep"] is None:
                nometric[nd["name"]] = nometric.get(nd["name"], 0) + 1
            elif node_full(nd):
                checked += 1
                ops[nd["name"]] = ops.get(nd["name"], 0) + 1
    spilled = {}
    for c in ran:
        for nd in c["nodes"]:
            if nd.get("spill", [0, 0])[0] > 0:
                spilled[nd["name"]] = spilled.get(nd["name"], 0) + 1
    nt = {vlib.case_hash([c["desc"], c["tp"], c["bs"], c["opts"]]) for c in ran
          if len(c["nodes"]) >= 3 and any(sum(nd["cnt"]) > 0 for nd in c["nodes"])}
    nt |= {vlib.case_hash(c["hist"]) for c in polls if any(isinstance(e, dict) and e["B"] > 0 for e in c["hist"])}
    streams = {}
    for c in ran:
        s = c["stream"].split(":")[0]
        streams[s] = streams.get(s, 0) + 1
    ck.coverage.update({
        "evaluations": len(cases),
        "distinct_nontrivial": len(nt),
        "rule": "plans: C01-generator SQL (19 streams), a 58-statement SQL corpus (joins of every kind incl. semi/anti/mark, aggregates, grouping sets, "
                "windows, unnest, limits/offsets, set operations) under 9 option sets x target_partitions {1,2,3,4} x batch_size {1,2,3,8192}, and randomly "
                "composed operator trees (depth 1-4) of filter / projection / local+global limit with skip / sort with fetch / sort-preserving merge / "
                "repartition round-robin, hash, order-preserving / coalesce batches, partitions / union / hash join CollectLeft, Partitioned / sort-merge / "
                "nested-loop / cross join with all 10 join types / aggregate single, partial+final, a third of them under a 600..12000 byte memory pool "
                "(spilling repartitions / joins; plans that run out of memory are skipped); non-trivial = at least 3 operators and some rows flowing. "
                "poll histories: up to 11 events of Pending / batch of {0,1,2,3,7,100,8192} rows / Err / None; non-trivial = delivers rows",
        "plan_status": status,
        "plans_by_source": streams,
        "operator_nodes_checked": checked,
        "operator_kinds_checked": ops,
        "operators_without_output_rows_metric": nometric,
        "operator_nodes_that_spilled(memory-limited trees)": spilled,
        "mismatches_on_nodes_not_consumed_in_full(not failures)": early,
        "traces_validated_against_impl": len(terms) - len(bad),
        "samples": [polls[0] if polls else None,
                    {"desc": ran[0]["desc"], "nodes": [[nd["name"], nd["rep"], nd["cnt"]] for nd in ran[0]["nodes"]]} if ran else None],
        "trusted_base": vlib.TRUSTED_COMMON + [
            "the counting pass-through node inserted above every operator by the harness (planzoo::CountExec) is the measurement of 'rows actually produced'",
            "which operator wires which wrapper is code structure: explored with the verified monitor as oracle, not proved"],
    })
    ck.assumptions = ["an operator's output counts as consumed in full when every executed partition of it was polled to Ready(None)",
                      "usize counters do not wrap",
                      "spill metrics (spilled_rows) are recorded but not compared with the spill files' contents"]
    ck.notes.append("level exploration: theorems cover BaselineMetrics::record_poll (exact tie on poll histories) and the monitor; "
                    "operators are judged by the monitor on executed plans")
    return ck.finish()
