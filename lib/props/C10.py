"""C10 -- Repartitioning delivers every row exactly once to the right partition.  Tie: X.
(a) BatchPartitioner::partition_iter (hash / round robin / range) against the model, output for output;
(b) RepartitionExec end to end against the model's per-(input, output) routed streams."""
import json
import os
import vlib
from vlib import Check, zlit, coq_bool


def r_cell(c):
    if c is None:
        return "None"
    return "(Some [%s])" % "; ".join(zlit(v) for v in c)


def r_key(k):
    return "[%s]" % "; ".join(r_cell(c) for c in k)


def r_opts(os_):
    return "[%s]" % "; ".join("{| s_desc := %s; s_nulls_first := %s |}" % (coq_bool(o[0]), coq_bool(o[1])) for o in os_)


def r_obs(obs):
    return "[%s]" % "; ".join("(%s, %s)" % (zlit(p), vlib.zlist(ids)) for p, ids in obs)


def r_scheme(s):
    if s["t"] == "hash":
        return "(SHash %d%%nat)" % s["n"]
    if s["t"] == "rr":
        return "(SRoundRobin %s)" % zlit(s["n"])
    return "(SRange %s [%s])" % (r_opts(s["os"]), "; ".join(r_key(k) for k in s["sps"]))


def r_row(r):
    return "{| xkey := %s; xhash := %s; xid := %s |}" % (r_key(r[0]), zlit(r[1]), zlit(r[2]))


def render(c):
    k = c["k"]
    if k == "hash":
        return "CHash %s %s %s" % (zlit(c["n"]), vlib.zlist(c["hashes"]), r_obs(c["obs"]))
    if k == "range":
        s = c["scheme"]
        return "CRange %s [%s] [%s] %s" % (r_opts(s["os"]), "; ".join(r_key(x) for x in s["sps"]),
                                           "; ".join(r_key(x) for x in c["keys"]), r_obs(c["obs"]))
    if k == "rr":
        return "CRoundRobin %s %s %s %s" % (zlit(c["n"]), zlit(c["i"]), zlit(c["m"]), vlib.zlist(c["obs"]))
    ins = "[%s]" % "; ".join("[%s]" % "; ".join("[%s]" % "; ".join(r_row(r) for r in b) for b in inp) for inp in c["inputs"])
    obs = "[%s]" % "; ".join("None" if o is None else "(Some %s)" % vlib.zlist(o) for o in c["obs"])
    return "CExch %s %s %s %s %s" % (r_scheme(c["scheme"]), coq_bool(c["preserve"]), coq_bool(c["ordered"]), ins, obs)


KF_HANG = "C10-hang-shared-spill-pool"


def fail_key(c):
    """stable key of the input class a finding would be listed under"""
    k = c["k"]
    if (k == "exch" and c.get("why", "").startswith("hang") and not c.get("preserve") and c.get("mem") is not None
            and c.get("m", 0) >= 2 and c.get("workers", 0) >= 2 and c.get("spills", 0) > 0):
        # non-preserve-order, several inputs, memory-limited (batches really spilled), more than one worker thread:
        # the shared multi-producer spill pool can hold a spilled batch in a second open file that the reader cannot reach
        return KF_HANG
    if k == "exch":
        return "exch/%s/preserve=%s/mem=%s/drops=%s: %s" % (c.get("scheme", {}).get("t"), c.get("preserve"),
                                                          "limited" if c.get("mem") is not None else "none",
                                                          any(d is not None for d in c.get("drops", [])),
                                                          c.get("why", "")[:40])
    return "%s: %s" % (k, c.get("why", "")[:60])


def slim(c):
    d = dict(c)
    for f in ("keys", "hashes"):
        if f in d and len(json.dumps(d[f])) > 1500:
            d[f] = "(%d entries; rerun with VERIF_SEED to regenerate)" % len(d[f])
    return d


def run(pid, tier, seed, replay):
    if replay:
        try:
            seed = int(json.load(open(replay)).get("seed", seed))
        except Exception:
            pass
    ck = Check(pid, tier, seed, level="proof")
    n = 100 if tier == "quick" else 2500
    n = int(os.environ.get("C10_N", n))          # development / mutation testing only
    ck.proof_step(extra_targets=["Model/Repartition.vo"])
    ok, out, dt = vlib.cargo_build("h_physplan", bin="c10")
    ck.log("cargo build: ok=%s (%.0fs)" % (ok, dt))
    if not ok:
        ck.problem("tie", "harness build failed:\n" + out[-3000:])
        return ck.finish()
    rc, so, se, dt = vlib.run_bin("c10", ["--seed", seed, "--n", n], timeout=3000)
    cases = vlib.jsonl(so)
    if rc != 0:
        ck.problem("tie", "harness ended abnormally rc=%d: %s" % (rc, se[-1500:]))
    if not cases:
        ck.problem("tie", "harness printed no cases")
        return ck.finish()
    by = {}
    for c in cases:
        by.setdefault(c["k"], []).append(c)
    ck.log("harness: %s (%.1fs)" % (", ".join("%d %s" % (len(v), k) for k, v in sorted(by.items())), dt))
    for c in cases:
        if not c["ok"]:
            ck.fail_input("repartition (%s): %s" % (c["k"], c.get("why", "")), slim(c), key=fail_key(c))
    # correspondence: everything the oracle accepted and that carries an observation
    good = [c for c in cases if c["ok"] and "obs" in c]
    pre = ("From DF Require Import Base.Prelude Model.Repartition.\nImport ListNotations.\nOpen Scope Z_scope.")
    bad, log, dt = vlib.coq_eval_cases(pre, "c10_case", "c10_check", [render(c) for c in good], shard=60, timeout=1500, tag="c10")
    ck.log("correspondence: %d cases, %d disagreements (%.1fs)" % (len(good), len(bad), dt))
    if bad:
        first = bad[0]
        ck.problem("tie", "model and implementation disagree on %d cases; first: %s"
                   % (len(bad), json.dumps(slim(good[first]))[:2500] if isinstance(first, int) else log[-2500:]))
    ex = by.get("exch", [])
    nt = set()
    for c in by.get("hash", []):
        if len(c["obs"]) >= 2:
            nt.add(vlib.case_hash([c["n"], c["hashes"]]))
    for c in by.get("range", []):
        if len(c.get("obs", [])) >= 2:
            nt.add(vlib.case_hash([c["scheme"], c["keys"]]))
    for c in by.get("rr", []):
        if len(c["obs"]) > c["n"] > 1:
            nt.add(vlib.case_hash([c["n"], c["i"], c["m"], len(c["obs"])]))
    for c in ex:
        if c.get("read_full", 0) >= 1 and sum(len(o) for o in c["obs"] if o is not None) >= 2 and len(c["obs"]) >= 2:
            nt.add(vlib.case_hash([c["scheme"], c["inputs"], c["preserve"], c["batch_size"], c["mem"], c["drops"]]))

    def cnt(pred):
        return sum(1 for c in ex if pred(c))
    ck.coverage.update({
        "evaluations": len(cases),
        "distinct_nontrivial": len(nt),
        "rule": "(a) hash: partition counts {1..9,16,17,64} (each once as a fixed witness, then random), 1-3 key columns out of "
                "(Int64, Utf8, Int64) in random order, NULLs 0-90%, value domains 1..1000 + i64 extremes, 0..40 rows, 1-3 batches per "
                "partitioner; range: 0..8 split points (10% deliberately unsorted through RangePartitioning::new: tie only), per-column "
                "(descending, nulls_first), NULL cells in keys and split points, RangeExpr::evaluate compared with the router; round "
                "robin: n 1..9, (input_partition, num_input_partitions) with m 1..7, 0..13 batches incl. empty ones. (b) 1-4 inputs x 0-5 "
                "batches (0..30 rows, empty batches) x hash/round-robin/range x 1..8 outputs x preserve_order (sorted inputs) x batch_size "
                "{1,2,3,5,16,8192} x memory pool {none,1,300,1500,6000 bytes} x per-output early drop after 0..2 batches x tokio workers "
                "{1,2,4}, every configuration run 2-3 times; one configuration in three is drop-heavy (2-4 inputs x 8-20 small batches, batch_size 1..4, "
                "2..5 outputs of which at least one hangs up after 1-2 batches while at least one is read to the end). First 3 runs: the fixed witness "
                "of known finding KF-C10-1. non-trivial = rows landed in >= 2 partitions (a) / round robin wrapped around / "
                "(b) >= 2 outputs, >= 2 rows read, at least one output read to the end; counted by distinct input+configuration",
        "by_kind": {k: len(v) for k, v in sorted(by.items())},
        "exchange": {
            "runs": len(ex),
            "preserve_order": cnt(lambda c: c.get("preserve")),
            "with_spills": cnt(lambda c: c.get("spills", 0) > 0),
            "memory_limited": cnt(lambda c: c.get("mem") is not None),
            "with_early_drop": cnt(lambda c: any(d is not None for d in c.get("drops", []))),
            "tolerated_resource_errors": cnt(lambda c: c.get("errs", 0) > 0 and c["ok"]),
            "multi_input_unordered": cnt(lambda c: not c.get("ordered", True)),
            "hangs_known_finding": cnt(lambda c: not c["ok"] and fail_key(c) == KF_HANG),
        },
        "traces_validated_against_impl": len(good),
        "samples": [slim(by[k][0]) for k in ("hash", "range", "rr") if k in by] + ([{kk: vv for kk, vv in ex[0].items() if kk != "inputs"}] if ex else []),
        "trusted_base": vlib.TRUSTED_COMMON + [
            "create_hashes (row hash of the key columns) is an input of the model, printed by the harness with REPARTITION_RANDOM_STATE; "
            "hash mod n is C11's generated kernel + theorem",
            "distributor channels / spill pool / coalescer are abstracted as exactly-once FIFO queues in the exchange theorem (C15, C16 own them); "
            "end to end they are only differential-tested here, on sampled thread schedules (tokio workers 1/2/4), not enumerated ones",
            "Arrow take/slice and ScalarValue comparison of Int64/Utf8 are trusted to be index selection and integer / bytewise order"],
    })
    ck.assumptions = [
        "partition counts and hashes fit their machine types (1 <= n < 2^64, usize arithmetic of the round-robin start does not overflow)",
        "keys are Int64 / Utf8 (values compared as integers / byte strings); other ScalarValue types (floats, nested) are outside the model",
        "in non-preserve-order mode with several inputs the shared per-output coalescer may reorder rows of one input relative to each other "
        "(documented: unordered multiset); per-(input, output) order is therefore only claimed and tested for preserve_order or a single input",
        "an output that errors because a tiny memory pool refuses the unspillable merge reservation (Resources exhausted) is not a violation",
    ]
    return ck.finish()
