"""C43 -- configuration options round-trip through their text form.  Tie: T (enum + key tables) + X."""
import json
import os
import sys
import vlib
from vlib import Check, coq_bool

TRANSLATOR = "translators/rs_config_enums2coq.py"
CFG_ID = {"session": 0, "csv": 1, "json": 2, "parquet": 3}

KF_OPTION = "C43-rejected-set-on-unset-Option-field-leaves-default-inserted"
KF_TRAIL = "C43-key-with-extra-trailing-segment-accepted-by-scalar-field"
KF_COLUMN = "C43-rejected-column-specific-set-leaves-new-column-entries"


def is_ascii(s):
    return s is None or all(ord(c) < 128 for c in s)


def blist(s):
    return "[" + "; ".join(str(b) for b in s.encode("utf-8")) + "]"


def bopt(s):
    return "None" if s is None else "(Some %s)" % blist(s)


def render(c):
    if not c["listed"]:
        return "CAcc %d %s %s %s" % (CFG_ID[c["cfg"]], blist(c["key"]), blist(c["text"]), coq_bool(c["res"] == "ok"))
    return "CSet %d %s %s %s %s %s" % (CFG_ID[c["cfg"]], blist(c["key"]), bopt(c["pre"]), blist(c["text"]),
                                     coq_bool(c["res"] == "ok"), bopt(c["post"]))


def classify(c, listed_keys):
    """known-finding class of a failing `set` case, or None"""
    key = c["key"]
    if c["res"] == "err" and "::" in key:
        col = key[key.index("::"):]
        if c["changed"] and all(k.endswith(col) for k in c["changed"]) or (c["post"] is not None and c["pre"] is None and not c["changed"]):
            return KF_COLUMN
    if c["res"] == "err" and c["listed"] and c["pre"] is None and "::" not in key:
        nested = all(k.startswith(key + ".") for k in c["changed"])
        if nested and (c["post"] in ("0", "false", "") or (c["post"] is None and c["changed"])):
            return KF_OPTION
    if c["res"] == "ok" and not c["listed"] and "::" not in key:
        owners = [k for k in listed_keys if key.startswith(k + ".")]
        if len(owners) == 1 and set(c["changed"]) <= set(owners) and c["why"].startswith("set succeeded on a key"):
            return KF_TRAIL
    return None


def run(pid, tier, seed, replay):
    ck = Check(pid, tier, seed, level="proof")
    n, hist = (2, 6) if tier == "quick" else (150, 500)
    # ---- T: regenerate the enum tables and the key -> domain tables from the current source
    info_path = os.path.join(vlib.BUILD, "c43_info.json")
    rc, out, _ = vlib.sh([sys.executable, os.path.join(vlib.VERIF, TRANSLATOR), vlib.REPO,
                          os.path.join(vlib.COQ, "Gen/ConfigEnums.v"), "--json", info_path])
    ck.log("translator: " + out.strip()[-300:])
    translated = rc == 0
    if not translated:
        ck.problem("translator", "rs_config_enums2coq.py could not translate the config sources (fails closed): %s" % out.strip()[-600:])
    # (when the translator fails closed, the tables of the last good translation are still used for the correspondence,
    #  so that a changed domain is also reported with a concrete input)
    info = json.load(open(info_path)) if os.path.exists(info_path) else {"tables": {}, "unmodelled": {}, "enums": []}
    # ---- proofs over the regenerated tables
    proof_ok = ck.proof_step()
    # ---- build + run the implementation
    ok, out, dt = vlib.cargo_build("h_core", bin="c43")
    ck.log("cargo build h_core: ok=%s (%.0fs)" % (ok, dt))
    if not ok:
        ck.problem("tie", "harness build failed:\n" + out[-3000:])
        return ck.finish()
    rc, so, se, dt = vlib.run_bin("c43", ["--seed", seed, "--n", n, "--hist", hist])
    cases = vlib.jsonl(so)
    if rc != 0:
        ck.problem("tie", "harness ended abnormally rc=%d: %s" % (rc, se[-1500:]))
    if not cases:
        return ck.finish()
    keys = {c["cfg"]: c for c in cases if c["k"] == "keys"}
    sets = [c for c in cases if c["k"] == "set"]
    sqls = [c for c in cases if c["k"] == "sql"]
    ck.log("harness: %d set cases, %d sql cases, keys %s (%.1fs)"
           % (len(sets), len(sqls), {k: v["n"] for k, v in keys.items()}, dt))
    # ---- direct property oracle (independent of the model)
    nfail = {}
    for c in cases:
        if c.get("ok", True):
            continue
        if c["k"] == "set":
            key = classify(c, keys[c["cfg"]]["keys"])
            nfail[key] = nfail.get(key, 0) + 1
            if key and nfail[key] > 3:
                continue            # the class is recorded; keep the replay file small
            small = {k: c[k] for k in ("cfg", "key", "text", "pre", "res", "err", "post", "changed", "fix", "hist")}
            ck.fail_input("%s.set(%r, %r): %s" % ("ConfigOptions" if c["cfg"] == "session" else "TableOptions[%s]" % c["cfg"],
                                                  c["key"], c["text"], c["why"]), small, key=key)
        elif c["k"] == "sql":
            ck.fail_input("SQL path: %s -- %s" % (c["stmt"], c["why"]), c)
        else:
            ck.fail_input("panic in %s: %s" % (c.get("desc"), c.get("why")), c)
    if nfail:
        ck.log("oracle failures by class: %s" % nfail)
    # ---- correspondence with the model, for every key whose domain is modelled
    par = None
    for c in sets:
        if c["cfg"] == "session" and c["key"] == "datafusion.execution.target_partitions" and c["hist"] == 0 and c["pre"]:
            par = int(c["pre"])
            break
    tables = {cfg: {r[0]: r[1] for r in rows} for cfg, rows in info["tables"].items()}
    unm = {cfg: sorted(k for k in keys[cfg]["keys"] if k not in tables.get(cfg, {})) for cfg in keys}
    corr, seen, skipped_nonascii = [], set(), 0
    for c in sets:
        cfg, key = c["cfg"], c["key"]
        if c["listed"]:
            if key not in tables.get(cfg, {}):
                continue                      # unmodelled domain (f64, crypto, column-specific): oracle only
        elif cfg != "session":
            continue
        elif any(key.startswith(k) for k in unm["session"]):
            continue
        if not (is_ascii(c["text"]) and is_ascii(c["pre"]) and is_ascii(c["post"]) and is_ascii(key)):
            skipped_nonascii += 1
            continue
        sig = (cfg, tables.get(cfg, {}).get(key, key), c["pre"], c["text"], c["res"], c["post"])
        first_of_key = (cfg, key) not in seen
        seen.add((cfg, key))
        if sig in seen and not first_of_key:
            continue
        seen.add(sig)
        corr.append(c)
    if proof_ok and par and info["tables"]:
        pre = ("From DF Require Import Base.Prelude Model.ConfigText Gen.ConfigEnums.\nOpen Scope Z_scope.\n"
               "Definition tbl_of (c : Z) := if c =? 0 then session_keys %d else if c =? 1 then csv_keys %d "
               "else if c =? 2 then json_keys %d else parquet_keys %d." % (par, par, par, par))
        bad, log, dt = vlib.coq_eval_cases(pre, "c43_case", "c43_check tbl_of", [render(c) for c in corr], shard=max(600, len(corr) // 16 + 1), tag="c43")
        ck.log("correspondence: %d cases (deduplicated from %d), %d disagreements (%.1fs)" % (len(corr), len(sets), len(bad), dt))
        for b in bad[:5]:
            if isinstance(b, int):
                c = corr[b]
                ck.fail_input("text domain of %s (%s) differs from the modelled domain %s: text %r -> %s, printed %r"
                              % (c["key"], c["cfg"], tables.get(c["cfg"], {}).get(c["key"], "<unlisted key>"), c["text"], c["res"], c["post"]),
                              {k: c[k] for k in ("cfg", "key", "text", "pre", "res", "err", "post")})
        if bad:
            first = bad[0]
            ck.problem("tie", "model and implementation disagree on %d case(s); first: %s"
                       % (len(bad), str(corr[first] if isinstance(first, int) else log)[:900]))
    elif not par:
        ck.problem("tie", "harness did not report the default of datafusion.execution.target_partitions")
    # ---- coverage
    acc = [c for c in sets if c["res"] == "ok"]
    nt = {vlib.case_hash([c["cfg"], c["key"], c["text"]]) for c in sets
          if (c["res"] == "ok" and c["post"] != c["text"]) or (c["res"] == "ok" and c["post"] != c["pre"])
          or (c["res"] == "err" and c["text"].strip() not in ("", "junk"))}
    sample = [c for c in sets if c["res"] == "ok" and c["post"] not in (c["text"], c["pre"]) and c["ok"]]
    ck.coverage.update({
        "evaluations": len(sets) + len(sqls),
        "distinct_nontrivial": len(nt),
        "rule": "every key of ConfigOptions::new().entries() and of TableOptions (CSV / JSON / PARQUET format).entries() is enumerated at run time; "
                "each gets (1) its printed default set back, (2) a type-independent pool of ~%d texts (bool / integer boundaries of u8,u32,i32,i64,u64, '+5', '007', "
                "overflow, signs, whitespace, floats, every enum spelling incl. mixed case and aliases, category lists, non-ASCII whose case mapping is ASCII, junk) "
                "plus seeded random texts, (3) malformed / unlisted keys, (4) random histories of sets from non-default states followed by the round trip of "
                "every printed entry; SQL: SET k = 'v' + SHOW k on a fresh SessionContext vs ConfigOptions::set for every session key. "
                "non-trivial = distinct (configuration, key, text) where an accepted text was canonicalised or changed the value, or a non-blank text was rejected"
                % (len({c["text"] for c in sets if c["hist"] == 0 and c["cfg"] == "json"})),
        "keys_enumerated": {k: v["n"] for k, v in keys.items()},
        "keys_without_text_by_default": {k: v["none"] for k, v in keys.items()},
        "accepted": len(acc), "rejected": len(sets) - len(acc), "sql_cases": len(sqls),
        "history_steps": sum(1 for c in sets if c["hist"] > 0),
        "traces_validated_against_impl": len(corr),
        "tie_skipped_non_ascii": skipped_nonascii,
        "unmodelled_keys": unm,
        "available_parallelism": par,
        "oracle_failures_by_class": {str(k): v for k, v in nfail.items()},
        "translator": {"enums": [e["name"] for e in info["enums"]], "spellings": sum(len(e["accept"]) for e in info["enums"]),
                       "keys_modelled": {k: len(v) for k, v in tables.items()}},
        "samples": [{k: c[k] for k in ("cfg", "key", "text", "pre", "res", "post", "fix")} for c in sample[:3]]
                   + [{k: c[k] for k in ("key", "text", "stmt", "api", "sql", "post", "shown")} for c in sqls[:1]],
        "trusted_base": vlib.TRUSTED_COMMON + [
            "translators/rs_config_enums2coq.py (regex translator of FromStr/Display match blocks, dialect_metadata! and config_namespace! blocks; fails closed; "
            "hand-modelled blocks pinned by hash; cross-checked by the correspondence on every enumerated key)",
            "Rust's Unicode to_lowercase/to_uppercase/trim agree with the model's ASCII versions on ASCII text (non-ASCII inputs: direct oracle only); usize = u64",
            "f64-valued options, encryption properties, column-specific parquet options: direct oracle only"],
    })
    ck.assumptions = ["theorems are about the model: domains bool, unsigned/signed integers with the type's range, the usize wrappers, parallelism, u8, String, "
                      "generated enum tables, category lists, Option<F>; wf_dom / valid hypotheses are discharged for every generated key table (C43_generated_tables_wf)",
                      "the umbrella key enable_dynamic_filter_pushdown assigns its four dependants by design: its side effects are checked by the oracle, not modelled"]
    return ck.finish()
