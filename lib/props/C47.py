"""C47 -- mixed-type comparisons are order-independent and exact for integers (and decimals).
Tie: X (correspondence): the Gallina model Model/NumCoerce.v is compared with the real
comparison_coercion and with real coerced+planned+evaluated comparisons on every observation."""
import os
import vlib
from vlib import Check, zlit, coq_bool

INTS = ["I8", "I16", "I32", "I64", "U8", "U16", "U32", "U64"]
FLOATS = ["F16", "F32", "F64"]
OPN = ["OEq", "ONe", "OLt", "OLe", "OGt", "OGe"]
OPS = [lambda x, y: x == y, lambda x, y: x != y, lambda x, y: x < y,
       lambda x, y: x <= y, lambda x, y: x > y, lambda x, y: x >= y]
MIRROR = [0, 1, 4, 5, 2, 3]
OPSYM = ["=", "<>", "<", "<=", ">", ">="]

# the one class of wrong answers present in the unchanged tree (see Props/C47.v C47_decimal_vs_integer_refuted);
# the string is the key under which it can be listed in known_findings.json
KEY_TRUNC = ("C47-F1 Decimal32/Decimal64 compared with Int32/Int64/UInt32/UInt64 is coerced to the INTEGER type "
             "(decimal_coercion has no decimal wide enough, numerical_coercion then matches its integer arm): "
             "the decimal operand is truncated before the comparison, e.g. Decimal32(5,2) 1.50 = Int32 1 is true")


KEY_WRAP = ("C47-F2 (builds without overflow checks, i.e. --release) Decimal256(p1,s1) vs Decimal256(p2,s2) with p1 + (max(s1,s2) - s1) >= 128: "
            "arrow-cast make_upscaler computes `(input_precision as i8) + delta_scale` in i8, the sum wraps negative, the cast is treated as "
            "infallible (mul_wrapping, no precision check) and the comparison returns a wrong answer instead of an error, "
            "e.g. Decimal256(76,0) 6 < Decimal256(76,76) 0.5 is true")


def modelled(t):
    return t is not None and not t.startswith("X:") and t != "PANIC"


def coq_ty(t):
    if t == "Null":
        return "TNull"
    if t in INTS:
        return "(TInt %s)" % t
    if t in FLOATS:
        return "(TFloat %s)" % t
    v, p, s = t.split(":")
    return "(TDec %s %s %s)" % (v, zlit(p), zlit(s))


def coq_opt_ty(t):
    return "None" if t is None else "(Some %s)" % coq_ty(t)


def scale(t):
    return int(t.split(":")[2]) if t.startswith("D") else 0


def sql_ty(t):
    names = {"I8": "Int8", "I16": "Int16", "I32": "Int32", "I64": "Int64", "U8": "UInt8", "U16": "UInt16",
             "U32": "UInt32", "U64": "UInt64"}
    if t in names:
        return names[t]
    v, p, s = t.split(":")
    return "Decimal%s(%s, %s)" % (v[1:], p, s)


def sql_val(t, v):
    s = scale(t)
    if s == 0:
        return str(v)
    sign = "-" if v < 0 else ""
    d = str(abs(v)).rjust(s + 1, "0")
    return "%s%s.%s" % (sign, d[:-s], d[-s:])


def sql_of(a, x, b, y, op):
    return "SELECT arrow_cast(%s, '%s') %s arrow_cast(%s, '%s')" % (sql_val(a, x), sql_ty(a), OPSYM[op], sql_val(b, y), sql_ty(b))


def out_term(r):
    if "res" in r:
        return "OutRes [%s]" % "; ".join(coq_bool(b) for b in r["res"])
    if r.get("panic"):
        return "OutPanic"
    return "OutCastErr"


def ts_equal_ignoring_tz(x, y):
    # Timestamp(unit, tz): with two different time zones the code keeps the LEFT zone; both denote the
    # same instants, so only the unit has to agree
    if x and y and x.startswith("X:Timestamp(") and y.startswith("X:Timestamp("):
        return x.split(",")[0] == y.split(",")[0]
    return False


def run(pid, tier, seed, replay):
    ck = Check(pid, tier, seed, level="proof")
    n = 2000 if tier == "quick" else 30000
    proof_ok = ck.proof_step(extra_targets=["Model/NumCoerce.vo"])
    ok, out, dt = vlib.cargo_build("h_expr", bin="c47")
    ck.log("cargo build h_expr: ok=%s (%.0fs)" % (ok, dt))
    if not ok:
        ck.problem("tie", "harness build failed:\n" + out[-3000:])
        return ck.finish()
    rc, so, se, dt = vlib.run_bin("c47", ["--seed", seed, "--n", n])
    cases = vlib.jsonl(so)
    ck.log("harness: %d observations (%.1fs)" % (len(cases), dt))
    if rc != 0:
        ck.problem("tie", "harness run ended abnormally rc=%d: %s" % (rc, se[-1500:]))
    if not cases:
        return ck.finish()
    kinds = {}
    for c in cases:
        kinds[c["k"]] = kinds.get(c["k"], 0) + 1

    # ------------------------------------------------------------ direct property oracle (implementation only)
    nfail = {}

    def fail(cls, what, case, limit=4):
        nfail[cls] = nfail.get(cls, 0) + 1
        if nfail[cls] <= limit:
            ck.fail_input(what, case)

    ty_rows = [c for c in cases if c["k"] == "ty"]
    for c in ty_rows:
        if not c["ok"] and not ts_equal_ignoring_tz(c["r"], c["rev"]):
            fail("sym", "comparison_coercion(%s, %s) = %s but comparison_coercion(%s, %s) = %s"
                 % (c["a"], c["b"], c["r"], c["b"], c["a"], c["rev"]), c)
    cmp_rows = [c for c in cases if c["k"] == "cmp"]
    table = {}
    for c in cmp_rows:
        if "x" in c:
            table[(c["a"], c["b"], c["x"], c["y"])] = c
    wrong_trunc = 0
    for c in cmp_rows:
        if "x" not in c:
            continue                                   # plan error / plan panic line for the whole pair
        a, b, x, y = c["a"], c["b"], c["x"], c["y"]
        both_int = a in INTS and b in INTS
        if x is None or y is None:
            if c.get("res") != [None] * 6:
                fail("null", "comparison with a NULL operand did not give NULL: %s %s" % (a, b), c)
            continue
        if "res" in c:
            exp = [f(x * 10 ** scale(b), y * 10 ** scale(a)) for f in OPS]
            if c["res"] != exp:
                k = next(i for i in range(6) if c["res"][i] != exp[i])
                case = dict(c, expected=exp, sql=sql_of(a, x, b, y, k),
                            expr="col(l: %s) %s col(r: %s) with l=%s, r=%s" % (sql_ty(a), OPSYM[k], sql_ty(b), sql_val(a, x), sql_val(b, y)))
                if (not both_int) and c["ct"] in INTS:
                    wrong_trunc += 1
                    fail("trunc", KEY_TRUNC, case, limit=3)
                else:
                    fail("wrong", "%s gives %s, mathematically %s (operands coerced to %s)"
                         % (case["sql"], c["res"][k], exp[k], c["ct"]), case)
        elif both_int:
            fail("interr", "integer comparison %s x %s on (%s, %s) failed: %s" % (a, b, x, y, c.get("err")), c)
        # operands swapped + operator mirrored must give the same outcome
        m = table.get((b, a, y, x))
        if m is not None:
            same = (("res" in c) == ("res" in m)) and (("res" not in c) or all(c["res"][i] == m["res"][MIRROR[i]] for i in range(6)))
            if not same:
                fail("swap", "swapping operands and mirroring the operator changes the outcome: %s %s (%s, %s)" % (a, b, x, y),
                     {"row": c, "mirrored_row": m})
    for c in cases:
        if c["k"] == "lit" and not c["ok"]:
            fail("lit", "column-vs-literal comparison (after coercion + simplifier) is not the mathematical comparison: "
                 "%s %s literal=%s op=%s lit_left=%s" % (c["a"], c["b"], c["lit"], OPSYM[c["op"]], c["lit_left"]), c)
        if c["k"] == "inl" and not c["ok"]:
            fail("inl", "IN list on mixed integer types disagrees with pairwise equality: %s IN list of %s" % (c["a"], c["b"]), c)
    ck.log("oracle: failing classes %s (known decimal-vs-integer truncation rows: %d)" % (nfail, wrong_trunc))

    # ------------------------------------------------------------ thorough: the arithmetic of a --release build
    wrap_rows, wrong_wrap = [], 0
    if tier == "thorough":
        rcb, outb, dtb = vlib.sh(["cargo", "build", "--offline", "--profile", "nochk", "--bin", "c47"],
                                 cwd=os.path.join(vlib.HARNESS, "h_expr"), timeout=3000)
        ck.log("cargo build h_expr --profile nochk (no overflow checks): rc=%d (%.0fs)" % (rcb, dtb))
        if rcb != 0:
            ck.problem("tie", "nochk harness build failed:\n" + outb[-2000:])
        else:
            rcw, sow, dtw = vlib.sh([os.path.join(vlib.TARGET, "nochk", "c47"), "--seed", str(seed), "--mode", "wrap"], timeout=900)
            wrap_rows = [c for c in vlib.jsonl(sow) if c["k"] == "cmp"]
            ck.log("wrap run: %d observations (%.1fs)" % (len(wrap_rows), dtw))
            if rcw != 0 or not wrap_rows:
                ck.problem("tie", "wrap run ended abnormally rc=%d: %s" % (rcw, sow[-800:]))
            for c in wrap_rows:
                if "x" in c and "res" in c:
                    a, b, x, y = c["a"], c["b"], c["x"], c["y"]
                    exp = [f(x * 10 ** scale(b), y * 10 ** scale(a)) for f in OPS]
                    if c["res"] != exp:
                        k = next(i for i in range(6) if c["res"][i] != exp[i])
                        wrong_wrap += 1
                        fail("wrap", KEY_WRAP, dict(c, expected=exp, sql=sql_of(a, x, b, y, k), build="overflow-checks = false"), limit=3)
                if c.get("panic") or c.get("plan_panic"):
                    ck.problem("tie", "panic in the build without overflow checks: %s" % str(c)[:300])
            ck.log("wrap run: %d wrong answers (known class C47-F2)" % wrong_wrap)

    # ------------------------------------------------------------ correspondence: model vs observations
    terms, origin = [], []
    big_terms, big_origin = [], []

    def cmp_terms(rows_in, ctor):
        groups = {}
        for c in rows_in:
            groups.setdefault((c["a"], c["b"]), []).append(c)
        for (a, b), rows in groups.items():
            first = rows[0]
            if "x" not in first:
                o = "OutPanic" if first.get("plan_panic") else "OutPlanErr"
                big_terms.append("%s %s %s None [(0, 0, %s)]" % (ctor, coq_ty(a), coq_ty(b), o))
                big_origin.append(first)
                continue
            rows = [r for r in rows if r["x"] is not None and r["y"] is not None]
            ct = first["ct"]
            ctt = coq_opt_ty(ct) if modelled(ct) and "|" not in ct else "(Some TNull)"   # TNull never matches: flags it
            for i in range(0, len(rows), 50):
                chunk = rows[i:i + 50]
                big_terms.append("%s %s %s %s [%s]" % (ctor, coq_ty(a), coq_ty(b), ctt, "; ".join(
                    "(%s, %s, %s)" % (zlit(r["x"]), zlit(r["y"]), out_term(r)) for r in chunk)))
                big_origin.append({"a": a, "b": b, "ct": ct, "rows": chunk[:3], "nrows": len(chunk)})

    cmp_terms(cmp_rows, "CCmp")
    cmp_terms(wrap_rows, "CCmpWrap")
    for c in ty_rows:
        if modelled(c["a"]) and modelled(c["b"]) and (c["r"] is None or c["r"] == "PANIC" or modelled(c["r"])):
            pan = c["r"] == "PANIC"
            terms.append("CTy %s %s %s %s" % (coq_ty(c["a"]), coq_ty(c["b"]), "None" if pan else coq_opt_ty(c["r"]), coq_bool(pan)))
            origin.append(c)
    for c in cases:
        if c["k"] == "lit" and "res" in c and None not in c["res"]:
            terms.append("CLit %s %s %s %s %s %s [%s]" % (coq_ty(c["a"]), coq_ty(c["b"]), coq_bool(c["lit_left"]), zlit(c["lit"]),
                                                           OPN[c["op"]], vlib.zlist(c["vals"]), "; ".join(coq_bool(b) for b in c["res"])))
            origin.append(c)
        if c["k"] == "inl" and "res" in c and None not in c["res"]:
            terms.append("CInl %s %s %s %s %s [%s]" % (coq_ty(c["a"]), coq_ty(c["b"]), coq_bool(c["neg"]), vlib.zlist(c["xs"]),
                                                        vlib.zlist(c["list"]), "; ".join(coq_bool(b) for b in c["res"])))
            origin.append(c)
    if os.path.exists(os.path.join(vlib.COQ, "Model/NumCoerce.vo")):
        pre = "From DF Require Import Base.Prelude Model.NumCoerce.\nOpen Scope Z_scope."
        for (tt, oo, tag) in ((big_terms, big_origin, "c47cmp"), (terms, origin, "c47")):
            shard = max(8, -(-len(tt) // 16))          # 16 coqc processes per group (start-up cost dominates small shards)
            bad, log, dt = vlib.coq_eval_cases(pre, "c47_case", "c47_check", tt, shard=shard, tag=tag)
            ck.log("correspondence (%s): %d model evaluations, %d disagreements (%.1fs)" % (tag, len(tt), len(bad), dt))
            if bad:
                first = bad[0]
                detail = oo[first] if isinstance(first, int) else log
                ck.problem("tie", "model and implementation disagree on %d case(s); first: %s" % (len(bad), str(detail)[:900]))
    else:
        ck.problem("tie", "Model/NumCoerce.vo missing: correspondence not evaluated")

    mixed = {(c["a"], c["b"], c["x"], c["y"]) for c in cmp_rows if "x" in c and c["a"] != c["b"] and c["x"] is not None and c["y"] is not None}
    int_pairs = {(c["a"], c["b"]) for c in cmp_rows if c["a"] in INTS and c["b"] in INTS}
    sample_int = next(c for c in cmp_rows if c["a"] == "U64" and c["b"] == "I64" and c.get("x") == 18446744073709551615 and c.get("y") == -1)
    sample_dec = next((c for c in cmp_rows if c["a"].startswith("D128") and "res" in c and c["a"] != c["b"]), cmp_rows[-1])
    ck.coverage.update({
        "evaluations": len(cases),
        "distinct_nontrivial": len(mixed),
        "rule": "ty: comparison_coercion on ALL ordered pairs of {Null, 8 integer types, 3 float types, a 27-type valid decimal grid, "
                "8 odd decimals (negative scale, scale>precision, precision out of range), seeded random decimals, 20 non-numeric types}; "
                "cmp: the 64 ordered integer type pairs x (min, min+1, -1, 0, 1, max-1, max of BOTH types, one past the other type's range, "
                "2^53-1..2^53+1, seeded random values) x six operators through TypeCoercionRewriter + create_physical_expr + evaluate, plus NULL rows; "
                "decimal x {decimal, integer} pairs (30 fixed + seeded random, both orders) x (0, +-1, +-(10^p-1), 1.0, 1.5, 0.5, 1.9, 2.0, "
                "the integer type's bounds) evaluated row by row; lit: column vs literal through coercion + ExprSimplifier (cast unwrapping), literal on "
                "either side; inl: IN / NOT IN lists of the other integer type. non-trivial = distinct (type a, type b, x, y) with a != b and no NULL",
        "case_kinds": kinds,
        "integer_type_pairs": len(int_pairs),
        "exhaustive": False,
        "model_evaluations": len(terms) + len(big_terms),
        "rows_compared_with_model": sum(o.get("nrows", 1) for o in big_origin),
        "known_truncation_rows": wrong_trunc,
        "release_arithmetic_rows": len(wrap_rows),
        "known_decimal256_wrap_rows": wrong_wrap,
        "samples": [sample_int, sample_dec, next(c for c in cases if c["k"] == "lit"), next(c for c in ty_rows if c["a"] == "U64" and c["b"] == "I8")],
        "trusted_base": vlib.TRUSTED_COMMON + [
            "Model/NumCoerce.v was written by hand from binary.rs / arrow-cast 59.2.0 (not generated); every run compares it with the implementation on "
            "all ordered type pairs of the universe and on every evaluated row",
            "the quick tier observes the overflow-checks build only (the i8 overflow panics predicted by comparison_ovf/eval_ovf); the wrapping "
            "(release) results of the model for those Decimal256 cases are compared with a build without overflow checks in the thorough tier only",
            "float operands are outside the model (opaque tags): only the coerced type and implementation-side symmetry are checked for them",
        ],
    })
    ck.assumptions = ["arrays hold values within their declared type (|unscaled| <= 10^p - 1 for decimals)",
                      "rustc compiles integer arithmetic per the Rust reference"]
    ck.notes = ["C47_decimal_vs_integer_refuted: the faithful model (and the implementation) give wrong answers when a Decimal32/Decimal64 column is "
                "compared with an integer type too wide for that decimal variant; listed under key KEY_TRUNC"]
    return ck.finish()
