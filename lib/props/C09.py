"""C09 -- window functions match their frame definitions under every executor.  Tie: X.

direct half : the real WindowFrameContext::calculate_range / WindowAggState::prune_state driven with the executors'
              protocols (harness/h_expr/src/bin/c09.rs) vs the Coq incremental model AND the Coq declarative frame.
SQL half    : SELECT .. OVER (PARTITION BY p ORDER BY k <frame>) through BoundedWindowAggExec / WindowAggExec
              (harness/h_core/src/bin/c09sql.rs) vs the Coq declarative evaluation of the window function."""
import fractions
import re

import vlib
from vlib import Check, zlit, coq_bool

KEY_ROWS = "C09-rows-following-offset-usize-overflow"
KEY_GROUPS = "C09-groups-following-offset-usize-overflow"
KEY_RANGE = "C09-range-offset-i64-overflow-next-to-null-group"
KEY_CAUSAL = "C09-range-end-preceding-null-key-row-answered-before-its-peers-arrive"

UNITS = {"rows": "Rows", "range": "Range", "groups": "Groups"}


def r_bound(b):
    if b[0] == "UP":
        return "UnbPrec"
    if b[0] == "P":
        return "(Prec %s)" % zlit(b[1])
    if b[0] == "CR":
        return "Cur"
    if b[0] == "F":
        return "(Foll %s)" % zlit(b[1])
    return "UnbFoll"


def r_frame(units, sb, eb):
    return "{| funits := %s; fstart := %s; fend := %s |}" % (UNITS[units], r_bound(sb), r_bound(eb))


def r_so(desc, nf):
    return "{| so_desc := %s; so_nf := %s |}" % (coq_bool(desc), coq_bool(nf))


def r_optz(x):
    return "None" if x is None else "(Some %s)" % zlit(x)


def r_keys(ks):
    return "[" + "; ".join(r_optz(k) for k in ks) + "]"


def r_op(o):
    if o[0] == "call":
        return "WCall %s %s %s" % (zlit(o[1]), zlit(o[2]), coq_bool(o[3]))
    return "WPrune %s" % zlit(o[1])


def r_obs(o):
    if isinstance(o, list):
        return "ORange %s %s" % (zlit(o[0]), zlit(o[1]))
    if "pruned" in o:
        return "OPruned %s" % zlit(o["pruned"])
    if "panic" in o:
        if "with overflow" in o["panic"]:
            return "OOverflow"
        return None
    return "OErr"


def render_dir(c):
    obs = [r_obs(o) for o in c["out"]]
    if any(o is None for o in obs):
        return None
    return "C09 %s %s %s [%s] [%s]" % (r_so(c["desc"], c["nf"]), r_frame(c["units"], c["sb"], c["eb"]), r_keys(c["keys"]),
                                        "; ".join(r_op(o) for o in c["ops"]), "; ".join(obs))


def r_fun(f):
    n = f[0]
    simple = {"sum": "FSum", "count": "FCount", "count_star": "FCountStar", "min": "FMin", "max": "FMax", "avg": "FAvg",
              "first_value": "FFirst", "last_value": "FLast", "row_number": "FRowNumber", "rank": "FRank",
              "dense_rank": "FDenseRank", "percent_rank": "FPercentRank", "cume_dist": "FCumeDist"}
    if n in simple:
        return simple[n]
    if n == "nth_value":
        return "(FNth %s)" % zlit(f[1])
    if n == "lag":
        return "(FLag %s %s)" % (zlit(f[1]), r_optz(f[2]))
    if n == "lead":
        return "(FLead %s %s)" % (zlit(f[1]), r_optz(f[2]))
    if n == "ntile":
        return "(FNtile %s)" % zlit(f[1])
    raise ValueError(n)


def r_wval(v):
    if v is None:
        return "WNull"
    if isinstance(v, int):
        return "(WInt %s)" % zlit(v)
    x = v["f"]
    fr = fractions.Fraction(x).limit_denominator(4096)
    if abs(float(fr) - x) > 1e-9:
        return "(WRat 0 0)"     # never equal to a model value
    return "(WRat %s %s)" % (zlit(fr.numerator), zlit(fr.denominator))


def sql_partitions(c):
    """engine rows grouped by the partition key of their source row, ordered by rn"""
    src = {r[0]: r for r in c["rows"]}
    parts = {}
    for r in c["out"]["rows"]:
        parts.setdefault(src[r[0]][1], []).append(r)
    return [(p, sorted(rs, key=lambda r: r[1])) for p, rs in sorted(parts.items(), key=lambda kv: (kv[0] is None, kv[0] or 0))], src


def render_sql(c):
    """one Coq case per (window column, partition)"""
    out = []
    parts, src = sql_partitions(c)
    for ci, col in enumerate(c["cols"]):
        fr = col["frame"] or {"units": "range", "sb": ["UP"], "eb": ["CR"]}
        for p, rs in parts:
            rows = "[" + "; ".join("(%s, %s)" % (r_optz(src[r[0]][2]), r_optz(src[r[0]][3])) for r in rs) + "]"
            obs = "[" + "; ".join(r_wval(r[2 + ci]) for r in rs) + "]"
            out.append("C09S %s %s %s %s %s" % (r_so(c["desc"], c["nf"]), r_frame(fr["units"], fr["sb"], fr["eb"]), r_fun(col["fn"]), rows, obs))
    return out


def dir_key(c):
    if c["cls"] == "rows-offset-overflow":
        return KEY_ROWS
    if c["cls"] == "range-target-overflow":
        return KEY_RANGE
    if c["cls"] == "panic" and c["units"] == "groups" and "add with overflow" in c["why"]:
        return KEY_GROUPS
    return None


def sql_key(c):
    why = c["why"]
    m = re.search(r"\(id (\d+)\): w(\d+) = ", why)
    if m and c["exec"] == "bounded":
        src = {r[0]: r for r in c["rows"]}
        fr = c["cols"][int(m.group(2))]["frame"]
        if (fr and fr["units"] == "range" and fr["eb"][0] == "P" and int(fr["eb"][1]) > 0
                and src[int(m.group(1))][2] is None):
            return KEY_CAUSAL
    if "attempt to add with overflow" in why:
        big = [col["frame"] for col in c["cols"] if col["frame"] and any(b[0] == "F" and int(b[1]) > 2 ** 63 for b in (col["frame"]["sb"], col["frame"]["eb"]))]
        if big and all(f["units"] == "rows" for f in big):
            return KEY_ROWS
        if big and all(f["units"] == "groups" for f in big):
            return KEY_GROUPS
    return None


def run(pid, tier, seed, replay):
    ck = Check(pid, tier, seed, level="proof")
    n_dir = 2500 if tier == "quick" else 60000
    n_sql = 500 if tier == "quick" else 12000
    ck.proof_step(extra_targets=["Model/WindowFrame.vo"])
    for crate, b in (("h_expr", "c09"), ("h_core", "c09sql")):
        ok, out, dt = vlib.cargo_build(crate, bin=b)
        ck.log("cargo build %s/%s: ok=%s (%.0fs)" % (crate, b, ok, dt))
        if not ok:
            ck.problem("tie", "harness build failed:\n" + out[-3000:])
            return ck.finish()
    pre = "From DF Require Import Base.Prelude Model.WindowFrame.\nOpen Scope Z_scope."

    # ---------------------------------------------------------------- direct half
    rc, so, se, dt = vlib.run_bin("c09", ["--seed", seed, "--n", n_dir])
    dcases = vlib.jsonl(so)
    if rc != 0 or not dcases:
        ck.problem("tie", "c09 ended abnormally rc=%d: %s" % (rc, se[-1500:]))
        return ck.finish()
    ck.log("direct: %d cases (%.1fs)" % (len(dcases), dt))
    for c in dcases:
        if not c["ok"]:
            ck.fail_input("window frame range: " + c["why"],
                          {"units": c["units"], "start": c["sb"], "end": c["eb"], "desc": c["desc"], "nulls_first": c["nf"],
                           "keys": c["keys"], "ops": c["ops"], "out": c["out"]}, key=dir_key(c))
    good, terms_good, dev, terms_dev, unr = [], [], [], [], 0
    for c in dcases:
        t = render_dir(c)
        if t is None:
            unr += 1
            continue
        if c["ok"]:
            good.append(c)
            terms_good.append(t)
        else:
            dev.append(c)
            terms_dev.append(t)
    if unr:
        ck.problem("tie", "%d direct cases with an outcome the model has no constructor for" % unr)
    # ok cases: incremental model = observed AND declarative frame = observed
    bad, log, dt = vlib.coq_eval_cases(pre, "c09_case", "c09_check", terms_good, shard=250, tag="c09d")
    ck.log("correspondence (direct, model + definition): %d cases, %d disagreements (%.1fs)" % (len(good), len(bad), dt))
    if bad:
        first = bad[0]
        ck.problem("tie", "model/definition and implementation disagree on %d direct cases; first: %s"
                   % (len(bad), str(good[first] if isinstance(first, int) else log)[:1500]))
    # deviating cases (listed findings): the incremental model must still reproduce the implementation exactly
    bad2, log2, dt = vlib.coq_eval_cases(pre, "c09_case", "c09_model_check", terms_dev, shard=250, tag="c09x")
    ck.log("correspondence (direct, deviating cases vs incremental model): %d cases, %d disagreements (%.1fs)" % (len(dev), len(bad2), dt))
    if bad2:
        first = bad2[0]
        ck.problem("tie", "incremental model does not reproduce the implementation on %d deviating cases; first: %s"
                   % (len(bad2), str(dev[first] if isinstance(first, int) else log2)[:1500]))

    # ---------------------------------------------------------------- SQL half
    rc, so, se, dt = vlib.run_bin("c09sql", ["--seed", seed, "--n", n_sql])
    scases = vlib.jsonl(so)
    if rc != 0 or not scases:
        ck.problem("tie", "c09sql ended abnormally rc=%d: %s" % (rc, se[-1500:]))
        return ck.finish()
    ck.log("sql: %d queries (%.1fs)" % (len(scases), dt))
    for c in scases:
        if not c["ok"]:
            ck.fail_input("window function value: " + c["why"],
                          {"sql": c["sql"], "rows_id_p_k_x": c["rows"], "target_partitions": c["tp"], "batch_size": c["bs"],
                           "executor": c["exec"], "out": c["out"]}, key=sql_key(c))
    sgood = [c for c in scases if c["ok"]]
    terms, owner = [], []
    for i, c in enumerate(sgood):
        for t in render_sql(c):
            terms.append(t)
            owner.append(i)
    bad3, log3, dt = vlib.coq_eval_cases(pre, "c09s_case", "c09s_check", terms, shard=300, tag="c09s")
    ck.log("correspondence (sql, declarative evaluation): %d partition evaluations of %d queries, %d disagreements (%.1fs)"
           % (len(terms), len(sgood), len(bad3), dt))
    if bad3:
        first = bad3[0]
        ck.problem("tie", "Coq declarative evaluation and engine disagree on %d partition evaluations; first: %s"
                   % (len(bad3), (str(sgood[owner[first]])[:1200] + " TERM " + terms[first][:600]) if isinstance(first, int) else log3[:1500]))

    # ---------------------------------------------------------------- coverage
    def nontrivial_dir(c):
        return c["ok"] and len(c["keys"]) >= 3 and len({tuple(o) for o in c["out"] if isinstance(o, list)}) >= 2
    nt = {vlib.case_hash([c["units"], c["sb"], c["eb"], c["desc"], c["nf"], c["keys"], c["ops"]]) for c in dcases if nontrivial_dir(c)}
    nt |= {vlib.case_hash([c["sql"], c["rows"], c["tp"], c["bs"]]) for c in sgood if len(c["rows"]) >= 3}
    by_units = {}
    for c in dcases:
        by_units[c["units"]] = by_units.get(c["units"], 0) + 1
    execs = {}
    for c in scases:
        execs[c["exec"]] = execs.get(c["exec"], 0) + 1
    fns = {}
    for c in sgood:
        for col in c["cols"]:
            fns[col["fn"][0]] = fns.get(col["fn"][0], 0) + 1
    ck.coverage.update({
        "evaluations": len(dcases) + len(terms),
        "distinct_nontrivial": len(nt),
        "rule": "direct: 5 fixed + every units x bound-kind pair (offsets 0,1,3) x 4 sort options on a fixed column with NULLs and ties, then random: units x valid "
                "bound pairs (offsets 0..4; 1/12 of the cases offsets within 14 of u64::MAX resp. 3 of i64::MAX) x asc/desc x nulls first/last x 0..12 sorted keys "
                "(ties, NULL run, 1/12 keys within 3 of i64::MIN/MAX) x {whole partition, streaming with growing buffer, re-asked rows and prune_state}; "
                "non-trivial = passes, >= 3 rows and >= 2 distinct frames. sql: 1-3 window columns from 17 functions x random frames x 0..14 rows x 1-3 partition "
                "keys incl. NULL x batch_size {1,2,3,8192} x target_partitions {1,3} x MemTable batches of {1,2,3,100} rows; non-trivial = passes and >= 3 rows",
        "direct_cases_by_units": by_units,
        "direct_calls": sum(1 for c in dcases for o in c["ops"] if o[0] == "call"),
        "direct_reasked_rows": sum(1 for c in dcases for o in c["ops"] if o[0] == "call" and not o[3]),
        "direct_prunes": sum(1 for c in dcases for o in c["ops"] if o[0] == "prune"),
        "direct_deviating_cases_reproduced_by_model": len(dev) - len(bad2),
        "sql_queries_by_executor": execs,
        "sql_window_columns_by_function": fns,
        "traces_validated_against_impl": len(good) + len(dev) + len(terms),
        "samples": [{k: dcases[5][k] for k in ("units", "sb", "eb", "desc", "nf", "keys", "ops", "out")} if len(dcases) > 5 else None,
                    {"sql": sgood[0]["sql"], "rows": sgood[0]["rows"], "out": sgood[0]["out"]} if sgood else None],
        "trusted_base": vlib.TRUSTED_COMMON + [
            "the streaming protocol of the direct harness takes is_end_bound_safe as false (BoundedWindowAggExec may accept a row earlier than the harness does)",
            "SQL half: the physical order inside a partition is read from row_number() evaluated by the same window operator",
            "floating point results (avg, percent_rank, cume_dist) are compared as rationals with denominator <= 4096 within 1e-9"],
    })
    ck.assumptions = ["ORDER BY key: one nullable Int64 column (RANGE frames over float/temporal/interval keys are not modelled)",
                      "RANGE theorems assume key -/+ offset stays inside i64 (the overflow path is modelled and tested, and deviates next to a NULL group: listed finding)",
                      "ROWS/GROUPS theorems assume idx + offset + 1 < 2^64 (beyond that the implementation overflows usize: listed findings)",
                      "GROUPS incremental state machine: exact model, tested against the definition; its equality with the definition is not proved (see MANIFEST note)"]
    return ck.finish()
