"""C48 -- DataFrame operations compute the same results as the equivalent SQL.  Tie: X (differential) on top of engine E1 (RefSQL).

Proof part (coq/Model/DataFrameOps.v, coq/Proofs/DataFrameOpsProofs.v, coq/Props/C48.v): a DataFrame-operation AST `dfop`
with NAMED columns (qualifier, name) and the translation `tr : dfop -> option (schema * RefSQL.query)`; theorems about the
translation of the name-based operations: union_by_name = by-name alignment with NULL fill (+ result schema), with_column
replaces in place or appends, drop_columns removes exactly the referenced columns (unqualified = every column of that
name), distinct_on = first row per key for any total preorder, limit(skip, fetch) composition.

Tie: harness/h_core/src/bin/c48.rs generates operation pipelines over C01's tables and builds each one twice on the real
engine: through the DataFrame API and as SQL text rendered (by C01's renderer) from the Rust twin of `tr`.
 * direct oracle: equal bags of rows, DataFrame field names = the model's names (= the SQL aliases when unique), equal
   type classes;
 * correspondence: `c48_check` (Coq) translates the pipeline JSON with the Coq `tr`, checks the DataFrame's field names
   against `schema_of`, and compares the rows of BOTH executions with the RefSQL reference of `to_query` (distinct_on:
   `distinct_on_cols`).  Deviations of the engine that C01 lists (e.g. INTERSECT ALL / EXCEPT ALL as semi / anti joins)
   are attributed with C01's `known_variants` when DataFrame and SQL agree with each other.
"""
import json
import re

import vlib
from vlib import Check
from props.C01 import (r_db, r_rel, r_expr, r_list, cb, JOIN, AGG, known_variants, constructs)
from props.C01 import r_case as r01_case
from props.C01 import PRE as PRE01

PRE = "From DF Require Import Base.Prelude Model.RefSQL Model.DataFrameOps.\nOpen Scope Z_scope."

KF1 = "C48-KF1-dataframe-aggregate-exposes-implicit-group-by-columns"
KF1_WHAT = ("C48-KF1 DataFrame::aggregate(group, aggs) builds the Aggregate with add_implicit_group_by_exprs(true): every column that "
            "functionally depends on the group columns (all columns, when the input is itself an Aggregate grouped by them) is appended to "
            "the GROUP BY list AND to the output schema, so the result has extra columns that `SELECT group, aggs .. GROUP BY group` does "
            "not have (the documented equivalent). Witness (runs first on every run, harness id 1000000, stream witness:KF1): "
            "t1(c0,c1) = {(1,10),(2,NULL),(NULL,30),(2,20)}; ctx.table(t1).alias(a1).aggregate([a1.c0],[count(a1.c1) AS n30])"
            ".aggregate([a1.c0],[sum(n30) AS n31]) returns the columns (c0, n30, n31); SELECT c0, sum(n30) AS n31 FROM (SELECT c0, "
            "count(c1) AS n30 FROM t1 GROUP BY c0) GROUP BY c0 returns (c0, n31). The rows projected on (c0, n31) are equal.")


KF2 = "C48-via-C03-KF5-constant-folding-join-or-filter-conjunct-pushed-below-global-aggregate"
KF2_WHAT = ("C48-KF2 (= C03-KF5 reached through a join) a conjunct of a join condition / filter that folds to a constant (e.g. "
            "CAST(NULL AS BIGINT) IN (a, b) -> NULL) is pushed by push_down_filter into an input that is an Aggregate WITHOUT GROUP BY and "
            "then BELOW that Aggregate (`cols.iter().all(..)` is vacuously true for a column-free predicate): the aggregate is computed over "
            "no rows (count = 0) and the conjunct no longer guards the join. DataFrame and SQL agree with each other; the reference defines "
            "no row. Witness (harness id 1000001, stream witness:KF2): t1.aggregate([], [count(c1) AS n40]).join_on(t0, Inner, [n40 <> 3, "
            "CAST(NULL AS BIGINT) IN (n40, a2.c0)]) returns one row per row of t0 with n40 = 0; SQL: SELECT .. FROM (SELECT count(c1) AS "
            "n40 FROM t1) a INNER JOIN t0 b ON (a.n40 <> 3) AND (CAST(NULL AS BIGINT) IN (a.n40, b.c0)).")


def conjuncts(p):
    if isinstance(p, list) and p and p[0] == "and":
        return conjuncts(p[1]) + conjuncts(p[2])
    return [p]


def _has(x, pred):
    if isinstance(x, list):
        return (bool(x) and pred(x)) or any(_has(y, pred) for y in x)
    return False


def _empty_global_aggs(q):
    """copies of q in which ONE Aggregate without GROUP BY (reachable through filter/project/distinct/sort/limit wrappers) reads no rows"""
    k = q[0]
    if k == "group" and q[1] == []:
        yield ["group", [], q[2], q[3], ["filter", ["lit", False], q[4]]]
        return
    if k in ("filter", "project", "distinctq", "sort", "limit"):
        for v in _empty_global_aggs(q[-1]):
            yield q[:-1] + [v]


def kf5_variants(q):
    """C03-KF5 rewrites: a constant-foldable conjunct X of a join condition (or filter) is dropped and a global aggregate among the
    inputs is evaluated over no rows.  The Coq reference decides whether a rewrite reproduces the engine's rows."""
    out = []

    def walk(x, rebuild):
        if not isinstance(x, list) or not x or not isinstance(x[0], str):
            return
        if x[0] == "join" and x[1] != "cross":
            kind, wl, wr, on, l, r = x[1:]
            cs = conjuncts(on)
            for i, X in enumerate(cs):
                if _has(X, lambda n: n[0] == "lit" and n[1] is None) or not _has(X, lambda n: n[0] == "col"):
                    rest = [c for j, c in enumerate(cs) if j != i]
                    on2 = ["lit", True]
                    for c in reversed(rest):
                        on2 = c if on2 == ["lit", True] else ["and", c, on2]
                    for l2 in _empty_global_aggs(l):
                        out.append(rebuild(["join", kind, wl, wr, on2, l2, r]))
                    for r2 in _empty_global_aggs(r):
                        out.append(rebuild(["join", kind, wl, wr, on2, l, r2]))
        if x[0] == "filter":
            cs = conjuncts(x[1])
            for i, X in enumerate(cs):
                if _has(X, lambda n: n[0] == "lit" and n[1] is None) or not _has(X, lambda n: n[0] == "col"):
                    rest = [c for j, c in enumerate(cs) if j != i]
                    p2 = ["lit", True]
                    for c in reversed(rest):
                        p2 = c if p2 == ["lit", True] else ["and", c, p2]
                    for q2 in _empty_global_aggs(x[2]):
                        out.append(rebuild(["filter", p2, q2]))
        for i, y in enumerate(x):
            if isinstance(y, list) and y and isinstance(y[0], str) and y[0] in ("table", "values", "filter", "project", "join", "semi", "group",
                                                                                "distinctq", "setop", "sort", "limit"):
                walk(y, lambda v, i=i, x=x: rebuild(x[:i] + [v] + x[i + 1:]))

    walk(q, lambda v: v)
    return out[:6]


def name_str(n):
    return "c%d" % n if n < 100 else "n%d" % (n - 100)


def kf1_explains(c):
    """the DataFrame result is the SQL result plus extra columns, and the last operation is a keyed aggregate"""
    df, sq = c["outs"]["df"], c["outs"]["sql"]
    if "rows" not in df or "rows" not in sq or c["tail"] is not None or c["d"][0] != "aggregate" or not c["d"][1]:
        return False
    want = [name_str(n) for n in c["names"]]
    got = [n for n, _ in df["schema"]]
    if len(got) <= len(want):
        return False
    pos, j = [], 0
    for i, g in enumerate(got):
        if j < len(want) and g == want[j]:
            pos.append(i)
            j += 1
    if j != len(want):
        return False
    return bag([[r[i] for i in pos] for r in df["rows"]]) == bag(sq["rows"])


def r_cref(c):
    return "(%s, %d)" % ("None" if c[0] is None else "Some %d" % c[0], c[1])


def r_zs(xs):
    return r_list([str(x) for x in xs])


def r_dfop(d):
    k = d[0]
    if k == "table":
        return "(DTable %d %d %d)" % (d[1], d[2], d[3])
    if k == "filter":
        return "(DFilter %s %s)" % (r_expr(d[1]), r_dfop(d[2]))
    if k == "select":
        items = r_list(["(SCol %d)" % it[1] if it[0] == "c" else "(SExpr %s %d)" % (r_expr(it[1]), it[2]) for it in d[1]])
        return "(DSelect %s %s)" % (items, r_dfop(d[2]))
    if k == "with_column":
        return "(DWithColumn %d %s %s)" % (d[1], r_expr(d[2]), r_dfop(d[3]))
    if k == "rename":
        return "(DRename %s %d %s)" % (r_cref(d[1]), d[2], r_dfop(d[3]))
    if k == "drop":
        return "(DDrop %s %s)" % (r_list([r_cref(c) for c in d[1]]), r_dfop(d[2]))
    if k == "join":
        return "(DJoin %s %s %s %s %s %s)" % (JOIN[d[1]], r_zs(d[2]), r_zs(d[3]), "None" if d[4] is None else "(Some %s)" % r_expr(d[4]),
                                              r_dfop(d[5]), r_dfop(d[6]))
    if k == "join_on":
        return "(DJoinOn %s %s %s %s)" % (JOIN[d[1]], r_list([r_expr(e) for e in d[2]]), r_dfop(d[3]), r_dfop(d[4]))
    if k == "aggregate":
        aggs = r_list(["((%s, %s), %d)" % (AGG[a], r_expr(e), nm) for a, e, nm in d[2]])
        return "(DAggregate %s %s %s)" % (r_zs(d[1]), aggs, r_dfop(d[3]))
    if k == "sort":
        ks = r_list(["(%s, (%s, %s))" % (r_expr(x), cb(ds), cb(nf)) for x, ds, nf in d[1]])
        return "(DSort %s %s)" % (ks, r_dfop(d[2]))
    if k == "limit":
        return "(DLimit %d %s %s)" % (d[1], "None" if d[2] is None else "(Some %d)" % d[2], r_dfop(d[3]))
    if k == "distinct":
        return "(DDistinct %s)" % r_dfop(d[1])
    if k in ("union", "union_by_name", "intersect", "except"):
        ctor = {"union": "DUnion", "union_by_name": "DUnionByName", "intersect": "DIntersect", "except": "DExcept"}[k]
        return "(%s %s %s %s)" % (ctor, cb(d[1]), r_dfop(d[2]), r_dfop(d[3]))
    raise ValueError("unknown operation " + str(k))


def r_tail(t):
    if t is None:
        return "TNone"
    return "(TDistinctOn %s %s %s)" % (r_zs(t["on"]), r_zs(t["sel"]), r_list(["(%d, (%s, %s))" % (i, cb(d), cb(nf)) for i, d, nf in t["sort"]]))


def name_id(s):
    m = re.match(r"^c(\d+)$", s)
    if m:
        return int(m.group(1))
    m = re.match(r"^n(\d+)$", s)
    if m:
        return 100 + int(m.group(1))
    return -1


def r_case(c, out, with_names):
    names = "None"
    if with_names and "schema" in out:
        names = "(Some %s)" % r_list([vlib.zlit(name_id(n)) for n, _ in out["schema"]])
    obs = "(Some %s)" % r_rel(out["rows"]) if "rows" in out else "None"
    return "C48Case %s %s %s %s %s" % (r_db(c["tables"]), r_dfop(c["d"]), r_tail(c["tail"]), names, obs)


def ops_of(d, acc):
    if isinstance(d, list) and d and isinstance(d[0], str) and d[0] in ("table", "filter", "select", "with_column", "rename", "drop", "join",
                                                                       "join_on", "aggregate", "sort", "limit", "distinct", "union",
                                                                       "union_by_name", "intersect", "except"):
        name = d[0]
        if name in ("join", "join_on"):
            name += "_" + d[1]
        if name in ("union", "union_by_name", "intersect", "except"):
            name += "_all" if d[1] else "_distinct"
        acc[name] = acc.get(name, 0) + 1
        for x in d[1:]:
            if isinstance(x, list) and x and isinstance(x[0], str) and x[0] in ("table", "filter", "select", "with_column", "rename", "drop",
                                                                                 "join", "join_on", "aggregate", "sort", "limit", "distinct",
                                                                                 "union", "union_by_name", "intersect", "except"):
                ops_of(x, acc)
    return acc


def bag(rows):
    return sorted(json.dumps(r, sort_keys=True) for r in rows)


def run(pid, tier, seed, replay):
    ck = Check(pid, tier, seed, level="proof")
    n = 300 if tier == "quick" else 6000
    ck.proof_step(extra_targets=["Model/DataFrameOps.vo", "Proofs/DataFrameOpsProofs.vo"])
    ok, out, dt = vlib.cargo_build("h_core", bin="c48")
    ck.log("cargo build: ok=%s (%.0fs)" % (ok, dt))
    if not ok:
        ck.problem("tie", "harness build failed:\n" + out[-3000:])
        return ck.finish()
    rc, so, se, dt = vlib.run_bin("c48", ["--seed", seed, "--n", n], timeout=3000)
    cases = vlib.jsonl(so)
    if rc != 0:
        ck.problem("tie", "harness ended abnormally rc=%d: %s" % (rc, se[-1500:]))
    if not cases:
        ck.problem("tie", "harness produced no cases")
        return ck.finish()
    ck.log("harness: %d pipelines, each built through the DataFrame API and as SQL (%.1fs)" % (len(cases), dt))

    def brief(c):
        return {"id": c["id"], "stream": c["stream"], "target_partitions": c["tp"], "batch_size": c["bs"],
                "tables": [{"types": t["types"], "partitions": t["parts"], "rows": t["rows"]} for t in c["tables"]],
                "pipeline": c["d"], "distinct_on": c["tail"], "sql": c["sql"], "dataframe_result": c["outs"]["df"],
                "sql_result": c["outs"]["sql"], "differences": c["diffs"]}

    stats = {"equal_rows_names_types": 0, "both_fail": 0, "hung": 0, "topk_adjudicated": 0}
    known_counts = {}
    terms, meta = [], []          # Coq: (case index, which) per term
    for ci, c in enumerate(cases):
        df, sq = c["outs"]["df"], c["outs"]["sql"]
        if df.get("stage") == "hang" or sq.get("stage") == "hang":
            stats["hung"] += 1
            continue
        if not c["ok"]:
            key = KF1 if kf1_explains(c) else None
            if key:
                known_counts[key[:7]] = known_counts.get(key[:7], 0) + 1
            ck.fail_input("DataFrame pipeline and its SQL text differ: " + "; ".join(c["diffs"])[:400], brief(c), key=key)
            continue
        if "err" in df and "err" in sq:
            stats["both_fail"] += 1
            continue
        stats["equal_rows_names_types"] += 1
        terms.append(r_case(c, df, True))
        meta.append((ci, "df"))
        if bag(df["rows"]) != bag(sq["rows"]):       # both must be valid top-k answers
            terms.append(r_case(c, sq, False))
            meta.append((ci, "sql"))
            stats["topk_adjudicated"] += 1

    shard = 40
    # one pass with the strict test (verdict 0); the few cases that fail it are re-examined (verdict 2 = reference run-time error)
    agree_l, log2, dt2 = vlib.coq_eval_cases(PRE, "c48_case", "c48_agree", terms, shard=shard, tag="c48a")
    if any(not isinstance(b, int) for b in agree_l):
        ck.problem("tie", "evaluation of the reference in coqc failed:\n" + log2[-3000:])
    agree_order = sorted(b for b in agree_l if isinstance(b, int))
    agree_bad = set(agree_order)
    bad, dt1 = [], 0.0
    if agree_order:
        sub0, log, dt1 = vlib.coq_eval_cases(PRE, "c48_case", "c48_check", [terms[i] for i in agree_order], shard=shard, tag="c48")
        if any(not isinstance(b, int) for b in sub0):
            ck.problem("tie", "evaluation of the reference in coqc failed:\n" + log[-3000:])
        bad = [agree_order[b] for b in sub0 if isinstance(b, int)]
    wf_bad = set()
    if bad:
        sub, log3, _ = vlib.coq_eval_cases(PRE, "c48_case", "c48_wellformed", [terms[i] for i in bad], shard=shard, tag="c48w")
        if any(not isinstance(b, int) for b in sub):
            ck.problem("tie", "evaluation of the reference in coqc failed:\n" + log3[-3000:])
        wf_bad = {bad[b] for b in sub if isinstance(b, int)}
    for i in sorted(wf_bad):
        ck.problem("tie", "pipeline not translatable by the Coq model / ill-formed term / field names differ from schema_of (verdict 3/4/6): %s"
                   % json.dumps(brief(cases[meta[i][0]]))[:1500])
    dis = [i for i in bad if i not in wf_bad]
    cand = []
    for j, i in enumerate(dis):
        c = cases[meta[i][0]]
        if c["tail"] is None:
            c1 = {"tables": c["tables"], "q": c["q"], "out": c["outs"][meta[i][1]]}
            for key, c2 in known_variants(c1):
                cand.append((j, key, r01_case(c2)))
            for q2 in kf5_variants(c["q"]):
                cand.append((j, KF2, r01_case(dict(c1, q=q2))))
    explained = {}
    if cand:
        cbad, log4, _ = vlib.coq_eval_cases(PRE01, "c01_case", "c01_agree", [t for _, _, t in cand], shard=shard, tag="c48k")
        if any(not isinstance(b, int) for b in cbad):
            ck.problem("tie", "evaluation of the C01 known-deviation variants in coqc failed:\n" + log4[-3000:])
        cbad = set(cbad)
        for n_, (j, key, _) in enumerate(cand):
            if n_ not in cbad and j not in explained:
                explained[j] = key
    c01_known = {}
    n_dis = 0
    for j, i in enumerate(dis):
        c = cases[meta[i][0]]
        if j in explained and explained[j] == KF2:
            known_counts["C48-KF2"] = known_counts.get("C48-KF2", 0) + 1
            ck.fail_input("DataFrame pipeline and its SQL text agree with each other but not with the reference: a global aggregate among the "
                          "join inputs was computed over no rows", brief(c), key=KF2)
        elif j in explained:
            k7 = " + ".join(p.strip()[:7] for p in explained[j].split(" + "))
            c01_known[k7] = c01_known.get(k7, 0) + 1
        else:
            n_dis += 1
            ck.fail_input("DataFrame pipeline and its SQL text agree with each other but not with the reference semantics of the translation "
                          "(%s rows)" % meta[i][1], brief(c))
    if "C48-KF1" not in known_counts:
        ck.notes.append("witness pipeline for C48-KF1 did not reproduce the finding (fixed upstream?)")
    compared = [cases[meta[i][0]] for i in range(len(terms)) if i not in agree_bad and meta[i][1] == "df"]
    ops = {}
    nt = set()
    tails = 0
    cons = {}
    for c in compared:
        ops_of(c["d"], ops)
        constructs(c["q"], cons)
        if c["tail"] is not None:
            tails += 1
        if c["outs"]["df"].get("rows"):
            nt.add(vlib.case_hash([c["d"], c["tail"], [t["rows"] for t in c["tables"]]]))
    ck.log("reference (Coq): %d outputs, %d agree, %d disagree unexplained, C01 findings %s, %d not compared (reference run-time error) (%.1fs); %s"
           % (len(terms), len(compared), n_dis, c01_known, len([i for i in agree_bad if i not in set(bad)]), dt1 + dt2, stats))
    ck.coverage.update({
        "evaluations": len(cases),
        "distinct_nontrivial": len(nt),
        "rule": "one pipeline per case: a table (aliased) followed by 1..5 operations (filter, select, sort+limit, distinct, drop_columns, "
                "with_column_renamed, with_column, join on key columns [+ filter], join_on expressions, aggregate, union_by_name[_distinct], "
                "union / intersect / except [_distinct]), operands of binary operations are tables or nested pipelines, 1 in 6 finished by "
                "distinct_on; tables as in C01; non-trivial = compared with the reference, at least one row, distinct (pipeline, tables)",
        "compared_with_reference": len(compared),
        "operations_in_compared_pipelines": ops,
        "pipelines_finished_by_distinct_on": tails,
        "direct_oracle": stats,
        "deviations_attributed_to_C01_findings": c01_known,
        "known_findings_hit_counts": known_counts,
        "disagreements_unexplained": n_dis,
        "translated_query_constructs": cons,
        "traces_validated_against_impl": len(compared),
        "samples": [{"pipeline": c["d"], "sql": c["sql"], "result": c["outs"]["df"]} for c in compared[:2]],
        "trusted_base": vlib.TRUSTED_COMMON + [
            "c48.rs: the construction of the DataFrame from the pipeline AST and the Rust twin of the translation `tr` (cross-checked: the SQL "
            "rows are compared with the DataFrame rows, and the DataFrame rows / names with the COQ translation of the same pipeline JSON)",
            "C01's renderers (refsql_gen.rs to SQL / JSON, C01.py JSON to Coq)",
            "LogicalPlanBuilder internals are not modelled: the engine is tied to the translation by differential execution only",
        ],
    })
    ck.assumptions = [
        "the theorems are about the translation into the reference algebra (Model/DataFrameOps.v), not about DataFusion's code",
        "not covered: unnest, window columns, fill_null / describe / cache / write_*, semi / anti / mark joins, pipelines the API rejects "
        "(ambiguous or unknown column references): the generator avoids them",
    ]
    return ck.finish()
