"""C14 -- join hash table lookups return exactly the matching build rows.  Tie: X (correspondence).

Proof: coq/Props/C14.v over the model coq/Model/JoinHashMap.v (faithful to joins/join_hash_map.rs + chain.rs).
Tie: harness bin c14 drives the real JoinHashMapU32/U64; every observation (build, un-paged lookup, every page
and resume offset of the paged lookup, contain_hashes, len) is compared exactly with the model's output, and
the direct oracle (indices i with hash[i] == probe hash) is evaluated on the implementation's own output."""
import vlib
from vlib import Check, zlit, zlist, coq_bool, optz


def pairs(ps):
    return "[" + "; ".join("(%s, %s)" % (zlit(a), zlit(b)) for a, b in ps) + "]"


def batches(bs):
    return "[" + "; ".join(pairs(b) for b in bs) + "]"


def tok(t):
    return "(%s, %s)" % (zlit(t[0]), optz(t[1]))


def otok(t):
    return "None" if t is None else "(Some %s)" % tok(t)


def head(c):
    return "%d %s %s %s" % (c["w"], zlit(c["cap"]), zlit(c["d"]), batches(c["bs"]))


def render(c):
    k = c["k"]
    if k == "build":
        return "CBuild %s %s %s" % (head(c), coq_bool(c["returned"]), zlit(c["len"]))
    if k == "matched":
        obs = "None" if c["obs"] is None else "(Some %s)" % pairs(c["obs"])
        return "CMatched %s %s %s %s" % (head(c), pairs(c["probes"]), optz(c["od"]), obs)
    if k == "paged":
        pr = "[" + "; ".join("(%s, %s)" % (zlit(h), coq_bool(v)) for h, v in c["probes"]) + "]"
        obs = "[" + "; ".join("None" if p is None else "(Some (%s, %s))" % (pairs(p["p"]), otok(p["t"]))
                              for p in c["pages"]) + "]"
        return "CPaged %s %s %s %s %s" % (head(c), pr, zlit(c["limit"]), tok(c["t0"]), obs)
    if k == "contains":
        return "CContains %s %s %s" % (head(c), zlist(c["hs"]), "[" + "; ".join(coq_bool(b) for b in c["obs"]) + "]")
    raise ValueError(k)


def rows_of(c, h):
    ins = [p for b in c["bs"] for p in b]
    return [r for r, hh in reversed(ins) if hh == h]


def describe(c):
    """what the direct oracle objected to, in words, with expected vs observed"""
    k = c["k"]
    b = "JoinHashMapU%d::with_capacity(%d), update_from_iter batches %s (deleted_offset %d)" % (
        c["w"], c["cap"], c["bs"], c["d"])
    if k == "paged":
        exp = [[i, r] for i, (h, v) in enumerate(c["probes"]) if v for r in rows_of(c, h)]
        got = [p for pg in c["pages"] if pg for p in pg["p"]]
        sizes = [len(pg["p"]) if pg else "panic" for pg in c["pages"]]
        return ("%s; get_matched_indices_with_limit_offset over probe (hash, valid) %s with limit %d, resuming until None: "
                "pages concatenate to %s (page sizes %s, finished=%s) but the rows with equal hash are %s"
                % (b, c["probes"], c["limit"], got, sizes, c["complete"], exp))
    if k == "matched":
        exp = [[ri, r - c["d"]] for ri, h in c["probes"] for r in rows_of(c, h)]
        return "%s; get_matched_indices(%s, %s) = %s but the rows with equal hash are %s" % (b, c["probes"], c["od"], c["obs"], exp)
    if k == "contains":
        exp = [bool(rows_of(c, h)) for h in c["hs"]]
        return "%s; contain_hashes(%s) = %s, expected %s" % (b, c["hs"], c["obs"], exp)
    return "%s; update_from_iter returned=%s len()=%d, expected len()=%d" % (
        b, c["returned"], c["len"], len({h for bb in c["bs"] for _, h in bb}))


def run(pid, tier, seed, replay):
    ck = Check(pid, tier, seed, level="proof")
    n, exh, coq_cap = (300, 3, 2400) if tier == "quick" else (6000, 5, 40000)
    proof_ok = ck.proof_step()
    ok, out, dt = vlib.cargo_build("h_physplan", bin="c14")
    ck.log("cargo build h_physplan --bin c14: ok=%s (%.0fs)" % (ok, dt))
    if not ok:
        ck.problem("tie", "harness build failed:\n" + out[-3000:])
        return ck.finish()
    rc, so, se, dt = vlib.run_bin("c14", ["--seed", seed, "--n", n, "--exh", exh])
    cases = vlib.jsonl(so)
    if rc != 0:
        ck.problem("tie", "harness run ended abnormally rc=%d: %s" % (rc, se[-1500:]))
    if not cases:
        ck.problem("tie", "harness produced no cases")
        return ck.finish()
    # ---- direct property oracle on the implementation's own output (independent of the model)
    for c in cases:
        if not c["ok"]:
            ck.fail_input(describe(c), c)
    # ---- correspondence: model output == implementation output, exactly (every page, every resume offset)
    # the oracle above sees every case; the model sees every non-paged case and an even sample of the paged runs
    corr = cases
    if len(corr) > coq_cap:
        rest = [c for c in cases if c["k"] != "paged" or not c["pre"]]
        paged = [c for c in cases if c["k"] == "paged" and c["pre"]]
        room = max(coq_cap - len(rest), coq_cap // 2)
        step = max(1.0, len(paged) / float(room))
        corr = rest + [paged[int(i * step)] for i in range(min(room, len(paged)))]
    if True:  # the model is definitions only, so it still runs when a proof breaks
        pre = "From DF Require Import Base.Prelude Model.JoinHashMap.\nOpen Scope Z_scope."
        bad, log, dt = vlib.coq_eval_cases(pre, "c14_case", "c14_check", [render(c) for c in corr], shard=400, tag="c14")
        ck.log("correspondence: %d cases, %d disagreements (%.1fs)" % (len(corr), len(bad), dt))
        if bad:
            first = bad[0]
            detail = corr[first] if isinstance(first, int) else log
            ck.problem("tie", "model and implementation disagree on %d case(s); first: %s" % (len(bad), str(detail)[:1500]))
    # ---- coverage
    kinds, toks = {}, {"(i,None)": 0, "(i,Some 0)": 0, "(i,Some k)": 0}
    pages = fast = chainp = nullkeys = multi = 0
    maxchain = 0
    for c in cases:
        kinds[c["k"]] = kinds.get(c["k"], 0) + 1
        if c["k"] == "paged":
            pages += len(c["pages"])
            ins = [p for b in c["bs"] for p in b]
            if len({h for _, h in ins}) == c["cap"]:
                fast += 1
            else:
                chainp += 1
            if any(not v for _, v in c["probes"]):
                nullkeys += 1
            if len(c["pages"]) > 1:
                multi += 1
            for pg in c["pages"]:
                if pg and pg["t"] is not None:
                    t = pg["t"]
                    toks["(i,None)" if t[1] is None else "(i,Some 0)" if t[1] == 0 else "(i,Some k)"] += 1
        if c["k"] == "build":
            cnt = {}
            for b in c["bs"]:
                for _, h in b:
                    cnt[h] = cnt.get(h, 0) + 1
            maxchain = max([maxchain] + list(cnt.values()))

    def nontrivial(c):
        if not c["pre"]:
            return False
        if c["k"] == "paged":
            return len(c["pages"]) >= 2
        if c["k"] == "matched":
            return bool(c["obs"])
        if c["k"] == "contains":
            return any(c["obs"])
        return c["len"] >= 1
    distinct = len({vlib.case_hash(c) for c in cases if nontrivial(c)})
    sample = [next(c for c in cases if c["k"] == "paged" and len(c["pages"]) > 2),
              next(c for c in cases if c["k"] == "matched" and c["d"] > 0),
              next(c for c in cases if not c["pre"])]
    ck.coverage.update({
        "evaluations": len(cases),
        "model_compared": len(corr),
        "distinct_nontrivial": distinct,
        "rule": "non-trivial = caller obligations hold and (paged run with >= 2 pages | un-paged lookup with >= 1 match | "
                "contain_hashes with >= 1 hit | build with >= 1 row); distinct by content hash. Generators: the doc example; "
                "EXHAUSTIVE all hash sequences of length <= %d over 3 hash values x {hash-join order (batches reversed, rows "
                "reversed), forward} x capacity {rows, rows+2} x every limit 1..total+1 on a probe list with hit/miss/"
                "duplicate/NULL-key/last-row variants; %d random histories (0..12 rows, 1..4 hash values from "
                "{0,1,2^32,2^63,2^64-2,2^64-1,..}, NULL build rows filtered, 1..4 batches incl. empty ones, shuffled orders, "
                "deleted_offset 0..6, capacity = rows or larger, limits {1,2,3,total,total+1,8192,random}); "
                "U32 and U64 maps alternate; plus inputs outside the caller obligations (row >= capacity, row+1 > u32::MAX, "
                "row < deleted_offset, duplicate row = cyclic chain, foreign resume offsets) where only model == implementation is checked" % (exh, n),
        "case_kinds": kinds,
        "pages_observed": pages,
        "paged_runs_multi_page": multi,
        "paged_runs_unique_fast_path": fast,
        "paged_runs_chain_path": chainp,
        "paged_runs_with_null_keys": nullkeys,
        "resume_offsets_seen": toks,
        "max_chain_length": maxchain,
        "outside_obligations": sum(1 for c in cases if not c["pre"]),
        "samples": sample,
        "trusted_base": vlib.TRUSTED_COMMON + [
            "coq/Model/JoinHashMap.v is a hand-written transcription of join_hash_map.rs + chain.rs; its faithfulness is "
            "checked on every run by exact comparison of every observable output (pairs, page boundaries, resume offsets, "
            "panics) with the real JoinHashMapU32/U64, bounded by the generators above",
            "hashbrown::HashTable is modelled as a finite map keyed by the u64 hash value (find/entry by stored-hash equality)",
            "usize = u64; `as u32` truncation of probe indices and T::usize_as of resume offsets are not modelled (probe batches < 2^32 rows)"],
    })
    ck.assumptions = ["caller obligations stated as theorem hypotheses: build rows distinct, deleted_offset <= row < deleted_offset + capacity, "
                      "row + 1 <= T::MAX, limit >= 1, paging starts at (0, None) and feeds back the returned offset, "
                      "paged lookup only on maps built with deleted_offset 0",
                      "64-bit usize"]
    return ck.finish()
