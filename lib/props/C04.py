"""C04 -- expression simplification never changes an expression's value.  Tie: X (validated per program).

   proof step   coq/Props/C04.v: soundness of the simplifier's rewrite rules over the reference semantics (RefSQL)
   harness      harness/h_core/src/bin/c04.rs: generated expression trees -> the REAL ExprSimplifier (plain, with
                guarantees) / PhysicalExprSimplifier; original and simplified evaluated by the real engine on the
                exhaustive small-domain table of the used columns + random rows (direct oracle: same value, same type)
   tie          every (e, e') pair inside the RefSQL fragment: Coq `c04_check` = the reference evaluator finds e and e'
                equivalent on the product domain (`equiv_on`, a test per program) AND computes for e what the engine
                computed (ties the reference evaluator to the engine)"""
import collections

import vlib
from vlib import Check
from props.C01 import r_expr, r_value, r_list

PRE = "From DF Require Import Base.Prelude Model.RefSQL Model.SimpRules.\nOpen Scope Z_scope."


def r_obs(o):
    return "None" if o == "err" else "(Some %s)" % r_value(o)


def render(c):
    r = c["ref"]
    doms = r_list([r_list([r_value(v) for v in d]) for d in r["doms"]])
    return "C04Case %s %s %s %s" % (r_expr(r["e"]), r_expr(r["e2"]), doms, r_list([r_obs(o) for o in r["obs"]]))


INT_COLS = {0, 1, 2, 3, 4, 5}


def remap0(e, ci):
    """the expression with column ci renamed to column 0 (single-column row of the region validator)"""
    if isinstance(e, list):
        if len(e) == 3 and e[0] == "col":
            return ["col", 0, 0] if e[2] == ci else e
        return [remap0(x, ci) for x in e]
    return e


def int_lits(e, acc):
    if isinstance(e, list):
        if len(e) == 2 and e[0] == "lit":
            if isinstance(e[1], int) and not isinstance(e[1], bool):
                acc.add(e[1])
        else:
            for x in e:
                int_lits(x, acc)
    return acc


def render_region(c):
    ci = c["used"][0]
    r = c["ref"]
    cs = sorted(int_lits(r["e"], set()) | int_lits(r["e2"], set()))
    return "(%s, %s, %s)" % (r_expr(remap0(r["e"], ci)), r_expr(remap0(r["e2"], ci)), vlib.zlist(cs))


def brief(c):
    return {k: c.get(k) for k in ("id", "stream", "mode", "e", "e2", "guar", "row", "why", "key") if k in c}


def run(pid, tier, seed, replay):
    ck = Check(pid, tier, seed, level="proof")
    n = 2500 if tier == "quick" else 40000
    ck.proof_step(extra_targets=["Model/SimpRules.vo"])
    ok, out, dt = vlib.cargo_build("h_core", bin="c04")
    ck.log("cargo build: ok=%s (%.0fs)" % (ok, dt))
    if not ok:
        ck.problem("tie", "harness build failed:\n" + out[-3000:])
        return ck.finish()
    rc, so, se, dt = vlib.run_bin("c04", ["--seed", seed, "--n", n], timeout=3000)
    cases = vlib.jsonl(so)
    if rc != 0:
        ck.problem("tie", "harness ended abnormally rc=%d: %s" % (rc, se[-1500:]))
    if not cases:
        ck.problem("tie", "harness produced no cases")
        return ck.finish()
    ck.log("harness: %d cases (%.1fs)" % (len(cases), dt))

    # ---- direct oracle (the engine's own evaluation of original and simplified)
    fails = [c for c in cases if not c["ok"]]
    by_key = collections.Counter(c.get("key", "?") for c in fails)
    for c in fails:
        # an expression may contain several known defect classes: it is filed under the first one
        ck.fail_input("simplification changed the value: " + (c.get("why") or c.get("panic") or ""), brief(c),
                      key="C04-" + c.get("key", "?").split("+")[0])
    ck.log("oracle: %d failing cases by key: %s" % (len(fails), dict(by_key)))

    # ---- correspondence on the RefSQL fragment
    corr = [c for c in cases if c.get("ref")]
    # the pairs the simplifier changed first; unchanged pairs only tie the reference evaluator to the engine
    corr = ([c for c in corr if c.get("changed")] + [c for c in corr if not c.get("changed")])[:700 if tier == "quick" else 8000]
    terms = []
    kept = []
    for c in corr:
        try:
            terms.append(render(c))
            kept.append(c)
        except (ValueError, KeyError) as e:
            ck.problem("translator", "cannot render case %s: %s" % (c["id"], e))
    # few large shards: on a loaded machine many parallel coqc processes are slower than a handful
    shard = max(150, (len(terms) + 3) // 4)
    bad, log, dt = vlib.coq_eval_cases(PRE, "c04_case", "c04_check", terms, shard=shard, tag="c04", timeout=2400)
    if log:
        ck.problem("tie", "coq evaluation failed: " + log[-2000:])
    bad = [b for b in bad if isinstance(b, int)]
    ck.log("correspondence: %d pairs, %d not accepted by the strict check (%.1fs)" % (len(kept), len(bad), dt))
    ref_diff = ref_lenient = engine_ref = 0
    if bad:
        # classify: (a) only a run-time error of e' where the reference's AND/OR/CASE expansion is stricter than the engine
        #           (b) the reference evaluates e differently from the engine (c) the reference separates e and e'
        sub = [terms[i] for i in bad]
        bad_len, log2, _ = vlib.coq_eval_cases(PRE, "c04_case", "c04_check_lenient", sub, shard=150, tag="c04l", timeout=1500)
        bad_eq, log3, _ = vlib.coq_eval_cases(PRE, "c04_case", "c04_equiv_only", sub, shard=150, tag="c04e", timeout=1500)
        if log2 or log3:
            ck.problem("tie", "coq evaluation failed: " + (log2 + log3)[-2000:])
        bad_len = {b for b in bad_len if isinstance(b, int)}
        bad_eq = {b for b in bad_eq if isinstance(b, int)}
        for j, i in enumerate(bad):
            c = kept[i]
            if j not in bad_len:
                ref_lenient += 1
                continue
            if "empty-inlist-null-probe" in c.get("classes", []) and c["ok"]:
                # NULL IN (): the reference says FALSE, the engine NULL for a literal probe and FALSE for a computed one
                # (known finding KF5); the pair cannot be tied
                ck.fail_input("empty IN list with a NULL probe: engine and reference semantics differ", brief(c),
                              key="C04-empty-inlist-null-probe")
                continue
            if j in bad_eq:
                ref_diff += 1
                if c["ok"]:
                    # the reference separates e and e' although the engine computed equal values on every row
                    # (or could not evaluate e at all, e.g. COALESCE before simplification): a failing input of its own
                    if c.get("n_ok", 0) == 0:
                        # filed under the known three-valued-logic defect class whose syntactic trigger the original contains
                        tvl = [k for k in c.get("classes", []) if k in ("inlist-merge-ignores-null", "unwrap-narrowing-try_cast",
                                                                         "empty-inlist-null-probe", "guarantee-maybenull-point-as-constant")]
                        ck.fail_input("reference evaluation separates original and simplified (the engine cannot evaluate the original)",
                                      brief(c), key="C04-" + (tvl[0] if tvl else "ref:" + c["stream"]))
                    else:
                        ck.problem("tie", "the reference separates e and e' but the engine does not: %s" % str(brief(c))[:1500])
            else:
                engine_ref += 1
                ck.problem("tie", "reference evaluator and engine disagree on the value of the ORIGINAL expression: %s" % str(brief(c))[:1500])

    # ---- region abstraction: pairs over ONE integer column whose atoms compare it with literals are decided for ALL
    #      values of the column (C04_equiv_regions_sound), not only on the small domain
    reg = [c for c in kept if c["ok"] and c.get("changed") and len(c.get("used", [])) == 1 and c["used"][0] in INT_COLS and not c.get("guar")]
    proved = 0
    if reg:
        rbad, rlog, rdt = vlib.coq_eval_cases(PRE, "(expr * expr * list Z)",
                                              "(fun c => match c with (e, e2, cs) => equiv_regions e e2 cs end)",
                                              [render_region(c) for c in reg], shard=150, tag="c04r", timeout=900)
        if rlog:
            ck.problem("tie", "coq evaluation (regions) failed: " + rlog[-1500:])
        proved = len(reg) - len([b for b in rbad if isinstance(b, int)])
        ck.log("region validator: %d single-integer-column pairs, %d proved equivalent for all values (%.1fs)" % (len(reg), proved, rdt))

    # ---- coverage
    done = [c for c in cases if "skip" not in c and "simp_err" not in c and "panic" not in c]
    changed = [c for c in done if c.get("changed")]
    streams = collections.Counter(c["stream"] for c in changed)
    nt = {vlib.case_hash([c["e"], c["e2"], c["mode"]]) for c in changed if c.get("n_ok", 0) > 0}
    modes = collections.Counter(c["mode"] for c in done)
    sample = next((c for c in changed if c.get("ref") and c["stream"].startswith("pat:") and c["ok"]), changed[0] if changed else cases[0])
    ck.coverage.update({
        "evaluations": sum(c.get("nrows", 0) for c in done),
        "distinct_nontrivial": len(nt),
        "rule": "well-typed expression trees (depth 2..5) over nullable/non-nullable Int8/Int32/Int64/Boolean/Utf8 columns and boundary literals "
                "(min, max, min+1, max-1, -1..2, NULL); half of the cases instantiate the left-hand side of one of 84 simplifier rule shapes with random "
                "sub-expressions; modes plain / with_guarantees (interval, NOT NULL, NULL guarantees; rows restricted to them) / PhysicalExprSimplifier; "
                "rows = exhaustive product of {NULL,-1,0,1,2,min,max} / {NULL,true,false} / {NULL,'','a','b'} over the used columns + 24 random rows "
                "(600 random rows when the product exceeds 2500); non-trivial = a distinct (original, simplified, mode) triple where the simplifier changed "
                "the expression and the original evaluates on at least one row",
        "cases": len(cases),
        "cases_evaluated": len(done),
        "cases_simplifier_changed": len(changed),
        "rule_shapes_changed": len([s for s in streams if s.startswith("pat:")]),
        "modes": dict(modes),
        "simplifier_errors": sum(1 for c in cases if "simp_err" in c),
        "unplannable_originals": sum(1 for c in cases if "skip" in c),
        "oracle_failures_by_key": dict(by_key),
        "traces_validated_against_impl": len(kept),
        "ref_pairs_equivalent_strict": len(kept) - len(bad),
        "pairs_proved_for_all_values_by_region_validator": proved,
        "pairs_offered_to_region_validator": len(reg),
        "ref_pairs_simplified_errs_only_in_reference": ref_lenient,
        "ref_pairs_separated": ref_diff,
        "ref_engine_value_disagreements": engine_ref,
        "samples": [brief(sample)],
        "trusted_base": vlib.TRUSTED_COMMON + [
            "the rule theorems are about hand-transcribed rule shapes and guards (Model/SimpRules.v); which rule the Rust simplifier applies when is not modelled",
            "Expr -> RefSQL renderer (c04.rs to_ref, C01.py r_expr): widening integer casts are the identity, IS TRUE/FALSE are IS NOT DISTINCT FROM, "
            "arithmetic only at Int64; pairs using anything else (bitwise, narrowing casts, LIKE, regex, narrow arithmetic) are checked by the engine oracle only",
            "per-program equivalence by the reference (equiv_on) is an exhaustive test on the small domain, not a proof for all rows",
        ],
    })
    ck.assumptions = [
        "rows respect the schema's NOT NULL declarations and the supplied guarantees",
        "value comparison is per row: when the vectorised evaluation of a batch fails the harness evaluates row by row (a row on which the original fails is not compared)",
        "integer arithmetic of the engine wraps; the reference reports overflow as an error and such rows are not compared by the reference",
    ]
    return ck.finish()
