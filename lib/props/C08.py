"""C08 -- sorting, merging and TopK return correctly ordered results.  Tie: X (exact for the loser-tree merge)."""
import vlib
from vlib import Check, zlit, coq_bool


def r_os(os):
    return "[" + "; ".join("{| s_desc := %s; s_nulls_first := %s |}" % (coq_bool(d), coq_bool(nf)) for d, nf in os) + "]"


def r_row(r):
    return "{| rkey := [%s]; rid := %s |}" % ("; ".join(vlib.optz(x) for x in r[:-1]), zlit(r[-1]))


def r_rows(rows):
    return "[" + "; ".join(r_row(r) for r in rows) + "]"


def r_rowss(rs):
    return "[" + "; ".join(r_rows(r) for r in rs) + "]"


def render(c):
    if c["k"] == "merge" and (not c["rr"] or len(c["parts"]) == 1):
        return "C08Merge %s %s %s %s" % (r_os(c["os"]), r_rowss(c["parts"]), vlib.optz(c["fetch"]), vlib.zlist(c["out"]))
    chunks = c["parts"] if c["k"] == "merge" else c["chunks"]
    fan = c.get("fanin", 0)
    gs = [fan] * 6 if fan else []
    return "C08Sort %s %s %s %s %s" % (r_os(c["os"]), r_rowss(chunks), vlib.zlist(gs), vlib.optz(c["fetch"]), vlib.zlist(c["out"]))


def has_cross_tie(c):
    seen = {}
    for i, p in enumerate(c["parts"]):
        for r in p:
            k = tuple(r[:-1])
            if k in seen and seen[k] != i:
                return True
            seen.setdefault(k, i)
    return False


def run(pid, tier, seed, replay):
    ck = Check(pid, tier, seed, level="proof")
    n = 3000 if tier == "quick" else 60000
    ck.proof_step(extra_targets=["Model/SortMerge.vo"])
    ok, out, dt = vlib.cargo_build("h_physplan", bin="c08")
    ck.log("cargo build: ok=%s (%.0fs)" % (ok, dt))
    if not ok:
        ck.problem("tie", "harness build failed:\n" + out[-3000:])
        return ck.finish()
    rc, so, se, dt = vlib.run_bin("c08", ["--seed", seed, "--n", n])
    cases = vlib.jsonl(so)
    if rc != 0:
        ck.problem("tie", "harness ended abnormally rc=%d: %s" % (rc, se[-1500:]))
    if not cases:
        ck.problem("tie", "harness produced no cases")
        return ck.finish()
    merges = [c for c in cases if c["k"] == "merge"]
    sorts = [c for c in cases if c["k"] == "sort"]
    ck.log("harness: %d merge cases, %d sort/topk cases (%.1fs)" % (len(merges), len(sorts), dt))
    for c in cases:
        if not c["ok"]:
            what = ("k-way merge (%s, %d partitions, round robin %s): " % (c["via"], len(c["parts"]), c["rr"]) if c["k"] == "merge"
                    else "%s (fetch %s, memory %s, fan-in %s): " % (c["op"], c["fetch"], c["mem"], c["fanin"])) + c["why"]
            ck.fail_input(what, c)
    good = [c for c in cases if c["ok"] and "out" in c]
    pre = ("From DF Require Import Base.Prelude Model.SortMerge.\nOpen Scope Z_scope.")
    bad, log, dt = vlib.coq_eval_cases(pre, "c08_case", "c08_check", [render(c) for c in good], shard=250, tag="c08")
    ck.log("correspondence: %d cases, %d disagreements (%.1fs)" % (len(good), len(bad), dt))
    if bad:
        first = bad[0]
        ck.problem("tie", "model and implementation disagree on %d cases; first: %s"
                   % (len(bad), str(good[first] if isinstance(first, int) else log)[:1800]))
    exact = [c for c in good if c["k"] == "merge" and (not c["rr"] or len(c["parts"]) == 1)]
    spilled = [c for c in sorts if c.get("spills", 0) > 0]
    nt = {vlib.case_hash([c["os"], c["parts"], c["fetch"]]) for c in merges if len(c["parts"]) >= 2 and has_cross_tie(c)}
    nt |= {vlib.case_hash([c["op"], c["os"], c["chunks"], c["fetch"], c["mem"], c["fanin"]]) for c in sorts
           if sum(len(x) for x in c["chunks"]) >= 2 and "out" in c}
    byk = {}
    for c in merges:
        byk[len(c["parts"])] = byk.get(len(c["parts"]), 0) + 1
    ops = {}
    for c in sorts:
        key = c["op"] + ("+fetch" if c["fetch"] is not None else "")
        ops[key] = ops.get(key, 0) + 1
    ck.coverage.update({
        "evaluations": len(cases),
        "distinct_nontrivial": len(nt),
        "rule": "merge: k = 1..9 sorted partitions (each k forced twice, then random) of 0..8 rows, 1-3 Int64 key columns over domains of 2..9 values "
                "with 0-50% NULLs, random (descending, nulls_first) per column, input batches of 1..4 rows with empty batches interleaved, output batch "
                "size {1,2,3,5,8192}, fetch absent or 1..n+2, through SortPreservingMergeExec or StreamingMergeBuilder, round-robin tie breaker off (80%) / on; "
                "non-trivial = k >= 2 and two different partitions hold rows with equal keys. sort: SortExec / SortExec over an input with a declared sorted "
                "prefix / PartialSortExec, 0..40 rows in batches of 1..4, fetch absent or 1..n+2 (TopK), memory pools of 200..3000 bytes or unbounded, "
                "max_spill_merge_fan_in {0,2,3,4}, sort_spill_reservation_bytes {0,128}; non-trivial = at least 2 rows and an output was produced",
        "merge_cases_by_k": {str(k): v for k, v in sorted(byk.items())},
        "merge_exact_sequence_compared": len(exact),
        "merge_round_robin_valid_merge_only": len([c for c in merges if c["rr"] and len(c["parts"]) > 1]),
        "sort_cases_by_operator": ops,
        "sort_cases_that_spilled": len(spilled),
        "max_spills_in_one_sort": max([c.get("spills", 0) for c in sorts] or [0]),
        "sort_cases_out_of_memory_error": len([c for c in sorts if "err" in c]),
        "traces_validated_against_impl": len(good),
        "samples": [merges[0], sorts[0] if sorts else None],
        "trusted_base": vlib.TRUSTED_COMMON + [
            "Arrow's row format (RowConverter byte order) and primitive cursors are taken to implement the (descending, nulls_first) lexicographic comparator "
            "that the model states; this is checked only through the outputs of the operators",
            "Arrow's lexsort kernel (in-memory sort of a chunk) is a parameter of the external-sort theorem (any function returning a sorted permutation)",
            "std::collections::BinaryHeap (TopK heap) is modelled by its sorted contents; which of several equal maxima is evicted is left open (valid top-k up to ties)",
            "the harness's own reference comparator / oracle (Rust) and the Coq checker sort_check (proved sound against the declarative statement)"],
    })
    ck.assumptions = ["keys are nullable Int64 (no floats/NaN, strings, dictionaries or nested keys in the Coq model; the harness uses Int64 only)",
                      "a stream's batches are concatenated in the model: a finished batch cursor is replaced by the stream's next non-empty batch before the tree is updated",
                      "the round-robin tie breaker is only checked as a valid merge, not modelled"]
    return ck.finish()
