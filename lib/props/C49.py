"""C49 -- catalog changes are applied exactly and reflected in the information schema.  Tie: X."""
import vlib
from vlib import Check, zlit, coq_bool


STR = {}


def cs(s):
    """every distinct string is defined once in the preamble (string literals are large terms for coqc)"""
    if s not in STR:
        STR[s] = "s_%d" % len(STR)
    return STR[s]


def r_ident(i):
    return "(Id %s %s)" % (coq_bool(i["q"]), cs(i["t"]))


def r_tref(parts):
    return "(%s %s)" % (["Bare", "Partial", "Full"][len(parts) - 1], " ".join(r_ident(p) for p in parts))


def r_sref(parts):
    return "(%s %s)" % (["SBare", "SFull"][len(parts) - 1], " ".join(r_ident(p) for p in parts))


TY = {"INT": "TyInt", "BIGINT": "TyBigint", "VARCHAR": "TyVarchar", "DOUBLE": "TyDouble", "BOOLEAN": "TyBool"}
OUT = {"ok": "Ok", "already_exists": "AlreadyExists", "not_found": "NotFound", "no_catalog": "NoCatalog", "no_schema": "NoSchema",
       "conflict": "Conflict", "not_empty": "NotEmpty"}


def r_ddl(d):
    op = d["op"]
    if op == "create_table":
        cols = "[" + "; ".join("(%s, %s)" % (r_ident(c), TY[t]) for c, t in d["cols"]) + "]"
        return "CreateTable %s %s %s %s" % (r_tref(d["name"]), cols, coq_bool(d["ine"]), coq_bool(d["orr"]))
    if op == "ctas":
        return "CreateTableAs %s %s %s %s %s" % (r_tref(d["name"]), r_ident(d["c"]), zlit(d["k"]), coq_bool(d["ine"]), coq_bool(d["orr"]))
    if op == "create_view":
        return "CreateView %s %s %s %s %s" % (r_tref(d["name"]), r_ident(d["c"]), zlit(d["k"]), coq_bool(d["orr"]), cs(d["text"]))
    if op == "drop_table":
        return "DropTable %s %s" % (r_tref(d["name"]), coq_bool(d["ife"]))
    if op == "drop_view":
        return "DropView %s %s" % (r_tref(d["name"]), coq_bool(d["ife"]))
    if op == "create_schema":
        return "CreateSchema %s %s" % (r_sref(d["name"]), coq_bool(d["ine"]))
    if op == "drop_schema":
        return "DropSchema %s %s %s" % (r_sref(d["name"]), coq_bool(d["ife"]), coq_bool(d["cascade"]))
    return "CreateCatalog %s %s" % (r_ident(d["name"]), coq_bool(d["ine"]))


KIND = {"BASE TABLE": "KTable", "VIEW": "KView"}


def r_obs(s):
    tables = "[" + "; ".join("(%s, %s, %s, %s)" % (cs(r[0]), cs(r[1]), cs(r[2]), KIND[r[3]]) for r in s["tables"]) + "]"
    schemata = "[" + "; ".join("(%s, %s)" % (cs(r[0]), cs(r[1])) for r in s["schemata"]) + "]"
    views = "[" + "; ".join("(%s, %s, %s, %s)" % (cs(r[0]), cs(r[1]), cs(r[2]), "None" if r[3] is None else "Some %s" % cs(r[3])) for r in s["views"]) + "]"
    columns = "[" + "; ".join("(%s, %s, %s, (%s, %s, %s, %s))" % (cs(r[0]), cs(r[1]), cs(r[2]), cs(r[3]), zlit(r[4]), coq_bool(r[5] == "YES"), cs(r[6]))
                              for r in s["columns"]) + "]"
    probes = []
    for p in s["probes"]:
        if p["res"] is None:
            res = "None"
        else:
            res = "Some ([%s], [%s])" % ("; ".join(cs(c) for c in p["res"]["cols"]),
                                         "; ".join("[" + "; ".join(zlit(v) for v in row) + "]" for row in p["res"]["rows"]))
        probes.append("(%s, %s)" % (r_tref(p["ref"]), res))
    return "Obs %s %s %s %s %s [%s]" % (OUT[s["out"]], tables, schemata, views, columns, "; ".join(probes))


def renderable(c):
    if c["k"] != "hist":
        return False
    for s in c["steps"]:
        if s.get("broken") or s["out"] not in OUT:
            return False
        if any(r[3] not in KIND for r in s["tables"]) or any(r[5] not in ("YES", "NO") for r in s["columns"]):
            return False
        for p in s["probes"]:
            if p["res"] is not None and any(v is None for row in p["res"]["rows"] for v in row):
                return False
    return True


def render(c):
    return "C49 [%s]" % ";\n ".join("(%s, %s)" % (r_ddl(s["ddl"]), r_obs(s)) for s in c["steps"])


def run(pid, tier, seed, replay):
    ck = Check(pid, tier, seed, level="proof")
    n = 150 if tier == "quick" else 4000
    ck.proof_step(extra_targets=["Model/CatalogSM.vo"])
    ok, out, dt = vlib.cargo_build("h_core", bin="c49")
    ck.log("cargo build: ok=%s (%.0fs)" % (ok, dt))
    if not ok:
        ck.problem("tie", "harness build failed:\n" + out[-3000:])
        return ck.finish()
    rc, so, se, dt = vlib.run_bin("c49", ["--seed", seed, "--n", n])
    cases = vlib.jsonl(so)
    if rc != 0:
        ck.problem("tie", "harness ended abnormally rc=%d: %s" % (rc, se[-1500:]))
    if not cases:
        return ck.finish()
    outcomes = {}
    nsteps = 0
    for c in cases:
        if c["k"] == "panic":
            ck.fail_input("panic while running a DDL history", {"sqls": c["sqls"]})
            continue
        sqls = [s["sql"] for s in c["steps"]]
        for s in c["steps"]:
            nsteps += 1
            o = s["out"] if s["out"] in OUT else "other"
            outcomes[o] = outcomes.get(o, 0) + 1
        for f in c["fails"]:
            ck.fail_input(f["why"][:1500], {"history": sqls}, key=f["key"])
    ck.log("harness: %d histories, %d statements, outcomes %s (%.1fs)" % (len(cases), nsteps, outcomes, dt))
    # correspondence: the Coq model replays every history: same outcome and the same information_schema listings
    # (as multisets) and probe results after every statement
    corr = [c for c in cases if renderable(c)]
    if len(corr) < len(cases):
        unk = [c for c in cases if not renderable(c)]
        if not any(f["key"] is None for c in unk if c["k"] == "hist" for f in c["fails"]) and not any(c["k"] == "panic" for c in unk):
            ck.problem("tie", "%d histories cannot be rendered for the model although the oracle accepted them: %s" % (len(unk), str(unk[0])[:800]))
    terms = [render(c) for c in corr]
    pre = ("From Coq Require Import String.\nFrom DF Require Import Base.Prelude Model.CatalogSM.\nOpen Scope Z_scope.\n"
           + "\n".join('Definition %s : string := "%s"%%string.' % (v, k.replace('"', '""')) for k, v in STR.items()))
    bad, log, dt = vlib.coq_eval_cases(pre, "c49_case", "c49_check", terms, shard=(10 if tier == "quick" else 40), tag="c49")
    ck.log("correspondence: %d histories, %d disagreements (%.1fs)" % (len(corr), len(bad), dt))
    if bad:
        first = bad[0]
        ck.problem("tie", "model and implementation disagree on %d histories; first: %s"
                   % (len(bad), str([s["sql"] + " -> " + s["out"] for s in corr[first]["steps"]] if isinstance(first, int) else log)[:1500]))
        for b in bad[:5]:
            if isinstance(b, int):
                ck.fail_input("DDL history on which the implementation's outcomes / information_schema listings differ from the catalog state machine",
                              {"history": [s["sql"] for s in corr[b]["steps"]], "outcomes": [s["out"] for s in corr[b]["steps"]]})
    hist = [c for c in cases if c["k"] == "hist"]
    nt = {vlib.case_hash([s["sql"] for s in c["steps"]]) for c in hist if c["nontrivial"] >= 2}
    ck.coverage.update({
        "evaluations": nsteps,
        "distinct_nontrivial": len(nt),
        "rule": "3 fixed witness histories first, then random histories of 5..15 statements: CREATE [OR REPLACE] TABLE [IF NOT EXISTS] n(cols) / "
                "... AS SELECT k AS c / CREATE [OR REPLACE] VIEW n AS SELECT k AS c / DROP TABLE|VIEW [IF EXISTS] / CREATE SCHEMA [IF NOT EXISTS] / "
                "DROP SCHEMA [IF EXISTS] [CASCADE] / CREATE DATABASE [IF NOT EXISTS]; names bare, schema- and catalog-qualified over catalogs "
                "{datafusion, c2, \"C2\"}, schemas {public, s1, \"S1\"}, names {t, \"T\", u, v, \"V\"} spelled quoted / unquoted / mixed case; after "
                "every statement: outcome class, information_schema.tables/schemata/views/columns and SELECT * probes of the target and 1-2 random "
                "names; non-trivial = a history with at least two statements that fail, replace (OR REPLACE) or cascade",
        "histories": len(hist),
        "outcomes": outcomes,
        "traces_validated_against_impl": len(corr),
        "samples": [[s["sql"] + " -> " + s["out"] for s in hist[-1]["steps"]]] if hist else [],
        "trusted_base": vlib.TRUSTED_COMMON + [
            "SQL parsing / identifier normalisation of the statement text is exercised end to end but only the normalisation rule (quoted = exact, "
            "unquoted = ASCII lower case) is modelled; the view definition text is an input of the model (it must equal the statement sent)",
            "error messages are mapped to outcome classes by substring (c49.rs classify)"],
    })
    ck.assumptions = ["statements never name the virtual schema information_schema (the model answers Unsupported; the harness does not generate them)",
                      "identifiers contain no '.' (create_catalog_schema splits the normalised schema name on '.')",
                      "objects are in-memory tables and views over constant queries; views over tables, external/listing tables and concurrent DDL are not covered",
                      "default catalog 'datafusion' / default schema 'public', enable_ident_normalization = true, information_schema enabled"]
    return ck.finish()
