"""C39 -- INSERT / UPDATE / DELETE on in-memory tables follow SQL semantics.  Tie: X (statement histories)."""
import vlib
from vlib import Check, zlit

CMP = {"=": "CEq", "<>": "CNe", "<": "CLt", "<=": "CLe", ">": "CGt", ">=": "CGe"}
ARITH = {"+": "IAdd", "-": "ISub", "*": "IMul"}


def r_val(v):
    return "None" if v is None else "(Some %s)" % zlit(v)


def r_row(r):
    return "[" + "; ".join(r_val(v) for v in r) + "]"


def r_rows(rs):
    return "[" + "; ".join(r_row(r) for r in rs) + "]"


def r_table(t):
    return "[" + "; ".join("[" + "; ".join(r_rows(b) for b in p) + "]" for p in t) + "]"


def r_ie(e):
    if e == "null":
        return "INull"
    if "c" in e:
        return "(ICol %d%%nat)" % e["c"]
    if "l" in e:
        return "(ILit %s)" % zlit(e["l"])
    return "(%s %s %s)" % (ARITH[e["op"]], r_ie(e["a"]), r_ie(e["b"]))


def r_be(p):
    if p == "bnull":
        return "BNull"
    if "bl" in p:
        return "(BLit %s)" % ("true" if p["bl"] else "false")
    if "cmp" in p:
        return "(BCmp %s %s %s)" % (CMP[p["cmp"]], r_ie(p["a"]), r_ie(p["b"]))
    if "and" in p:
        return "(BAnd %s %s)" % (r_be(p["and"][0]), r_be(p["and"][1]))
    if "or" in p:
        return "(BOr %s %s)" % (r_be(p["or"][0]), r_be(p["or"][1]))
    if "not" in p:
        return "(BNot %s)" % r_be(p["not"])
    if "isnull" in p:
        return "(BIsNull %s)" % r_ie(p["isnull"])
    return "(BIsNotNull %s)" % r_ie(p["notnull"])


def r_where(w):
    return "None" if w is None else "(Some %s)" % r_be(w)


def r_stmt(s):
    if "ins" in s:
        cols = s["ins"]["cols"]
        cl = "None" if cols is None else "(Some [%s])" % "; ".join("%d%%nat" % c for c in cols)
        return "SInsert %s %s" % (cl, r_rows(s["ins"]["vals"]))
    if "del" in s:
        return "SDelete %s" % r_where(s["del"]["w"])
    asg = "[" + "; ".join("(%d%%nat, %s)" % (c, r_ie(e)) for c, e in s["upd"]["asg"]) + "]"
    return "SUpdate %s %s" % (asg, r_where(s["upd"]["w"]))


KEYS = {
    "fold": "C39-constant-where-all-rows",
    "cse": "C39-common-subexpression-error",
}


def render(c, ctor="C39"):
    k = c["done"]
    return ctor + " 3%%nat %s [%s] [%s]" % (
        r_table(c["init"]),
        "; ".join(r_stmt(s) for s in c["stmts"][:k]),
        "; ".join("(%s, %s)" % (r_table(o["table"]), zlit(o["count"])) for o in c["obs"][:k]))


def nrows(t):
    return sum(len(b) for p in t for b in p)


def run(pid, tier, seed, replay):
    ck = Check(pid, tier, seed, level="proof")
    n = 500 if tier == "quick" else 10000
    ck.proof_step(extra_targets=["Model/MemTableDML.vo"])
    ok, out, dt = vlib.cargo_build("h_core", bin="c39")
    ck.log("cargo build: ok=%s (%.0fs)" % (ok, dt))
    if not ok:
        ck.problem("tie", "harness build failed:\n" + out[-3000:])
        return ck.finish()
    rc, so, se, dt = vlib.run_bin("c39", ["--seed", seed, "--n", n])
    cases = vlib.jsonl(so)
    if rc != 0:
        ck.problem("tie", "harness ended abnormally rc=%d: %s" % (rc, se[-1500:]))
    if not cases:
        return ck.finish()
    ck.log("harness: %d histories (%.1fs)" % (len(cases), dt))
    classes = {}
    for c in cases:
        if not c["ok"]:
            classes[c["class"]] = classes.get(c["class"], 0) + 1
            ck.fail_input("DML on MemTable deviates from SQL semantics: " + c["why"][:1200],
                          {"target_partitions": c["tp"], "initial_table": c["init"], "sql": c["sql"][:c["done"] + 1],
                           "observed": c["obs"][-1:] if c["obs"] else None, "optimized_plan_class": c["class"]},
                          key=KEYS.get(c["class"]))
    ck.log("oracle failures by class of the failing statement's optimized plan: %s" % classes)
    good = [c for c in cases if c["ok"] and c["done"] > 0]
    pre = "From DF Require Import Base.Prelude Model.MemTableDML.\nOpen Scope Z_scope."
    bad, log, dt = vlib.coq_eval_cases(pre, "c39_case", "c39_check", [render(c) for c in good], shard=100, tag="c39")
    ck.log("correspondence: %d histories, %d disagreements (%.1fs)" % (len(good), len(bad), dt))
    if bad:
        first = bad[0]
        ck.problem("tie", "model and implementation disagree (count or exact partition/batch layout) on %d histories; first: %s"
                   % (len(bad), str({k: good[first][k] for k in ("init", "sql", "obs")} if isinstance(first, int) else log)[:2500]))
    # histories that ran into the constant-WHERE finding: the pipeline model (step_upstream) must predict
    # exactly what the implementation did (all rows deleted / counted)
    ups = [c for c in cases if not c["ok"] and c["class"] == "fold" and c["cf"] and c["done"] == len(c["obs"]) and c["done"] > 0]
    if ups:
        bad, log, dt = vlib.coq_eval_cases(pre, "c39u_case", "c39u_check", [render(c, "C39U") for c in ups], shard=100, tag="c39u")
        ck.log("correspondence (pipeline with the constant-WHERE defect): %d histories, %d disagreements (%.1fs)" % (len(ups), len(bad), dt))
        if bad:
            first = bad[0]
            ck.problem("tie", "upstream pipeline model and implementation disagree on %d histories; first: %s"
                       % (len(bad), str({k: ups[first][k] for k in ("init", "sql", "obs")} if isinstance(first, int) else log)[:2500]))
    kinds = {"insert": 0, "insert_with_column_list": 0, "delete": 0, "delete_all": 0, "update": 0, "update_all": 0}
    partial = 0
    zero = 0
    stm = 0
    nt = set()
    for c in cases:
        before = nrows(c["init"])
        hit = False
        for s, o in zip(c["stmts"], c["obs"]):
            stm += 1
            if "ins" in s:
                kinds["insert_with_column_list" if s["ins"]["cols"] is not None else "insert"] += 1
            else:
                k = "del" if "del" in s else "upd"
                w = s[k]["w"]
                kinds[("delete" if k == "del" else "update") + ("" if w is not None else "_all")] += 1
                if w is not None and 0 < o["count"] < before:
                    partial += 1
                    hit = True
                if o["count"] == 0:
                    zero += 1
            before = nrows(o["table"])
        if hit:
            nt.add(vlib.case_hash([c["init"], c["stmts"]]))
    ck.coverage.update({
        "evaluations": len(cases),
        "distinct_nontrivial": len(nt),
        "rule": "histories of 3..10 statements through SessionContext::sql on MemTable t(a,b,c BIGINT NULL) with 1..3 partitions x 0..3 batches x 0..4 rows "
                "(30% NULLs, values -2..4, empty batches, empty partitions), target_partitions 1..4; INSERT VALUES with/without a (permuted, partial) column "
                "list; DELETE/UPDATE with no WHERE or a WHERE of depth <= 3 over =,<>,<,<=,>,>=, AND, OR, NOT, IS [NOT] NULL, + - * (literal factor), NULL, "
                "TRUE/FALSE, constant comparisons, duplicated conjuncts; UPDATE of 1..3 columns with right-hand sides over all columns, column swaps, "
                "identity assignments; non-trivial = a history in which some DELETE/UPDATE with WHERE selected a non-empty strict subset of the rows",
        "statements_executed": stm,
        "statement_kinds": kinds,
        "where_selected_strict_subset": partial,
        "statements_with_count_0": zero,
        "traces_validated_against_impl": len(good) + len(ups),
        "oracle_failures_by_class": classes,
        "samples": [{"init": cases[0]["init"], "sql": cases[0]["sql"], "counts": [o["count"] for o in cases[0]["obs"]]}],
        "trusted_base": vlib.TRUSTED_COMMON + [
            "SQL parsing, type coercion, the logical optimizer's rewriting of the WHERE clause / SET expressions before they reach MemTable, and "
            "Arrow's expression kernels are not modelled: the model takes the statement as written; agreement is by differential execution",
            "the harness reads the stored batches through the public field MemTable::batches and the table through SELECT a, b, c FROM t"],
    })
    ck.assumptions = ["BIGINT arithmetic is modelled on unbounded integers: generated values stay far from +-2^63 (Arrow's overflow error is outside the model)",
                      "UPDATE theorems assume distinct assignment targets (statement.rs keeps one entry per column); the table has >= 1 partition (MemTable::try_new)",
                      "single session, statements executed one after the other; atomicity of a statement that fails midway is not in the property",
                      "INSERT ... VALUES only (the source arrives as one record batch); INSERT ... SELECT and column DEFAULTs other than NULL are not exercised"]
    return ck.finish()
