"""C16 -- spill channels deliver every spilled batch exactly once and terminate.  Tie: X (call-granularity replay)."""
import vlib
from vlib import Check, zlit, coq_bool

FLT = {"none": "NoFault", "append": "FailAppend", "finish": "FailFinish"}

# the pinned upstream defect (failed append orphans the popped file) is repaired by /repo commit f071b55;
# if the repair is reverted the hang history fails again and is reported under this key (not a known finding)
HANG_KEY = "C16-failed-push-orphans-file"


def r_op(o):
    if o["op"] == "push":
        return "Push %d %s %s %s %s" % (o["w"], zlit(o["id"]), zlit(o["rows"]), zlit(o["size"]), FLT[o["inj"]])
    if o["op"] == "drop":
        return "DropW %d" % o["w"]
    return "Poll %s" % coq_bool(o["io"])


def r_out(o):
    if "r" in o:
        return "OPush %s %s" % (coq_bool(o["r"] == "ok"), zlit(o["wakes"]))
    if "p" in o:
        if o["p"] == "batch":
            return "OPoll (PBatch %s)" % zlit(o["id"])
        return "OPoll %s" % {"pending": "PPending", "eof": "PEof"}[o["p"]]
    return "ODrop %s" % zlit(o["wakes"])


def render(c):
    return "C16 %s %s [%s] [%s]" % (zlit(c["nw"]), zlit(c["thr"]), "; ".join(r_op(o) for o in c["ops"]),
                                    "; ".join(r_out(o) for o in c["outs"]))


def run(pid, tier, seed, replay):
    ck = Check(pid, tier, seed, level="proof")
    n = 1500 if tier == "quick" else 40000
    nstress = 40 if tier == "quick" else 1500
    ck.proof_step(extra_targets=["Model/SpillPool.vo", "Model/SpillPoolFine.vo"])
    ok, out, dt = vlib.cargo_build("h_physplan", bin="c16")
    ck.log("cargo build: ok=%s (%.0fs)" % (ok, dt))
    if not ok:
        ck.problem("tie", "harness build failed:\n" + out[-3000:])
        return ck.finish()
    rc, so, se, dt = vlib.run_bin("c16", ["--seed", seed, "--n", n, "--stress", nstress], timeout=3000)
    cases = vlib.jsonl(so)
    if rc != 0:
        ck.problem("tie", "harness ended abnormally rc=%d: %s" % (rc, se[-1500:]))
    sched = [c for c in cases if c.get("k") == "sched"]
    stress = [c for c in cases if c.get("k") == "stress"]
    if not sched:
        ck.problem("tie", "harness produced no cases")
        return ck.finish()
    ck.log("harness: %d call-granularity schedules, %d threaded stress runs (%.1fs)" % (len(sched), len(stress), dt))
    for c in sched:
        if not c["ok"]:
            case = {k: c.get(k) for k in ("chan", "nw", "thr", "ops", "outs", "hang")}
            failed_before = any(o.get("r") == "err" for o in (c.get("outs") or []))
            ck.fail_input("spill channel (call-granularity schedule): " + c["why"], case,
                          key=HANG_KEY if c.get("hang") and failed_before else None)
    for c in stress:
        if not c["ok"]:
            ck.fail_input("spill channel (threaded stress): " + c["why"], c,
                          key=HANG_KEY if c.get("hang") and c.get("failed") else None)
    good = [c for c in sched if c["ok"] and not c.get("panic")]
    pre = "From DF Require Import Base.Prelude Model.SpillPool.\nOpen Scope Z_scope."
    bad, log, dt = vlib.coq_eval_cases(pre, "c16_case", "c16_check", [render(c) for c in good], shard=250, tag="c16")
    ck.log("correspondence: %d schedules, %d disagreements (%.1fs)" % (len(good), len(bad), dt))
    if bad:
        first = bad[0]
        ck.problem("tie", "model and implementation disagree on %d schedules; first: %s"
                   % (len(bad), str(good[first] if isinstance(first, int) else log)[:2500]))
    # bounded exploration of the critical-section-granularity model (a test, not a theorem)
    rc2, txt = vlib.coq_eval_term("From DF Require Import Base.Prelude Model.SpillPool Model.SpillPoolFine.\nOpen Scope Z_scope.",
                                  "explore_suite (%s)" % ("2%nat" if tier == "quick" else "3%nat"), timeout=1500, tag="c16_explore")
    import re
    m = re.search(r"= \((\d+)(?:%Z)?, (true|false)\)", txt)
    if rc2 != 0 or not m:
        ck.problem("tie", "fine-grained exploration did not evaluate: " + txt[-1500:])
        explored = 0
    else:
        explored = int(m.group(1))
        ck.log("fine-grained model: %d complete interleavings explored at critical-section granularity, all good=%s" % (explored, m.group(2)))
        if m.group(2) != "true":
            ck.problem("tie", "bounded exploration of the critical-section-granularity model found an interleaving violating the property: " + txt[-800:])

    def pushes(c):
        return [o for o in c["ops"] if o["op"] == "push"]
    nt = set()
    stats = {"with_append_failure": 0, "with_finish_failure": 0, "with_rotation": 0, "multi_writer": 0, "with_pending": 0, "io_pending_polls": 0}
    polls = {"batch": 0, "pending": 0, "eof": 0}
    for c in good:
        ps = pushes(c)
        fa = any(o["inj"] == "append" and o["rows"] > 0 for o in ps)
        ff = any(o["inj"] == "finish" and o["rows"] > 0 for o in ps)
        rot = c["thr"] < 2 ** 40 and any(o["rows"] > 0 for o in ps)
        pend = any(o.get("p") == "pending" for o in c["outs"])
        stats["with_append_failure"] += fa
        stats["with_finish_failure"] += ff
        stats["with_rotation"] += rot
        stats["multi_writer"] += c["nw"] > 1
        stats["with_pending"] += pend
        stats["io_pending_polls"] += sum(1 for o in c["ops"] if o["op"] == "poll" and o["io"])
        for o in c["outs"]:
            if "p" in o and o["p"] in polls:
                polls[o["p"]] += 1
        if (fa or ff or rot or c["nw"] > 1) and pend and sum(1 for o in ps if o["rows"] > 0) >= 2:
            nt.add(vlib.case_hash([c["nw"], c["thr"], [(o["op"], o.get("w"), o.get("rows"), o.get("inj")) for o in c["ops"]]]))
    ck.coverage.update({
        "evaluations": len(sched) + len(stress),
        "distinct_nontrivial": len(nt),
        "rule": "call-granularity schedules: 1..3 writers (spsc_channel, or mpsc_channel with clone()/new_sink()), 0..4 pushes each (1/7 empty; rows in "
                "{1,2,3,16,40,100,250}), rotation threshold in {0,1,300,600,1200,5000,never}, 1/4 of the pushes with an injected append failure "
                "(disk limit set to the current usage for that call), with threshold 0 a further 1/6 with an injected rotation-finish failure (limit set "
                "to usage + header + exactly the batch's IPC bytes), each writer dropped inside the schedule with probability 3/4, reader polls "
                "interleaved with weight 1, 2 or 4; afterwards all writers are dropped and the reader is drained. non-trivial = at least two non-empty "
                "pushes, at least one Pending poll, and a failure, a rotation or several writers; counted as distinct (writers, threshold, op sequence)",
        "schedule_stats": stats,
        "poll_results": polls,
        "stress_runs": len(stress),
        "stress_batches_pushed": sum(c.get("pushed", 0) for c in stress),
        "stress_pushes_failed": sum(c.get("failed", 0) for c in stress),
        "fine_grained_interleavings_explored": explored,
        "traces_validated_against_impl": len(good),
        "samples": [{k: good[i].get(k) for k in ("chan", "nw", "thr", "ops", "outs")} for i in (0, min(5, len(good) - 1))] if good else [],
        "trusted_base": vlib.TRUSTED_COMMON + [
            "push failures are injected from outside through DiskManager::set_max_temp_directory_size; which push fails (and where: append or rotation finish) is an input of the model",
            "the real channel is replayed at CALL granularity only (push_batch / drop / poll_next calls are not preempted); preemption between the critical "
            "sections of one call is exercised by the threaded stress runs (oracle only) and by bounded exploration of the fine-grained Coq model",
            "harness poll = poll_next repeated while the only reason for Pending is the tokio file read in flight (one blocking thread, FIFO barrier)",
            "Arrow IPC encoding/decoding of the spill files is not modelled (C21): reading batch k of a file yields the k-th batch appended"],
    })
    ck.assumptions = ["create_in_progress_file succeeds (temp file creation failures are not injected)",
                      "reading back a flushed batch succeeds (read errors are reported by the oracle, not modelled)",
                      "a single reader (the channel hands out exactly one stream)",
                      "theorems quantify over all interleavings of push/drop/poll CALLS (each call atomic), any number of writers, any schedule length"]
    return ck.finish()
