"""C02 -- query results do not depend on execution configuration or parallelism.  Tie: X (differential).

Proof part: coq/Props/C02.v, theorem family partitioning_invariance_* about the physical decomposition operators of
coq/Model/PhysDecomp.v over the bags of the reference SQL semantics (engine E1, coq/Model/RefSQL.v): laws OF THE
REFERENCE ALGEBRA.

Tie: harness/h_core/src/bin/c02.rs generates queries with the C01 generator and runs each on the REAL engine under K
sampled configurations of result-neutral settings (session options, MemTable partition / batch layout of the same
rows, two concurrent copies in one session).
  direct oracle (model independent, on the engine's own outputs): every run of one query returns the same bag of rows
    (ORDER BY + LIMIT: the same number of rows); a pair of runs that differ is the failing input;
  correspondence: every distinct result of a query is judged by the C01 verdict function inside Coq
    (`c02_check` = `c01_verdict` per run: bag equality / key-ordered sequence / valid top-k against the reference).
    Verdicts that differ between runs are a C02 failure as well (this is how ORDER BY sequences and top-k validity
    are compared across configurations: through `agrees`, not re-implemented).
  known deviations of the engine from the reference (C01-KF1..KF4, lib/props/C01.py `known_variants`): a result that
    disagrees with the reference in EVERY configuration in the same way is C01's business and is only counted here;
    it is reported under C02 only when the classification differs between configurations.
"""
import json

import vlib
from vlib import Check
from props.C01 import (r_db, r_query, r_obs, r_case, known_variants, unsupported, constructs, correlated,
                       KF_SORT)

PRE = "From DF Require Import Base.Prelude Model.RefSQL Model.PhysDecomp.\nOpen Scope Z_scope."

# known findings (listed in known_findings.json; fixed witnesses in c02.rs `witnesses()`).  A failing query is attributed to
# one of them only if the harness' re-run with the corresponding override makes all its configurations agree again.
KEY_SMJ = "C02-sort-merge-join-filter-index-out-of-bounds-with-several-partitions"
KEY_DYN = "C02-join-dynamic-filter-pushdown-changes-result"
KEY_SMJ_ROWS = "C02-sort-merge-outer-join-with-filter-returns-other-rows-than-hash-join"
KEY_SMJ_NULL = "C02-sort-merge-join-output-violates-declared-non-nullable-column"
KEY_SANITY = "C02-sanity-check-rejects-repartitioned-sort-of-union-with-repeated-sort-column"
SUS_DYN = "datafusion.optimizer.enable_join_dynamic_filter_pushdown=false"
SUS_PHJ = "datafusion.optimizer.prefer_hash_join=true"
SUS_RSORT = "datafusion.optimizer.repartition_sorts=false"


def has_outer_join(q):
    if isinstance(q, list):
        if len(q) > 1 and q[0] == "join" and q[1] in ("left", "right", "full"):
            return True
        return any(has_outer_join(x) for x in q)
    return False


def known_key(c):
    sus = {s["opt"]: s["ok"] for s in c.get("suspects", [])}
    errs = [r["out"]["err"] for r in c["runs"] if "err" in r["out"]]
    if any("SanityCheckPlan" in e for e in errs):
        return KEY_SANITY if sus.get(SUS_RSORT) else None
    if sus.get(SUS_PHJ) and not sus.get(SUS_DYN):
        if any("index out of bounds" in e for e in errs):
            return KEY_SMJ
        if any("declared as non-nullable but contains null values" in e for e in errs):
            return KEY_SMJ_NULL
        if not errs and has_outer_join(c["q"]):
            return KEY_SMJ_ROWS
        return None
    if sus.get(SUS_DYN):
        return KEY_DYN
    return None


def canon(kind, out):
    """what makes two results of one query 'the same observation' for the Coq evaluation"""
    if "rows" not in out:
        return "ERR"
    rows = [json.dumps(r) for r in out["rows"]]
    if kind == "bag":
        rows = sorted(rows)
    return "\n".join(rows)


def bag(out):
    return sorted(json.dumps(r) for r in out["rows"])


def same_direct(kind, a, b):
    """the direct oracle on two engine results"""
    ra, rb = "rows" in a, "rows" in b
    if not ra and not rb:
        return True
    if ra != rb:
        return False
    if kind == "topk":
        return len(a["rows"]) == len(b["rows"])
    return bag(a) == bag(b)


def r_c02(c, obs):
    return "C02Case %s %s [%s]" % (r_db(c["tables"]), r_query(c["q"]), "; ".join(r_obs(o) for o in obs))


def cfg_brief(c, run):
    cfg = c["cfgs"][run["cfg"]]
    return {"target_partitions": cfg["target_partitions"], "batch_size": cfg["batch_size"], "options": cfg["opts"],
            "table_layout_partitions_batches_rowidx": cfg["layout"], "two_concurrent_copies": cfg["concurrent"],
            "result": run["out"]}


def brief(c, a, b):
    return {"id": c["id"], "stream": c["stream"], "kind": c["kind"], "sql": c["sql"],
            "tables": [{"types": t["types"], "rows": t["rows"]} for t in c["tables"]],
            "config_A": cfg_brief(c, c["runs"][a]), "config_B": cfg_brief(c, c["runs"][b]), "query_json": c["q"]}


def verdicts_of(ck, cases_obs, tag):
    """c01 verdict (0 agree, 1 disagree, 2 reference run-time error, 3 ill-formed) of (case, obs) pairs"""
    terms = [r_case(dict(c, out=o)) for c, o in cases_obs]
    if not terms:
        return []
    res = []
    sets = []
    for chk in ("c01_agree", "c01_check", "c01_wellformed"):
        bad, log, _ = vlib.coq_eval_cases(PRE, "c01_case", chk, terms, shard=12, tag="%s_%s" % (tag, chk[4:]))
        if any(not isinstance(b, int) for b in bad):
            ck.problem("tie", "evaluation of the reference in coqc failed:\n" + log[-3000:])
        sets.append({b for b in bad if isinstance(b, int)})
    for i in range(len(terms)):
        if i in sets[2]:
            res.append(3)
        elif i not in sets[0]:
            res.append(0)
        elif i not in sets[1]:
            res.append(2)
        else:
            res.append(1)
    return res


def analyse(ck, cases):
    n_runs = sum(len(c["runs"]) for c in cases)
    todo = []                  # (case, distinct observations [out], representative run index per observation)
    skipped_unsupported = 0
    direct_bad = {}            # case id -> (a, b)
    for c in cases:
        runs = c["runs"]
        for i, r in enumerate(runs):
            if r["panic"]:
                ck.fail_input("engine panicked: " + r["out"].get("err", "")[:300], brief(c, 0, i))
        if any("config:" in r["out"].get("err", "")[:8] for r in runs):
            ck.problem("tie", "the harness could not set an option: %s" % [r["out"] for r in runs if "err" in r["out"]][:1])
            continue
        if all("err" in r["out"] and unsupported(r["out"]["err"]) for r in runs):
            skipped_unsupported += 1
            continue
        pair = None
        for a in range(len(runs)):
            for b in range(a + 1, len(runs)):
                if pair is None and not same_direct(c["kind"], runs[a]["out"], runs[b]["out"]):
                    pair = (a, b)
        if (pair is None) != bool(c["ok"]) and not any(r["panic"] for r in runs):
            ck.problem("tie", "harness oracle and driver oracle disagree on case %s" % c["id"])
        if pair:
            direct_bad[c["id"]] = pair
        seen, obs, rep = {}, [], []
        for i, r in enumerate(runs):
            k = canon(c["kind"], r["out"])
            if k not in seen:
                seen[k] = len(obs)
                obs.append(r["out"])
                rep.append(i)
        todo.append((c, obs, rep))
    terms = [r_c02(c, obs) for c, obs, _ in todo]
    bad, log, dt = vlib.coq_eval_cases(PRE, "c02_case", "c02_check", terms, shard=10, tag="c02")
    if any(not isinstance(b, int) for b in bad):
        ck.problem("tie", "evaluation of the reference in coqc failed:\n" + log[-3000:])
    bad = {b for b in bad if isinstance(b, int)}
    # drill down: per-observation verdicts of the queries that did not pass c02_check, and of those the direct oracle flagged
    drill = sorted(bad | {i for i, (c, _, _) in enumerate(todo) if c["id"] in direct_bad})
    pairs = [(todo[i][0], o) for i in drill for o in todo[i][1]]
    vs = verdicts_of(ck, pairs, "c02v")
    verd = {}
    p = 0
    for i in drill:
        verd[i] = vs[p:p + len(todo[i][1])]
        p += len(todo[i][1])
    # candidates for the known-deviation classification: observations with verdict 1 that returned rows
    cand = []
    for i in drill:
        c, obs, _ = todo[i]
        for j, o in enumerate(obs):
            if verd[i][j] == 1 and "rows" in o:
                for key, c2 in known_variants(dict(c, out=o)):
                    cand.append((i, j, key, r_case(c2)))
    label = {}
    if cand:
        cbad, log4, _ = vlib.coq_eval_cases(PRE, "c01_case", "c01_agree", [t for _, _, _, t in cand], shard=12, tag="c02k")
        if any(not isinstance(b, int) for b in cbad):
            ck.problem("tie", "evaluation of the known-deviation variants in coqc failed:\n" + log4[-3000:])
        cbad = set(cbad)
        for n_, (i, j, key, _) in enumerate(cand):
            if n_ not in cbad and (i, j) not in label:
                label[(i, j)] = key
    stats = {"agree_all_configs": 0, "reference_runtime_error_not_compared": 0, "known_deviation_config_independent": {},
             "unlisted_reference_disagreement_config_independent": 0, "config_dependent": 0}
    unlisted_samples = []
    compared = []
    for i, (c, obs, rep) in enumerate(todo):
        if i not in verd:
            stats["agree_all_configs"] += 1
            compared.append(c)
            continue
        v = verd[i]
        if 3 in v:
            ck.problem("tie", "reference term ill-formed (type/scope/fuel) -- generator or renderer defect: %s"
                       % json.dumps({"id": c["id"], "sql": c["sql"], "q": c["q"]})[:1500])
            continue
        if all(x == 2 for x in v):
            # SQL allows the run-time error (overflow, division by zero, scalar subquery cardinality): whether a
            # configuration meets it may legitimately depend on evaluation order
            stats["reference_runtime_error_not_compared"] += 1
            continue
        labs = []
        for j, x in enumerate(v):
            labs.append("ref" if x == 0 else label.get((i, j), "unlisted") if x == 1 else "rt")
        if c["id"] in direct_bad:
            a, b = direct_bad[c["id"]]
            stats["config_dependent"] += 1
            what = "results differ between configurations (%s vs %s)" % (
                "error" if "err" in c["runs"][a]["out"] else "%d rows" % len(c["runs"][a]["out"]["rows"]),
                "error" if "err" in c["runs"][b]["out"] else "%d rows" % len(c["runs"][b]["out"]["rows"]))
            ck.fail_input(what, dict(brief(c, a, b), overrides_that_make_all_configurations_agree=[
                s_["opt"] for s_ in c.get("suspects", []) if s_["ok"]]), key=known_key(c))
            continue
        if KF_SORT in labs and set(labs) <= {"ref", KF_SORT}:
            # C01-KF4: the SortExec is dropped in every configuration; that the unsorted output of one configuration
            # happens to be in order is not a different deviation
            labs = [KF_SORT]
        if len(set(labs)) > 1:
            # same bag / same number of rows, but the verdict against the reference (row order on the ORDER BY keys,
            # validity of the top-k, or which known deviation explains it) differs between configurations
            stats["config_dependent"] += 1
            j1 = 0
            j2 = next(j for j in range(len(labs)) if labs[j] != labs[0])
            key = None
            ck.fail_input("the same query is judged differently against the reference in two configurations (%s vs %s): "
                          "row order / top-k depends on the configuration" % (labs[j1][:7], labs[j2][:7]),
                          brief(c, rep[j1], rep[j2]), key=key)
            continue
        lab = labs[0]
        if lab == "unlisted":
            stats["unlisted_reference_disagreement_config_independent"] += 1
            if len(unlisted_samples) < 3:
                unlisted_samples.append({"sql": c["sql"], "tables": [t["rows"] for t in c["tables"]], "engine": obs[0]})
        else:
            d = stats["known_deviation_config_independent"]
            d[lab[:7]] = d.get(lab[:7], 0) + 1
    ck.log("reference (Coq): %d queries judged (%.1fs): %s; %d unsupported by the engine in every configuration"
           % (len(todo), dt, {k: v for k, v in stats.items()}, skipped_unsupported))
    # ---- coverage
    per_stream, cons, kinds = {}, {}, {}
    opt_use, tp_use, bs_use, nparts_use = {}, {}, {}, {}
    cfg_seen = set()
    nonempty = multi_obs = corr = conc = 0
    nt = set()
    for c in compared:
        per_stream[c["stream"]] = per_stream.get(c["stream"], 0) + 1
        kinds[c["kind"]] = kinds.get(c["kind"], 0) + 1
        constructs(c["q"], cons)
        rows = c["runs"][0]["out"].get("rows", [])
        if rows:
            nonempty += 1
        if correlated(c["q"]):
            corr += 1
        if len({canon("sort", r["out"]) for r in c["runs"]}) > 1:
            multi_obs += 1
        if rows and any(t["rows"] for t in c["tables"]) and len(c["cfgs"]) >= 2:
            nt.add(vlib.case_hash([c["q"], [t["rows"] for t in c["tables"]]]))
    for c in cases:
        for cfg in c["cfgs"]:
            cfg_seen.add(vlib.case_hash(cfg))
            tp_use[cfg["target_partitions"]] = tp_use.get(cfg["target_partitions"], 0) + 1
            bs_use[cfg["batch_size"]] = bs_use.get(cfg["batch_size"], 0) + 1
            for k, v in cfg["opts"].items():
                kk = "%s=%s" % (k.replace("datafusion.", ""), v)
                opt_use[kk] = opt_use.get(kk, 0) + 1
            for lay in cfg["layout"]:
                nparts_use[len(lay)] = nparts_use.get(len(lay), 0) + 1
            conc += 1 if cfg["concurrent"] else 0
    ck.coverage.update({
        "evaluations": n_runs,
        "queries": len(cases),
        "distinct_nontrivial": len(nt),
        "rule": "one generated query (C01 generator: 19 streams round-robin over 1..3 tables of 0..8 rows, nullable BIGINT/VARCHAR/BOOLEAN) executed under "
                "K configurations: #0 plain (target_partitions 1, batch_size 8192, one partition, one batch, defaults), the others sampled: target_partitions "
                "in {1,2,3,8}, batch_size in {1,2,3,8192}, each option of the list in c02.rs flipped with probability 1/9, 1/3 or 1/2, tables laid out in "
                "1..4 partitions (round-robin / contiguous / random, optionally reversed) cut into batches of 1/2/3/all rows with empty partitions and "
                "batches; one configuration per query runs two copies concurrently; evaluations = engine executions; non-trivial = judged against the "
                "reference in all configurations, non-empty result, distinct (query, tables)",
        "queries_compared_in_all_configs": len(compared),
        "compared_per_stream": per_stream,
        "compared_per_kind": kinds,
        "construct_occurrences_in_compared_queries": cons,
        "compared_with_nonempty_result": nonempty,
        "compared_with_correlated_subquery": corr,
        "queries_with_more_than_one_distinct_row_sequence": multi_obs,
        "distinct_configurations": len(cfg_seen),
        "concurrent_double_runs": conc,
        "target_partitions_used": tp_use,
        "batch_size_used": bs_use,
        "table_partition_counts_used": nparts_use,
        "option_settings_used": opt_use,
        "verdicts": stats,
        "unlisted_reference_disagreement_samples": unlisted_samples,
        "engine_unsupported_in_every_config_not_compared": skipped_unsupported,
        "traces_validated_against_impl": len(compared),
        "samples": [{"sql": c["sql"], "tables": [t["rows"] for t in c["tables"]],
                     "configs": [{"target_partitions": g["target_partitions"], "batch_size": g["batch_size"], "opts": g["opts"]} for g in c["cfgs"][:3]],
                     "engine": c["runs"][0]["out"]} for c in compared[:2]],
        "trusted_base": vlib.TRUSTED_COMMON + [
            "the two renderers of the query AST (harness/h_core/src/refsql_gen.rs: to SQL text, to JSON) and lib/props/C01.py (JSON to Coq term) are "
            "trusted to denote the same query (shared with C01)",
            "planner, optimizer, physical operators and the tokio scheduler are NOT modelled: the engine is tied to the reference algebra by differential "
            "execution across configurations and against the reference only",
            "which options are result-neutral is taken from the property text / the option documentation (list in c02.rs)",
        ],
    })


def run(pid, tier, seed, replay):
    ck = Check(pid, tier, seed, level="proof")
    n, k = (150, 6) if tier == "quick" else (3000, 10)
    ck.proof_step(extra_targets=["Model/PhysDecomp.vo", "Proofs/PhysDecompProofs.vo", "Proofs/PhysDecompAgg.vo", "Proofs/PhysDecompGroup.vo"])
    ok, out, dt = vlib.cargo_build("h_core", bin="c02")
    ck.log("cargo build: ok=%s (%.0fs)" % (ok, dt))
    if not ok:
        ck.problem("tie", "harness build failed:\n" + out[-3000:])
        return ck.finish()
    wit = []
    rc, so, se, dt0 = vlib.run_bin("c02", ["--witness"], timeout=600)
    wit = vlib.jsonl(so)
    if rc != 0:
        ck.problem("tie", "harness (witness cases) ended abnormally rc=%d: %s" % (rc, se[-1500:]))
    rc, so, se, dt = vlib.run_bin("c02", ["--seed", seed, "--n", n, "--k", k], timeout=3000)
    cases = vlib.jsonl(so)
    if rc != 0:
        ck.problem("tie", "harness ended abnormally rc=%d: %s" % (rc, se[-1500:]))
    if not cases:
        ck.problem("tie", "harness produced no cases")
        return ck.finish()
    ck.log("harness: %d witness + %d generated queries, %d engine executions (%.1fs)"
           % (len(wit), len(cases), sum(len(c["runs"]) for c in wit + cases), dt0 + dt))
    analyse(ck, wit + cases)
    ck.assumptions = [
        "the theorems are laws of the reference algebra (Model/RefSQL.v + Model/PhysDecomp.v); they say nothing about DataFusion's code",
        "the engine is tied by differential execution across sampled configurations and against the reference; thread schedules are whatever "
        "tokio picks (sampled by repetition: concurrent double runs, 4 worker threads), not enumerated",
        "fragment: the C01 fragment (no window functions, recursive CTEs, GROUPING SETS, floats/decimals/temporal types); MemTable sources only "
        "(file_groups.rs / work_source.rs are not exercised); no memory limit (spilling paths are not forced)",
        "min / max theorems: values of the base column types (agg_dom); count(DISTINCT) keeps the set of values as state",
    ]
    ck.notes.append("a result that differs from the reference in every configuration in the same way is a C01 finding and is only counted here "
                    "(coverage.verdicts); configuration-dependent results are always reported")
    return ck.finish()
