"""C01 -- SQL query results agree with reference relational semantics.  Tie: X (differential).

Engine E1 "RefSQL": coq/Model/RefSQL.v is an executable reference semantics of a SQL core; the theorems in
coq/Props/C01.v are laws OF THE REFERENCE (they make it trustworthy as "what SQL defines").  The real engine is
tied to the reference only by differential execution of generated queries: harness/h_core/src/bin/c01.rs renders
one query AST twice (SQL text for SessionContext::sql, JSON for this file), and `c01_check` (Coq, vm_compute)
compares the engine's rows with the reference's as a bag / as a key-ordered sequence / as a valid top-k.
The harness first runs a fixed witness corpus (ids 1000000.., one query per finding listed in known_findings.json for C01),
so every listed finding is exercised on every run whatever the seed.

Reusable interface (other properties: `from props.C01 import r_query, r_expr, r_value, r_rel, r_db, r_obs, r_case`):
  r_value(v)   JSON scalar (null / int / bool / str / {"f": float}) -> Coq `value`
  r_rel(rows)  list of rows -> Coq `rel`;  r_db(tables) -> Coq `db`
  r_expr(e), r_query(q)   JSON AST (see refsql_gen.rs e_json / q_json) -> Coq `expr` / `query`
  r_obs(out)   engine output {"rows": ..} | {"err": ..} -> Coq `option rel`
  r_case(c)    one harness line -> Coq `c01_case`
avg: the engine returns Float64; r_value maps a float x to the unique rational VRat n d with d <= 4096 and
|n/d - x| <= 1e-9 (generated groups have at most 8^3 = 512 rows, so distinct candidate rationals differ by more than
3e-6); the reference computes avg exactly as a gcd-normalised VRat, so Coq compares exact rationals.  A float that is
not within 1e-9 of such a rational is passed as VRat 0 0, which equals no reference value (-> disagreement).
"""
import fractions
import json

import vlib
from vlib import Check, zlit

PRE = "From DF Require Import Base.Prelude Model.RefSQL.\nOpen Scope Z_scope."


def cb(b):
    return "true" if b else "false"


def r_str(s):
    return "[" + "; ".join(str(x) for x in s.encode("utf-8")) + "]"


def r_value(v):
    if v is None:
        return "VNull"
    if isinstance(v, bool):
        return "(VBool %s)" % cb(v)
    if isinstance(v, int):
        return "(VInt %s)" % zlit(v)
    if isinstance(v, str):
        return "(VStr %s)" % r_str(v)
    if isinstance(v, dict) and "f" in v:
        x = v["f"]
        if x is None:
            return "(VRat 0 0)"
        fr = fractions.Fraction(x).limit_denominator(4096)
        if abs(float(fr) - x) > 1e-9:
            return "(VRat 0 0)"
        return "(VRat %s %s)" % (zlit(fr.numerator), zlit(fr.denominator))
    raise ValueError("unrenderable value %r" % (v,))


def r_list(xs):
    return "[" + "; ".join(xs) + "]"


def r_row(r):
    return r_list([r_value(v) for v in r])


def r_rel(rows):
    return r_list([r_row(r) for r in rows])


def r_db(tables):
    return r_list([r_rel(t["rows"]) for t in tables])


ARITH = {"+": "AAdd", "-": "ASub", "*": "AMul", "/": "ADiv", "%": "AMod"}
CMP = {"=": "CEq", "<>": "CNe", "<": "CLt", "<=": "CLe", ">": "CGt", ">=": "CGe"}
JOIN = {"inner": "JInner", "left": "JLeft", "right": "JRight", "full": "JFull"}
SETOP = {"union": "SUnion", "intersect": "SIntersect", "except": "SExcept"}
AGG = {"count_star": "FCountStar", "count": "FCount", "count_distinct": "FCountDistinct", "sum": "FSum",
       "min": "FMin", "max": "FMax", "avg": "FAvg"}


def r_expr(e):
    k = e[0]
    if k == "col":
        return "(ECol %d %d)" % (e[1], e[2])
    if k == "lit":
        return "(ELit %s)" % r_value(e[1])
    if k == "arith":
        return "(EArith %s %s %s)" % (ARITH[e[1]], r_expr(e[2]), r_expr(e[3]))
    if k == "cmp":
        return "(ECmp %s %s %s)" % (CMP[e[1]], r_expr(e[2]), r_expr(e[3]))
    if k == "and":
        return "(EAnd %s %s)" % (r_expr(e[1]), r_expr(e[2]))
    if k == "or":
        return "(EOr %s %s)" % (r_expr(e[1]), r_expr(e[2]))
    if k == "not":
        return "(ENot %s)" % r_expr(e[1])
    if k == "isnull":
        return "(EIsNull %s %s)" % (cb(e[1]), r_expr(e[2]))
    if k == "distinct":
        return "(EDistinct %s %s %s)" % (cb(e[1]), r_expr(e[2]), r_expr(e[3]))
    if k == "between":
        return "(EBetween %s %s %s %s)" % (cb(e[1]), r_expr(e[2]), r_expr(e[3]), r_expr(e[4]))
    if k == "inlist":
        return "(EInList %s %s %s)" % (cb(e[1]), r_expr(e[2]), r_list([r_expr(x) for x in e[3]]))
    if k == "case":
        ws = r_list(["(%s, %s)" % (r_expr(w), r_expr(t)) for w, t in e[1]])
        return "(ECase %s %s)" % (ws, "None" if e[2] is None else "(Some %s)" % r_expr(e[2]))
    if k == "coalesce":
        return "(ECoalesce %s)" % r_list([r_expr(x) for x in e[1]])
    if k == "nullif":
        return "(ENullif %s %s)" % (r_expr(e[1]), r_expr(e[2]))
    if k == "scalar":
        return "(EScalar %s)" % r_query(e[1])
    if k == "exists":
        return "(EExists %s %s)" % (cb(e[1]), r_query(e[2]))
    if k == "insub":
        return "(EInSub %s %s %s)" % (cb(e[1]), r_expr(e[2]), r_query(e[3]))
    raise ValueError("unknown expression " + str(k))


def r_query(q):
    k = q[0]
    if k == "table":
        return "(QTable %d)" % q[1]
    if k == "values":
        return "(QValues %s)" % r_rel(q[1])
    if k == "filter":
        return "(QFilter %s %s)" % (r_expr(q[1]), r_query(q[2]))
    if k == "project":
        return "(QProject %s %s)" % (r_list([r_expr(x) for x in q[1]]), r_query(q[2]))
    if k == "join":
        kind, wl, wr, on, l, r = q[1:]
        if kind == "cross":     # CROSS JOIN = inner join ON TRUE
            return "(QJoin JInner %d %d (ELit (VBool true)) %s %s)" % (wl, wr, r_query(l), r_query(r))
        return "(QJoin %s %d %d %s %s %s)" % (JOIN[kind], wl, wr, r_expr(on), r_query(l), r_query(r))
    if k == "semi":
        return "(QSemi %s %s %s %s)" % (cb(q[1]), r_expr(q[2]), r_query(q[3]), r_query(q[4]))
    if k == "group":
        aggs = r_list(["(%s, %s)" % (AGG[a], r_expr(x)) for a, x in q[2]])
        return "(QGroup %s %s %s %s)" % (r_list([r_expr(x) for x in q[1]]), aggs,
                                         "None" if q[3] is None else "(Some %s)" % r_expr(q[3]), r_query(q[4]))
    if k == "distinctq":
        return "(QDistinct %s)" % r_query(q[1])
    if k == "setop":
        return "(QSetOp %s %s %s %s)" % (SETOP[q[1]], cb(q[2]), r_query(q[3]), r_query(q[4]))
    if k == "sort":
        ks = r_list(["(%s, (%s, %s))" % (r_expr(x), cb(d), cb(nf)) for x, d, nf in q[1]])
        return "(QSort %s %s)" % (ks, r_query(q[2]))
    if k == "limit":
        return "(QLimit %d %s %s)" % (q[1], "None" if q[2] is None else "(Some %d)" % q[2], r_query(q[3]))
    raise ValueError("unknown query node " + str(k))


def r_obs(out):
    return "(Some %s)" % r_rel(out["rows"]) if "rows" in out else "None"


def r_case(c):
    return "C01Case %s %s %s" % (r_db(c["tables"]), r_query(c["q"]), r_obs(c["out"]))


# ---------------------------------------------------------------- known deviations of the engine (known findings)
# A disagreement is attributed to a known finding only if the engine's rows AGREE with the reference evaluated on a
# rewritten query that encodes the deviation precisely; anything else is a new failing input.
KF_MARK = ("C01-KF1 IN / NOT IN subquery that is not a top-level conjunct of WHERE (decorrelated into a LeftMark join) is "
           "evaluated two-valued: an UNKNOWN membership test counts as FALSE, so `x NOT IN (S)` / `NOT (x IN (S))` under OR "
           "returns rows for which the test is UNKNOWN (x is NULL, or S contains NULL and no member equals x)")
KF_CONST = ("C01-KF3 `e NOT IN (subquery)` / `e IN (subquery)` whose left operand has no column of the outer row (a literal such as "
            "NULL or 0): the equality is pushed into the subquery as a filter and the test becomes [NOT] EXISTS, so a NULL left "
            "operand or a NULL in the subquery no longer makes NOT IN unknown")
KF_SORT = ("C01-KF4 ORDER BY [LIMIT] on a column that an equality with a literal fixes on the NULL-SUPPLYING side of an outer join "
           "(ON .. AND b.c0 = 0, or a WHERE b.c0 = 0 directly on that input): the key is treated as constant although the join pads "
           "it with NULLs, so it is removed from the ordering (with no other key the SortExec disappears: rows come back unordered "
           "and LIMIT keeps arbitrary rows)")
KF_GARBLE = ("C01-KF5 WHERE over `l RIGHT JOIN r` whose inputs have same-named columns: the physical filter pushdown moves the "
             "whole predicate below the join onto r and resolves every reference to a column of l to the same-named column of r "
             "(FilterExec `c1@0 IS NOT DISTINCT FROM c1@0` on r), so rows are filtered by the wrong predicate before the join")
KF_HANG = ("C01-KF6 a query whose physical plan contains a HashJoinExec intermittently never finishes (all worker threads parked, 0% "
           "CPU): seen with target_partitions=3, batch_size=2 on LeftSemi/CollectLeft hash joins fed by RepartitionExec")
KF_SETALL = ("C01-KF2 INTERSECT ALL / EXCEPT ALL are planned as LeftSemi / LeftAnti joins: multiplicities are not "
             "min / monus (EXCEPT ALL removes every copy of a row that occurs in the right input, INTERSECT ALL keeps every "
             "left copy)")


def q_width(q, tables):
    k = q[0]
    if k == "table":
        return len(tables[q[1]]["types"])
    if k == "values":
        return len(q[1][0])
    if k in ("filter", "distinctq", "sort", "limit"):
        return q_width(q[-1], tables)
    if k == "project":
        return len(q[1])
    if k == "join":
        return q[2] + q[3]
    if k == "semi":
        return q_width(q[3], tables)
    if k == "group":
        return len(q[1]) + len(q[2])
    if k == "setop":
        return q_width(q[3], tables)
    raise ValueError(k)


EXPR_KINDS = {"col", "lit", "arith", "cmp", "and", "or", "not", "isnull", "distinct", "between", "inlist", "case", "coalesce",
              "nullif", "scalar", "exists", "insub"}


def shift(x, c):
    """add 1 to every column reference of expression/query JSON x that escapes c enclosing row scopes"""
    if not isinstance(x, list) or not x:
        return x
    k = x[0]
    if not isinstance(k, str):
        return [shift(y, c) for y in x]
    if k == "col":
        return ["col", x[1] + 1 if x[1] >= c else x[1], x[2]]
    if k == "lit":
        return x
    if k in EXPR_KINDS:
        # sub-queries of an expression are evaluated under the same scope stack
        return [shift(y, c) if isinstance(y, list) else y for y in x]
    if isinstance(k, str):
        # a query node: its own expressions see one more row; its input queries see the same stack
        return [k] + [_shift_qarg(k, i, y, c) for i, y in enumerate(x[1:])]
    return [shift(y, c) for y in x]


def _is_query(y):
    return isinstance(y, list) and y and isinstance(y[0], str) and y[0] not in EXPR_KINDS


def _shift_qarg(kind, i, y, c):
    if _is_query(y):
        return shift(y, c)
    if kind == "values":
        return y
    if isinstance(y, list):
        return _shift_exprs(y, c + 1)
    return y


def _shift_exprs(y, c):
    if isinstance(y, list) and y and isinstance(y[0], str) and y[0] in EXPR_KINDS:
        return shift(y, c)
    if isinstance(y, list):
        return [_shift_exprs(z, c) for z in y]
    return y


def deviate(x, tables, mark, setall, conj=False):
    """rewrite JSON x so that the reference computes what the known deviations compute.
    mark: subset of {'nonconj', 'const'}: which IN / NOT IN subqueries become two-valued [NOT] EXISTS --
      'nonconj' those that are not a top-level conjunct of a WHERE, 'const' those whose left operand has no column;
    setall: INTERSECT ALL / EXCEPT ALL become semi / anti joins"""
    if not isinstance(x, list) or not x:
        return x
    k = x[0]
    if k == "insub" and (("nonconj" in mark and not conj) or ("const" in mark and not has_node(x[2], lambda n: n[0] == "col"))):
        neg, a, q = x[1], x[2], deviate(x[3], tables, mark, setall)
        a = deviate(a, tables, mark, setall)
        return ["exists", neg, ["filter", ["cmp", "=", ["col", 0, 0], shift(a, 0)], q]]
    if k == "and":
        return ["and", deviate(x[1], tables, mark, setall, conj), deviate(x[2], tables, mark, setall, conj)]
    if k == "filter":
        return ["filter", deviate(x[1], tables, mark, setall, True), deviate(x[2], tables, mark, setall)]
    if k == "setop" and setall and x[2] and x[1] in ("intersect", "except"):
        l, r = deviate(x[3], tables, mark, setall), deviate(x[4], tables, mark, setall)
        w = q_width(x[3], tables)
        on = None
        for i in range(w):
            e = ["distinct", True, ["col", 0, i], ["col", 0, w + i]]
            on = e if on is None else ["and", on, e]
        return ["semi", x[1] == "except", on, l, r]
    return [deviate(y, tables, mark, setall) if isinstance(y, list) else y for y in x]


def has_node(x, pred):
    if isinstance(x, list):
        return (bool(x) and pred(x)) or any(has_node(y, pred) for y in x)
    return False


def conjuncts(p):
    if isinstance(p, list) and p and p[0] == "and":
        return conjuncts(p[1]) + conjuncts(p[2])
    return [p]


def eq_const_cols(p):
    """columns i of the current row for which predicate p has a top-level conjunct `col i = <non-NULL literal>`"""
    out = set()
    for c in conjuncts(p):
        if isinstance(c, list) and c and c[0] == "cmp" and c[1] == "=":
            for a, b in ((c[2], c[3]), (c[3], c[2])):
                if a[0] == "col" and a[1] == 0 and b[0] == "lit" and b[1] is not None:
                    out.add(a[2])
    return out


def padded_const_cols(q):
    """output columns of q that an equality with a literal (in the ON clause, or in a WHERE directly on that input) fixes
    to a constant on the NULL-SUPPLYING side of an outer join -- so the join pads them with NULLs and they are NOT constant"""
    k = q[0]
    if k == "join":
        kind, wl, wr, on, l, r = q[1:]
        cc = set(padded_const_cols(l)) | {wl + i for i in padded_const_cols(r)}
        sides = {"left": ["r"], "right": ["l"], "full": ["l", "r"]}.get(kind, [])
        eqs = eq_const_cols(on) if kind != "cross" else set()
        for sd in sides:
            lo, hi, inp = (wl, wl + wr, r) if sd == "r" else (0, wl, l)
            cc |= {i for i in eqs if lo <= i < hi}
            if inp[0] == "filter":
                cc |= {lo + i for i in eq_const_cols(inp[1])}
        return cc
    if k in ("filter", "distinctq", "sort", "limit"):
        return padded_const_cols(q[-1])
    if k == "semi":
        return padded_const_cols(q[3])
    if k == "project":
        inner = padded_const_cols(q[2])
        return {i for i, e in enumerate(q[1]) if e[0] == "col" and e[1] == 0 and e[2] in inner}
    return set()


def drop_const_sort_keys(q):
    """KF4 rewrite: remove from the top-level ORDER BY exactly the keys that only mention padded 'constant' columns"""
    if q[0] == "sort":
        keys, q0, wrap = q[1], q[2], lambda s: s
    elif q[0] == "limit" and q[3][0] == "sort":
        keys, q0, wrap = q[3][1], q[3][2], lambda s: ["limit", q[1], q[2], s]
    else:
        return None
    cc = padded_const_cols(q0)
    if not cc:
        return None

    def constant_key(e):
        cols = []
        has_node(e, lambda n: n[0] == "col" and cols.append(n) is None and False)
        return bool(cols) and all(n[1] == 0 and n[2] in cc for n in cols) and not has_node(e, lambda n: n[0] in ("scalar", "exists", "insub"))
    kept = [kk for kk in keys if not constant_key(kk[0])]
    if len(kept) == len(keys):
        return None
    return wrap(["sort", kept, q0])


def garble_right_join_filter(x, tables):
    """KF5 rewrite: WHERE p over `l RIGHT JOIN r` (l, r base tables, whose columns have the same names c0, c1, ..) is applied
    to r BEFORE the join, with every reference to a column of l replaced by the same-named column of r"""
    if not isinstance(x, list) or not x:
        return x
    if x[0] == "filter" and x[2][0] == "join" and x[2][1] == "right" and x[2][5][0] == "table" and x[2][6][0] == "table":
        p, (_, kind, wl, wr, on, l, r) = x[1], x[2]
        ok = [True]

        def remap(e, depth):
            if not isinstance(e, list) or not e:
                return e
            if not isinstance(e[0], str):
                return [remap(y, depth) for y in e]
            if e[0] == "col":
                if e[1] != depth:
                    return e
                j = e[2] if e[2] < wl else e[2] - wl
                if j >= wr:
                    ok[0] = False
                return ["col", e[1], j]
            if e[0] in ("scalar", "exists", "insub"):
                ok[0] = False
            return [remap(y, depth) if isinstance(y, list) else y for y in e]
        p2 = remap(p, 0)
        if ok[0]:
            return ["join", kind, wl, wr, on, l, ["filter", p2, r]]
    return [garble_right_join_filter(y, tables) if isinstance(y, list) else y for y in x]


def known_variants(c):
    """(key, rewritten case) candidates explaining a disagreement by a known deviation"""
    q, tabs = c["q"], c["tables"]
    has_in = has_node(q, lambda n: n[0] == "insub")
    has_all = has_node(q, lambda n: n[0] == "setop" and n[1] in ("intersect", "except") and n[2] is True)
    has_const_in = has_node(q, lambda n: n[0] == "insub" and not has_node(n[2], lambda m: m[0] == "col"))
    out = []
    if has_in:
        out.append((KF_MARK, dict(c, q=deviate(q, tabs, {"nonconj"}, False))))
    if has_const_in:
        out.append((KF_CONST, dict(c, q=deviate(q, tabs, {"const"}, False))))
    if has_in and has_const_in:
        out.append((KF_MARK + " + " + KF_CONST, dict(c, q=deviate(q, tabs, {"nonconj", "const"}, False))))
    if has_all:
        out.append((KF_SETALL, dict(c, q=deviate(q, tabs, set(), True))))
    if has_in and has_all:
        out.append((KF_MARK + " + " + KF_SETALL, dict(c, q=deviate(q, tabs, {"nonconj"}, True))))
    if has_const_in and has_all:
        out.append((KF_CONST + " + " + KF_SETALL, dict(c, q=deviate(q, tabs, {"const"}, True))))
    ds = drop_const_sort_keys(q)
    if ds is not None:
        out.append((KF_SORT, dict(c, q=ds)))
    g = garble_right_join_filter(q, tabs)
    if g != q:
        out.append((KF_GARBLE, dict(c, q=g)))
    return out


UNSUPPORTED_MARKS = ("This feature is not implemented", "not implemented", "NotImplemented", "not supported",
                     "Unsupported", "unsupported", "only supports")


def unsupported(err):
    return any(m in err for m in UNSUPPORTED_MARKS)


def constructs(q, acc):
    """names of the constructs occurring in a JSON query/expression (coverage)"""
    if isinstance(q, list):
        if q and isinstance(q[0], str) and q[0] in ("table", "values", "filter", "project", "join", "semi", "group", "distinctq",
                                                    "setop", "sort", "limit", "scalar", "exists", "insub", "case", "coalesce",
                                                    "nullif", "between", "inlist", "distinct", "isnull", "arith", "and", "or", "not"):
            name = q[0]
            if name == "join":
                name = "join_" + q[1]
            elif name == "semi":
                name = "anti" if q[1] else "semi"
            elif name == "setop":
                name = q[1] + ("_all" if q[2] else "")
            elif name in ("exists", "insub") and q[1]:
                name = "not_" + name
            acc[name] = acc.get(name, 0) + 1
        for x in q:
            constructs(x, acc)
    return acc


def correlated(q, depth=0):
    """does the JSON contain a column reference that escapes `depth` scopes (a correlated subquery)"""
    if isinstance(q, list):
        if q and q[0] == "col":
            return q[1] >= 1
        return any(correlated(x) for x in q)
    return False


def run(pid, tier, seed, replay):
    ck = Check(pid, tier, seed, level="proof")
    n = 608 if tier == "quick" else 15200
    ck.proof_step(extra_targets=["Model/RefSQL.vo", "Proofs/RefSQLLaws.vo"])
    ok, out, dt = vlib.cargo_build("h_core", bin="c01")
    ck.log("cargo build: ok=%s (%.0fs)" % (ok, dt))
    if not ok:
        ck.problem("tie", "harness build failed:\n" + out[-3000:])
        return ck.finish()
    rc, so, se, dt = vlib.run_bin("c01", ["--seed", seed, "--n", n], timeout=3000)
    cases = vlib.jsonl(so)
    if rc != 0:
        ck.problem("tie", "harness ended abnormally rc=%d: %s" % (rc, se[-1500:]))
    if not cases:
        return ck.finish()
    ck.log("harness: %d queries executed (%.1fs)" % (len(cases), dt))

    def brief(c):
        return {"id": c["id"], "stream": c["stream"], "target_partitions": c["tp"], "batch_size": c["bs"], "sql": c["sql"],
                "tables": [{"types": t["types"], "partitions": t["parts"], "rows": t["rows"]} for t in c["tables"]],
                "engine": c["out"], "query_json": c["q"]}

    todo = []
    n_unsupported = 0
    unsupported_msgs = {}
    n_hung = 0
    for c in cases:
        if not c["ok"]:
            ck.fail_input("engine panicked: " + c["out"].get("err", "")[:300], brief(c))
            continue
        if c.get("hung", 0) > 0:
            # the engine did not finish within the time limit in c["hung"] attempts (each in a fresh runtime); a later attempt
            # may have finished, in which case its rows are still compared below
            n_hung += 1
            b = brief(c)
            b.update({"hung_attempts": c["hung"], "time_limit_s": c.get("hang_secs"), "physical_plan": c.get("plan", "")})
            ck.fail_input("query did not finish within %s s in %d attempt(s)" % (c.get("hang_secs"), c["hung"]), b,
                          key=KF_HANG if "HashJoinExec" in c.get("plan", "") else None)
            if "err" in c["out"] and c["out"]["err"].startswith("timeout:"):
                continue
        if "err" in c["out"] and unsupported(c["out"]["err"]):
            n_unsupported += 1
            m = c["out"]["err"][:120]
            unsupported_msgs[m] = unsupported_msgs.get(m, 0) + 1
            continue
        todo.append(c)
    terms = [r_case(c) for c in todo]
    shard = 40
    bad, log, dt1 = vlib.coq_eval_cases(PRE, "c01_case", "c01_check", terms, shard=shard, tag="c01")
    agree_bad, log2, dt2 = vlib.coq_eval_cases(PRE, "c01_case", "c01_agree", terms, shard=shard, tag="c01a")
    if any(not isinstance(b, int) for b in bad + agree_bad):
        ck.problem("tie", "evaluation of the reference in coqc failed:\n" + (log + log2)[-3000:])
    bad = [b for b in bad if isinstance(b, int)]
    agree_bad = {b for b in agree_bad if isinstance(b, int)}
    # which of the disagreements are ill-formed reference terms (a defect of the generator / renderers)?
    wf_bad, dt3 = set(), 0.0
    if bad:
        sub, log3, dt3 = vlib.coq_eval_cases(PRE, "c01_case", "c01_wellformed", [terms[i] for i in bad], shard=shard, tag="c01w")
        if any(not isinstance(b, int) for b in sub):
            ck.problem("tie", "evaluation of the reference in coqc failed:\n" + log3[-3000:])
        wf_bad = {bad[b] for b in sub if isinstance(b, int)}
    for i in sorted(wf_bad):
        ck.problem("tie", "reference term ill-formed (type/scope/fuel) -- generator or renderer defect: %s" % json.dumps(brief(todo[i]))[:1500])
    # attribute disagreements to known deviations where the rewritten reference reproduces the engine's rows
    dis = [i for i in bad if i not in wf_bad]
    cand = []          # (index into dis, key, term)
    for j, i in enumerate(dis):
        if "rows" in todo[i]["out"]:
            for key, c2 in known_variants(todo[i]):
                cand.append((j, key, r_case(c2)))
    explained = {}
    if cand:
        cbad, log4, dt4 = vlib.coq_eval_cases(PRE, "c01_case", "c01_agree", [t for _, _, t in cand], shard=shard, tag="c01k")
        if any(not isinstance(b, int) for b in cbad):
            ck.problem("tie", "evaluation of the known-deviation variants in coqc failed:\n" + log4[-3000:])
        cbad = set(cbad)
        for n_, (j, key, _) in enumerate(cand):
            if n_ not in cbad and j not in explained:
                explained[j] = key
    n_dis = 0
    n_known = {}
    for j, i in enumerate(dis):
        c = todo[i]
        what = "engine result differs from reference SQL semantics"
        if "err" in c["out"]:
            what = "engine fails where the reference defines a result: " + c["out"]["err"][:200]
        key = explained.get(j)
        if key:
            n_known[key[:7]] = n_known.get(key[:7], 0) + 1
        else:
            n_dis += 1
        ck.fail_input(what, brief(c), key=key)
    # fixed witness corpus (harness ids >= 1000000, one query per listed finding): which finding did each one hit?
    witness = {}
    pos = {i: j for j, i in enumerate(dis)}
    for c in cases:
        if c["stream"] == "witness:KF6":    # liveness witness, run up to 8 times by the harness
            if c.get("hung", 0) > 0:
                witness["KF6"] = "C01-KF6"
            else:
                witness.setdefault("KF6", "did not hang this time (intermittent)")
    for i, c in enumerate(todo):
        if c["stream"].startswith("witness:") and c["stream"] != "witness:KF6":
            j = pos.get(i)
            witness[c["stream"][8:]] = ("agrees with the reference (finding no longer reproduces)" if j is None
                                        else (explained.get(j) or "UNEXPLAINED disagreement")[:7])
    for name, hit in sorted(witness.items()):
        if hit != "C01-" + name:
            ck.notes.append("witness query for C01-%s: %s" % (name, hit))
    ref_err = len([i for i in agree_bad if i not in set(bad) and i not in wf_bad])
    compared = [c for i, c in enumerate(todo) if i not in agree_bad]
    ck.log("reference (Coq): %d cases, %d agree, %d disagree, %d reference run-time errors (not compared), %d unsupported by the engine (%.1fs)"
           % (len(todo), len(compared), n_dis, ref_err, n_unsupported, dt1 + dt2 + dt3))
    per_stream = {}
    cons = {}
    nonempty = 0
    corr = 0
    nt = set()
    for c in compared:
        per_stream[c["stream"]] = per_stream.get(c["stream"], 0) + 1
        constructs(c["q"], cons)
        rows = c["out"].get("rows", [])
        if rows:
            nonempty += 1
        if correlated(c["q"]):
            corr += 1
        if rows and any(t["rows"] for t in c["tables"]):
            nt.add(vlib.case_hash([c["q"], [t["rows"] for t in c["tables"]]]))
    ck.coverage.update({
        "evaluations": len(cases),
        "distinct_nontrivial": len(nt),
        "rule": "one generated query per case over 1..3 tables (0..8 rows, 2..3 nullable BIGINT/VARCHAR/BOOLEAN columns, few distinct values, ~25% NULLs), "
                "MemTables with 1..3 partitions, target_partitions 1..3, batch_size in {2,3,8192}; 19 streams round-robin (filters/3VL, inner/left/right/full/cross "
                "join, LEFT SEMI/ANTI join, [NOT] EXISTS, IN / NOT IN subquery, scalar subquery (incl. correlated), GROUP BY + aggregates + HAVING, DISTINCT, "
                "UNION/INTERSECT/EXCEPT [ALL], ORDER BY + LIMIT/OFFSET, nested compositions); non-trivial = compared with the reference, engine returned at "
                "least one row, distinct (query, tables)",
        "compared_with_reference": len(compared),
        "compared_per_stream": per_stream,
        "construct_occurrences_in_compared_queries": cons,
        "compared_with_nonempty_result": nonempty,
        "compared_with_correlated_subquery": corr,
        "reference_runtime_error_not_compared": ref_err,
        "engine_unsupported_not_compared": n_unsupported,
        "engine_unsupported_messages": unsupported_msgs,
        "disagreements": n_dis,
        "queries_that_hung_at_least_once": n_hung,
        "disagreements_explained_by_known_findings": n_known,
        "witness_corpus": witness,
        "traces_validated_against_impl": len(compared),
        "samples": [{"sql": c["sql"], "tables": [t["rows"] for t in c["tables"]], "engine": c["out"]} for c in compared[:2]],
        "trusted_base": vlib.TRUSTED_COMMON + [
            "the two renderers of the query AST (harness/h_core/src/refsql_gen.rs: to SQL text, to JSON) and lib/props/C01.py (JSON to Coq term) are deliberately "
            "trivial and trusted to denote the same query",
            "avg: the engine's Float64 is mapped to the unique rational with denominator <= 4096 within 1e-9 and compared exactly in Coq",
            "planner, optimizer and physical operators are NOT modelled: the engine is tied to the reference by differential execution of the generated queries only",
        ],
    })
    ck.assumptions = [
        "the theorems are laws of the reference semantics (Model/RefSQL.v); they say nothing about DataFusion's code",
        "fragment: see coverage.rule; not covered: window functions, recursive CTEs, GROUPING SETS, LIKE, floats/decimals/temporal types, series table "
        "functions, ANY/ALL comparison subqueries, collations other than byte order",
        "error-capable expressions are generated guarded (division only by NULLIF(x,0) or a non-zero literal, small magnitudes); cases where the reference "
        "returns a run-time error are not compared",
    ]
    ck.notes.append("INTERSECT ALL / EXCEPT ALL and other deviations, if any, are listed in known_findings.json under property C01")
    return ck.finish()
